(* LivenessSound.v — the result of Liveness.liveness is the least solution of the backward
   equations, and non-interference: a variable that is not live at the end of a block can
   be changed there without changing the rest of any execution. *)
From Coq Require Import ZArith List Bool Lia.
From CrabV Require Import Ir.Syntax Ana.CfgSem Ana.Liveness.
Import ListNotations.

(* ------------------------------------------------------------------ statement-wise form of analyze *)
Definition live_stmt (st : stmt) (L : vset) : vset :=
  if is_unreach st then [] else union (uses st) (diff L (defs st)).
Fixpoint live_stmts (ss : list stmt) (out : vset) : vset :=
  match ss with
  | [] => out
  | st :: r => live_stmt st (live_stmts r out)
  end.

Lemma analyze_nil out x : In x (analyze [] out) <-> In x out.
Proof.
  change (analyze [] out) with (union [] (diff out [])).
  rewrite union_In, diff_In. simpl. tauto.
Qed.

Lemma analyze_cons st r out x :
  In x (analyze (st :: r) out) <-> In x (live_stmt st (analyze r out)).
Proof.
  unfold analyze, live_stmt. cbn [killgen]. destruct (killgen r) as [[u k] g].
  destruct (is_unreach st) eqn:U; cbv beta iota.
  - simpl. tauto.
  - destruct u.
    + tauto.
    + repeat (rewrite union_In || rewrite diff_In). tauto.
Qed.

Lemma live_stmt_ext st L L' x :
  (forall y, In y L <-> In y L') -> In x (live_stmt st L) <-> In x (live_stmt st L').
Proof.
  intros H. unfold live_stmt. destruct (is_unreach st); [tauto|].
  rewrite !union_In, !diff_In, H. tauto.
Qed.

Lemma analyze_spec ss out x : In x (analyze ss out) <-> In x (live_stmts ss out).
Proof.
  revert x. induction ss as [|st r IH]; intros x.
  - apply analyze_nil.
  - rewrite analyze_cons. simpl. apply live_stmt_ext. exact IH.
Qed.

Lemma live_stmt_mono st L L' x :
  (forall y, In y L -> In y L') -> In x (live_stmt st L) -> In x (live_stmt st L').
Proof.
  intros H. unfold live_stmt. destruct (is_unreach st); [tauto|].
  rewrite !union_In, !diff_In. intros [?|[? ?]]; auto.
Qed.
Lemma live_stmts_mono ss L L' x :
  (forall y, In y L -> In y L') -> In x (live_stmts ss L) -> In x (live_stmts ss L').
Proof.
  revert x. induction ss as [|st r IH]; simpl; intros x H; auto.
  apply live_stmt_mono. intros y. apply IH. exact H.
Qed.
Lemma analyze_mono ss L L' x :
  (forall y, In y L -> In y L') -> In x (analyze ss L) -> In x (analyze ss L').
Proof. rewrite !analyze_spec. apply live_stmts_mono. Qed.

(* ------------------------------------------------------------------ maps *)
Definition le_fun (A B : lmap) : Prop := forall l x, In x (in_of A l) -> In x (in_of B l).

Lemma leq_map_le_fun A B : leq_map A B = true -> le_fun A B.
Proof.
  unfold leq_map, le_fun, in_of. rewrite forallb_forall. intros H l x.
  destruct (lookup l A) as [s|] eqn:E; [|simpl; tauto].
  apply lookup_In in E. specialize (H _ E). simpl in H.
  rewrite subset_spec in H. apply H.
Qed.

Lemma big_union_In f ls x : In x (big_union f ls) <-> exists l, In l ls /\ In x (f l).
Proof.
  induction ls as [|a r IH]; simpl.
  - split; [tauto|]. intros [l [[] _]].
  - rewrite union_In, IH. split.
    + intros [H|[l [H1 H2]]]; [exists a; auto | exists l; auto].
    + intros [l [[->|H1] H2]]; [auto | right; exists l; auto].
Qed.

Lemma live_out_In P m l x :
  In x (live_out P m l) <->
  (is_exit P l = true /\ In x (c_outs P)) \/ exists l', In l' (succs P l) /\ In x (in_of m l').
Proof.
  unfold live_out. rewrite union_In, big_union_In.
  destruct (is_exit P l); simpl; intuition congruence.
Qed.

Lemma live_out_mono P A B l x : le_fun A B -> In x (live_out P A l) -> In x (live_out P B l).
Proof.
  intros H. rewrite !live_out_In. intros [?|[l' [H1 H2]]]; auto.
  right. exists l'. split; auto.
Qed.

Lemma lookup_map_blocks {A} (f : label * block -> A) l bs :
  lookup l (map (fun lb => (fst lb, f lb)) bs) =
  match lookup l bs with Some b => Some (f (l, b)) | None => None end.
Proof.
  induction bs as [|[k b] r IH]; simpl; auto.
  destruct (N.eqb_spec l k); subst; auto.
Qed.

Lemma in_of_step_in P m l :
  in_of (step_in P m) l =
  match get_block P l with Some b => analyze (b_stmts b) (live_out P m l) | None => [] end.
Proof.
  unfold in_of, step_in, get_block.
  rewrite (lookup_map_blocks (fun lb => analyze (b_stmts (snd lb)) (live_out P m (fst lb)))).
  destruct (lookup l (c_blocks P)); auto.
Qed.

Lemma step_in_mono P A B : le_fun A B -> le_fun (step_in P A) (step_in P B).
Proof.
  intros H l x. rewrite !in_of_step_in. destruct (get_block P l); auto.
  apply analyze_mono. intros y. apply live_out_mono. exact H.
Qed.

Lemma in_of_bottom P l : in_of (bottom_map P) l = [].
Proof.
  unfold in_of, bottom_map. rewrite (lookup_map_blocks (fun _ => @nil N)).
  destruct (lookup l (c_blocks P)); auto.
Qed.

(* a (post-)solution of the liveness equations *)
Definition is_solution (P : cfg) (m : lmap) : Prop := le_fun (step_in P m) m.

Lemma solve_sound P fuel m r : solve P fuel m = Some r -> is_solution P r.
Proof.
  revert m. induction fuel as [|f IH]; simpl; intros m; [discriminate|].
  destruct (leq_map (step_in P m) m) eqn:E.
  - intros H; inversion H; subst. apply leq_map_le_fun. exact E.
  - apply IH.
Qed.

Lemma solve_least P S fuel m r :
  is_solution P S -> le_fun m S -> solve P fuel m = Some r -> le_fun r S.
Proof.
  intros HS. revert m. induction fuel as [|f IH]; simpl; intros m Hm; [discriminate|].
  destruct (leq_map (step_in P m) m).
  - intros H; inversion H; subst; auto.
  - apply IH. intros l x Hx. apply HS. revert Hx. apply step_in_mono. exact Hm.
Qed.

Theorem liveness_is_solution P m : liveness P = Some m -> is_solution P m.
Proof. apply solve_sound. Qed.

Theorem liveness_least P m S : liveness P = Some m -> is_solution P S -> le_fun m S.
Proof.
  intros H HS. apply (solve_least P S (fuel_for P) (bottom_map P) m HS); [|exact H].
  intros l x. rewrite in_of_bottom. simpl. tauto.
Qed.

Theorem liveness_least_solution P m :
  liveness P = Some m -> is_solution P m /\ forall S, is_solution P S -> le_fun m S.
Proof.
  intros H. split; [exact (liveness_is_solution P m H)|exact (fun S => liveness_least P m S H)].
Qed.

(* ------------------------------------------------------------------ one statement *)
Lemma agree_app_l A B s1 s2 : agree (A ++ B) s1 s2 -> agree A s1 s2.
Proof. intros H x Hx. apply H. apply in_or_app; auto. Qed.
Lemma agree_app_r A B s1 s2 : agree (A ++ B) s1 s2 -> agree B s1 s2.
Proof. intros H x Hx. apply H. apply in_or_app; auto. Qed.

Lemma agree_live_uses st L s1 s2 :
  is_unreach st = false -> agree (live_stmt st L) s1 s2 -> agree (uses st) s1 s2.
Proof.
  intros U H x Hx. apply H. unfold live_stmt. rewrite U. apply union_In. auto.
Qed.
Lemma agree_live_rest st L s1 s2 :
  is_unreach st = false -> agree (live_stmt st L) s1 s2 -> agree (diff L (defs st)) s1 s2.
Proof.
  intros U H x Hx. apply H. unfold live_stmt. rewrite U. apply union_In. auto.
Qed.

Lemma exec_stmt_agree st L s1 s2 ev s1' :
  agree (live_stmt st L) s1 s2 -> exec_stmt st s1 ev s1' ->
  exists s2', exec_stmt st s2 ev s2' /\ agree L s1' s2'.
Proof.
  intros A X.
  assert (U : is_unreach st = false) by (inversion X; reflexivity).
  pose proof (agree_live_uses st L s1 s2 U A) as AU.
  pose proof (agree_live_rest st L s1 s2 U A) as AR.
  inversion X; subst; simpl in AU, AR.
  - (* assign *)
    eexists. split; [constructor|].
    rewrite (eval_le_agree e s1 s2 AU). apply agree_upd. exact AR.
  - (* arith *)
    assert (E1 : s1 y = s2 y) by (apply AU; simpl; auto).
    assert (E2 : operand_val z s1 = operand_val z s2).
    { apply operand_val_agree. intros w Hw. apply AU. simpl; auto. }
    exists (upd s2 x v). split; [constructor; rewrite <- E1, <- E2; auto|].
    apply agree_upd. exact AR.
  - (* bit *)
    assert (E1 : s1 y = s2 y) by (apply AU; simpl; auto).
    assert (E2 : operand_val z s1 = operand_val z s2).
    { apply operand_val_agree. intros w Hw. apply AU. simpl; auto. }
    exists (upd s2 x v). split; [constructor; rewrite <- E1, <- E2; auto|].
    apply agree_upd. exact AR.
  - (* assume *)
    exists s2. split; [constructor; rewrite <- (satb_agree c s1' s2 AU); auto|].
    intros x Hx. apply AR. apply diff_In. simpl. tauto.
  - (* assert *)
    exists s2. split; [constructor; rewrite <- (satb_agree c s1' s2 AU); auto|].
    intros x Hx. apply AR. apply diff_In. simpl. tauto.
  - (* havoc *)
    exists (upd s2 x v). split; [constructor|]. apply agree_upd. exact AR.
  - (* select *)
    eexists. split; [constructor|].
    pose proof (agree_app_l _ _ _ _ AU) as A1. pose proof (agree_app_r _ _ _ _ AU) as A23.
    pose proof (agree_app_l _ _ _ _ A23) as A2. pose proof (agree_app_r _ _ _ _ A23) as A3.
    rewrite (satb_agree c s1 s2 A1), (eval_le_agree e1 s1 s2 A2), (eval_le_agree e2 s1 s2 A3).
    apply agree_upd. exact AR.
Qed.

(* ------------------------------------------------------------------ simulation *)
Definition live_at (P : cfg) (m : lmap) (l : label) (rest : list stmt) : vset :=
  live_stmts rest (live_out P m l).

Inductive sim (P : cfg) (m : lmap) : config -> config -> Prop :=
| SimRun l rest s1 s2 : agree (live_at P m l rest) s1 s2 -> sim P m (Run l rest s1) (Run l rest s2)
| SimDone : sim P m Done Done
| SimErr : sim P m Err Err.

Lemma live_in_succ P m l l' b' x :
  is_solution P m -> In l' (succs P l) -> get_block P l' = Some b' ->
  In x (live_at P m l' (b_stmts b')) -> In x (live_out P m l).
Proof.
  intros HS Hl Hb Hx. apply live_out_In. right. exists l'. split; auto.
  apply HS. rewrite in_of_step_in, Hb. apply analyze_spec. exact Hx.
Qed.

Lemma step_sim P m c1 c2 ev c1' :
  is_solution P m -> sim P m c1 c2 -> step P c1 ev c1' ->
  exists c2', step P c2 ev c2' /\ sim P m c1' c2'.
Proof.
  intros HS S St. destruct St as [l st r s ev s' X | l c id r s F | l l' b' s Hl Hb | l s He];
    inversion S as [l0 rest0 s1 s2 A| |]; subst; unfold live_at in A; simpl in A.
  - (* statement *)
    destruct (exec_stmt_agree _ _ _ _ _ _ A X) as [s2' [X2 A2]].
    exists (Run l r s2'). split; constructor; auto.
  - (* failing assertion *)
    assert (AU : agree (lc_vars c) s s2) by (apply (agree_live_uses (SAssert c id) _ _ _ eq_refl A)).
    exists Err. split; constructor. rewrite <- (satb_agree c s s2 AU). auto.
  - (* goto *)
    exists (Run l' (b_stmts b') s2). split; [constructor; auto|]. constructor.
    intros x Hx. apply A. eapply live_in_succ; eauto.
  - (* exit *)
    exists Done. split; [|constructor].
    assert (E : map s (c_outs P) = map s2 (c_outs P)).
    { apply map_ext_in. intros x Hx. apply A. apply live_out_In. left.
      split; auto. unfold is_exit. rewrite He. apply N.eqb_refl. }
    rewrite E. constructor. auto.
Qed.

Lemma star_sim P m c1 c2 tr c1' :
  is_solution P m -> sim P m c1 c2 -> star P c1 tr c1' ->
  exists c2', star P c2 tr c2' /\ sim P m c1' c2'.
Proof.
  intros HS S St. revert c2 S. induction St; intros c2 S.
  - exists c2. split; auto. constructor.
  - destruct (step_sim _ _ _ _ _ _ HS S H) as [c2' [St2 S2]].
    destruct (IHSt _ S2) as [c2'' [St3 S3]].
    exists c2''. split; auto. econstructor; eauto.
Qed.

Lemma sim_sym P m c1 c2 : sim P m c1 c2 -> sim P m c2 c1.
Proof. intros H. inversion H; subst; constructor. apply agree_sym. auto. Qed.

Lemma agree_upd_dead L s x v : ~ In x L -> agree L s (upd s x v).
Proof. intros H y Hy. unfold upd. destruct (N.eqb_spec y x); auto. subst. contradiction. Qed.

(* Non-interference: x not live at the end of b; changing x there gives, for every execution,
   an execution with the same branches, assume / assertion outcomes and outputs at exit
   that ends in a configuration of the same kind (same point, stores equal on the live variables). *)
Theorem liveness_noninterference P m b x v s tr c1 :
  liveness P = Some m -> ~ In x (live_get P m b) ->
  star P (at_end b s) tr c1 ->
  exists c2, star P (at_end b (upd s x v)) tr c2 /\ sim P m c1 c2.
Proof.
  intros HL Hx St. apply liveness_is_solution in HL.
  eapply star_sim; eauto. constructor. unfold live_at; simpl. apply agree_upd_dead. exact Hx.
Qed.

(* both directions: the two stores have exactly the same observable behaviours *)
Theorem liveness_same_traces P m b x v s tr :
  liveness P = Some m -> ~ In x (live_get P m b) ->
  ((exists c, star P (at_end b s) tr c) <-> (exists c, star P (at_end b (upd s x v)) tr c)) /\
  (star P (at_end b s) tr Done <-> star P (at_end b (upd s x v)) tr Done) /\
  (star P (at_end b s) tr Err <-> star P (at_end b (upd s x v)) tr Err).
Proof.
  intros HL Hx. pose proof (liveness_is_solution _ _ HL) as HS.
  assert (S0 : sim P m (at_end b s) (at_end b (upd s x v))).
  { constructor. unfold live_at; simpl. apply agree_upd_dead. exact Hx. }
  pose proof (sim_sym _ _ _ _ S0) as S1.
  repeat split.
  - intros [c St]. destruct (star_sim _ _ _ _ _ _ HS S0 St) as [c2 [? _]]. eauto.
  - intros [c St]. destruct (star_sim _ _ _ _ _ _ HS S1 St) as [c2 [? _]]. eauto.
  - intros St. destruct (star_sim _ _ _ _ _ _ HS S0 St) as [c2 [? Sc]]. inversion Sc; subst; auto.
  - intros St. destruct (star_sim _ _ _ _ _ _ HS S1 St) as [c2 [? Sc]]. inversion Sc; subst; auto.
  - intros St. destruct (star_sim _ _ _ _ _ _ HS S0 St) as [c2 [? Sc]]. inversion Sc; subst; auto.
  - intros St. destruct (star_sim _ _ _ _ _ _ HS S1 St) as [c2 [? Sc]]. inversion Sc; subst; auto.
Qed.

(* what dead_exit reports is not live *)
Lemma dead_exit_not_live P m b x : In x (dead_exit P m b) -> ~ In x (live_get P m b).
Proof.
  unfold dead_exit, live_get. destruct (is_empty (live_out P m b)); simpl; [tauto|].
  rewrite diff_In. tauto.
Qed.

Theorem dead_exit_noninterference P m b x v s tr c1 :
  liveness P = Some m -> In x (dead_exit P m b) ->
  star P (at_end b s) tr c1 ->
  exists c2, star P (at_end b (upd s x v)) tr c2 /\ sim P m c1 c2.
Proof.
  intros HL Hx. eapply liveness_noninterference; eauto. apply dead_exit_not_live. exact Hx.
Qed.

(* ------------------------------------------------------------------ non-vacuity *)
(* b0: x := 5; goto b1, b2.   b1: assert(x <= 0); unreachable.   b2 (exit): y := x   (output y) *)
Definition ex_cfg : cfg :=
  mkCfg 0%N (Some 2%N)
        [(0%N, mkBlock [SAssign 0%N (mkLE [] 5%Z)] [] [1%N; 2%N]);
         (1%N, mkBlock [SAssert (mkLC INEQ (mkLE [(1%Z, 0%N)] 0%Z)) 1%N; SUnreach] [0%N] []);
         (2%N, mkBlock [SAssign 1%N (mkLE [(1%Z, 0%N)] 0%Z)] [0%N] [])]
        [1%N].

Example ex_liveness_defined : exists m, liveness ex_cfg = Some m /\
  live_get ex_cfg m 0%N = [0%N] /\          (* x is live at the end of b0 (the assertion of b1 reads it) *)
  live_get ex_cfg m 2%N = [1%N] /\          (* the output is live at the end of the exit block *)
  dead_exit ex_cfg m 2%N = [0%N] /\         (* x is dead there *)
  ~ In 0%N (live_get ex_cfg m 2%N).
Proof.
  eexists. split; [vm_compute; reflexivity|]. vm_compute.
  repeat split; auto. intros [H|[]]. discriminate.
Qed.

(* the hypotheses of the theorem are met by an execution that really continues: from the end of
   b0 with x = 5 the execution goes to the exit block and returns y = 5 *)
Example ex_execution :
  star ex_cfg (at_end 0%N (fun _ => 5%Z)) [EvGoto 2%N; EvExit [5%Z]] Done.
Proof.
  change [EvGoto 2%N; EvExit [5%Z]] with ([EvGoto 2%N] ++ [] ++ [EvExit [5%Z]] ++ []).
  eapply StarStep.
  - eapply (StGoto ex_cfg 0%N 2%N); [vm_compute; auto|vm_compute; reflexivity].
  - simpl b_stmts. eapply StarStep; [apply StStmt; apply XAssign|].
    eapply StarStep; [|apply StarRefl].
    assert (E : [5%Z] = map (upd (fun _ : var => 5%Z) 1%N (eval_le (mkLE [(1%Z, 0%N)] 0%Z) (fun _ => 5%Z))) (c_outs ex_cfg))
      by (vm_compute; reflexivity).
    rewrite E. apply StExit. reflexivity.
Qed.
