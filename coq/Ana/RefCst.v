(* Mirror of /repo/include/crab/types/reference_constraints.hpp (class reference_constraint) and of
   the rule of assert_property_checker::check(assert_ref_t&) (/repo/include/crab/checkers/assertion.hpp).
   Model only, no proofs (Ana/RefCstSound.v).

   The C++ object has four fields
       opt_var_t m_lhs;  opt_var_t m_rhs;    // boost::none = NULL
       number_t  m_offset;  cst_kind_t m_kind;   // REF_EQ REF_LT REF_LEQ REF_GT REF_GEQ REF_DISEQ
   and is read as        m_lhs  m_kind  m_rhs + m_offset          ("p REL_OP q + offset", "p REL_OP null")
   Forms:   none none : null == null / null <= null are the tautologies, null != null / null < null the
                        contradictions (is_tautology / is_contradiction); mk_true() = default constructor
                        (REF_EQ, offset number_t() = 0), mk_false() = (none, none, REF_DISEQ)
            p    none : unary,  p REL null      (mk_null mk_not_null mk_le_null mk_lt_null mk_ge_null mk_gt_null)
            p    q    : binary, p REL q + k     (mk_eq mk_not_eq mk_lt mk_le mk_gt mk_ge; NOTHING is normalised:
                        mk_gt / mk_ge are stored as REF_GT / REF_GEQ with the operands and the offset as given)
            none q    : never stored: both private constructors call swap_constraint() in that case
                        (operands swapped, relation mirrored, offset negated).  No public factory reaches it.
   Variables are numbers (N); the harness names variable n "p<n>" with type REF_TYPE. *)
From Coq Require Import ZArith Bool List.
Import ListNotations.
Open Scope Z_scope.

Definition var := N.

Inductive kind := REF_EQ | REF_LT | REF_LEQ | REF_GT | REF_GEQ | REF_DISEQ.

Record refcst := MkCst { lhs : option var; rhs : option var; offset : Z; knd : kind }.

Definition swap_operand (k : kind) : kind :=
  match k with
  | REF_LT => REF_GT
  | REF_LEQ => REF_GEQ
  | REF_GT => REF_LT
  | REF_GEQ => REF_LEQ
  | _ => k
  end.

(* void swap_constraint() *)
Definition swap_constraint (c : refcst) : refcst :=
  MkCst (rhs c) (lhs c) (if offset c =? 0 then offset c else - offset c) (swap_operand (knd c)).

(* the two private constructors (the 3-argument one is the 4-argument one at offset 0) *)
Definition ctor (l r : option var) (o : Z) (k : kind) : refcst :=
  let c := MkCst l r o k in
  match l, r with
  | None, Some _ => swap_constraint c
  | _, _ => c
  end.

Definition kind_eqb (a b : kind) : bool :=
  match a, b with
  | REF_EQ, REF_EQ | REF_LT, REF_LT | REF_LEQ, REF_LEQ
  | REF_GT, REF_GT | REF_GEQ, REF_GEQ | REF_DISEQ, REF_DISEQ => true
  | _, _ => false
  end.

Definition is_none {T} (o : option T) : bool := match o with None => true | Some _ => false end.
Definition is_some {T} (o : option T) : bool := negb (is_none o).

Definition is_contradiction (c : refcst) : bool :=
  is_none (lhs c) && is_none (rhs c) && (kind_eqb (knd c) REF_DISEQ || kind_eqb (knd c) REF_LT).
Definition is_tautology (c : refcst) : bool :=
  is_none (lhs c) && is_none (rhs c) && (kind_eqb (knd c) REF_EQ || kind_eqb (knd c) REF_LEQ).
Definition is_unary (c : refcst) : bool := is_some (lhs c) && is_none (rhs c).
Definition is_binary (c : refcst) : bool := is_some (lhs c) && is_some (rhs c).

(* factory functions *)
Definition mk_true : refcst := MkCst None None 0 REF_EQ.
Definition mk_false : refcst := ctor None None 0 REF_DISEQ.
Definition mk_null (v : var) := ctor (Some v) None 0 REF_EQ.
Definition mk_not_null (v : var) := ctor (Some v) None 0 REF_DISEQ.
Definition mk_le_null (v : var) := ctor (Some v) None 0 REF_LEQ.
Definition mk_lt_null (v : var) := ctor (Some v) None 0 REF_LT.
Definition mk_ge_null (v : var) := ctor (Some v) None 0 REF_GEQ.
Definition mk_gt_null (v : var) := ctor (Some v) None 0 REF_GT.
Definition mk_eq (v1 v2 : var) (o : Z) := ctor (Some v1) (Some v2) o REF_EQ.
Definition mk_not_eq (v1 v2 : var) (o : Z) := ctor (Some v1) (Some v2) o REF_DISEQ.
Definition mk_lt (v1 v2 : var) (o : Z) := ctor (Some v1) (Some v2) o REF_LT.
Definition mk_le (v1 v2 : var) (o : Z) := ctor (Some v1) (Some v2) o REF_LEQ.
Definition mk_gt (v1 v2 : var) (o : Z) := ctor (Some v1) (Some v2) o REF_GT.
Definition mk_ge (v1 v2 : var) (o : Z) := ctor (Some v1) (Some v2) o REF_GEQ.

(* reference_constraint_t negate() const, branch by branch.  None = the final
   CRAB_ERROR("reference_constraints::negate: unsupported case") (also lhs()/rhs() on a null operand). *)
Definition negate_opt (c : refcst) : option refcst :=
  if is_contradiction c then Some mk_true
  else if is_tautology c then Some mk_false
  else if is_unary c then
    match lhs c with
    | None => None
    | Some p =>
      match knd c with
      | REF_EQ => Some (mk_not_null p)                          (* p == NULL --> p != NULL *)
      | REF_DISEQ => Some (mk_null p)                           (* p != NULL --> p == NULL *)
      | REF_LEQ => Some (ctor (lhs c) None 0 REF_GT)            (* p <= NULL --> p >  NULL *)
      | REF_LT => Some (ctor (lhs c) None 0 REF_GEQ)            (* p <  NULL --> p >= NULL *)
      | REF_GEQ => Some (ctor (lhs c) None 0 REF_LT)            (* p >= NULL --> p <  NULL *)
      | REF_GT => Some (ctor (lhs c) None 0 REF_LEQ)            (* p >  NULL --> p <= NULL *)
      end
    end
  else if is_binary c then
    match lhs c, rhs c with
    | Some p, Some q =>
      match knd c with
      | REF_EQ => Some (mk_not_eq p q (offset c))               (* p == q + k --> p != q + k *)
      | REF_DISEQ => Some (mk_eq p q (offset c))                (* p != q + k --> p == q + k *)
      | REF_LEQ => Some (mk_lt q p (- offset c))                (* p <= q + k --> q <  p - k *)
      | REF_LT => Some (mk_le q p (- offset c))                 (* p <  q + k --> q <= p - k *)
      | REF_GEQ => Some (ctor (rhs c) (lhs c) (- offset c) REF_GT)   (* p >= q + k --> q >  p - k *)
      | REF_GT => Some (ctor (rhs c) (lhs c) (- offset c) REF_GEQ)   (* p >  q + k --> q >= p - k *)
      end
    | _, _ => None
    end
  else None.

(* total version used by the checker rule: the unsupported case (excluded by wf) returns its argument *)
Definition negate (c : refcst) : refcst :=
  match negate_opt c with Some d => d | None => c end.

(* ---- concrete meaning: addresses are integers, null = 0 *)
Definition val (rho : var -> Z) (o : option var) : Z :=
  match o with Some v => rho v | None => 0 end.

Definition rel (k : kind) (a b : Z) : bool :=
  match k with
  | REF_EQ => a =? b
  | REF_LT => a <? b
  | REF_LEQ => a <=? b
  | REF_GT => b <? a
  | REF_GEQ => b <=? a
  | REF_DISEQ => negb (a =? b)
  end.

Definition eval (rho : var -> Z) (c : refcst) : bool :=
  rel (knd c) (val rho (lhs c)) (val rho (rhs c) + offset c).

(* ---- the objects the public interface can build (closed under negate: RefCstSound.negate_built) *)
Inductive built : refcst -> Prop :=
| b_true : built mk_true
| b_false : built mk_false
| b_unary : forall k p, built (ctor (Some p) None 0 k)
| b_binary : forall k p q o, built (ctor (Some p) (Some q) o k).

(* structural well-formedness (what negate() needs); slightly larger than `built`: also
   null < null and null <= null, which is_contradiction / is_tautology recognise *)
Definition wf (c : refcst) : bool :=
  match lhs c, rhs c with
  | None, None => (offset c =? 0) && negb (kind_eqb (knd c) REF_GT) && negb (kind_eqb (knd c) REF_GEQ)
  | Some _, None => offset c =? 0
  | Some _, Some _ => true
  | None, Some _ => false
  end.

(* ---- assert_property_checker::check(assert_ref_t&):
        if (inv.is_bottom()) UNREACH
        else { inv1 = inv; inv1.ref_assume(cst.negate()); inv1.is_bottom() ? SAFE : WARNING } *)
Inductive verdict := Unreach | Safe | Warning.

Definition check_ref_with {A : Type} (neg : refcst -> refcst)
           (is_bottom : A -> bool) (ref_assume : A -> refcst -> A) (a : A) (c : refcst) : verdict :=
  if is_bottom a then Unreach
  else if is_bottom (ref_assume a (neg c)) then Safe else Warning.

Definition check_ref {A : Type} := @check_ref_with A negate.

(* a realistic slip: the sign of the offset dropped in the branch p >= q + k (patch of the seeded stream) *)
Definition negate_wrong (c : refcst) : refcst :=
  if is_binary c && kind_eqb (knd c) REF_GEQ then ctor (rhs c) (lhs c) (offset c) REF_GT else negate c.

(* ---- a tiny concrete domain for the examples: a finite list of stores (bottom = the empty list) *)
Definition sdom := list (var -> Z).
Definition sd_is_bottom (a : sdom) : bool := match a with [] => true | _ => false end.
Definition sd_assume (a : sdom) (c : refcst) : sdom := filter (fun s => eval s c) a.

(* ---- canonical printing data for the driver: (kind, lhs, rhs, offset, taut, contr, unary, binary) *)
Definition describe (c : refcst) :=
  (knd c, lhs c, rhs c, offset c, (is_tautology c, is_contradiction c, is_unary c, is_binary c)).
