(* SimplifyGen.v — cfg::simplify for an ARBITRARY statement language.

   cfg::simplify (cfg/cfg.hpp) never looks inside a statement: it only moves statement lists
   between blocks and edits the edge vectors.  This file repeats the model of Ana/Simplify.v and
   the proofs of Ana/SimplifySound.v inside a Section whose only parameters are

     stmt, store, sev, out, odecl : Type          statements, stores, statement events,
                                                  value observed at the exit, outputs declaration
     exec : stmt -> store -> list sev -> option store -> Prop
                                                  one statement: events emitted and either the next
                                                  store (Some) or the error configuration (None)
     obs_out : odecl -> store -> out              what is observed at the end of the exit block

   and NO hypothesis about them (no determinism, no totality, no frame property).  The
   structural part (CFG record, the passes, wf, keeps) depends on stmt and odecl only.
   Ana/SimplifyGenInst.v shows that Ana/Simplify.v is the instance at the numeric language of
   Ana/CfgSem.v. *)
From Coq Require Import ZArith List Bool Lia.
From CrabV Require Import Ir.Syntax Ana.CfgSem.
Import ListNotations.

(* Only label, vset, mem, union, subset, lookup (and their lemmas) of CfgSem are used below; every
   other name of CfgSem (block, cfg, succs, step, ...) is shadowed by its generic version. *)

Section Gen.
Variables stmt store sev out odecl : Type.
Variable exec : stmt -> store -> list sev -> option store -> Prop.
Variable obs_out : odecl -> store -> out.

Record block := mkBlock { b_stmts : list stmt; b_prev : list label; b_next : list label }.

Record cfg := mkCfg {
  c_entry : label;
  c_exit : option label;
  c_blocks : list (label * block);
  c_outs : odecl               (* outputs of the function declaration *)
}.

Definition get_block (P : cfg) (l : label) : option block := lookup l (c_blocks P).
Definition stmts_of (P : cfg) (l : label) : list stmt :=
  match get_block P l with Some b => b_stmts b | None => [] end.
Definition succs (P : cfg) (l : label) : list label :=
  match get_block P l with Some b => b_next b | None => [] end.
Definition preds (P : cfg) (l : label) : list label :=
  match get_block P l with Some b => b_prev b | None => [] end.
Definition labels (P : cfg) : list label := map fst (c_blocks P).
Definition is_exit (P : cfg) (l : label) : bool :=
  match c_exit P with Some e => N.eqb l e | None => false end.

(* ================================================================== the passes (as Ana/Simplify.v) *)
Definition remove_adjacent (c : list label) (e : label) : list label :=
  filter (fun x => negb (N.eqb x e)) c.
Definition insert_adjacent (c : list label) (e : label) : list label :=
  if mem e c then c else c ++ [e].

Definition map_block (f : label -> block -> block) (P : cfg) : cfg :=
  mkCfg (c_entry P) (c_exit P) (map (fun lb => (fst lb, f (fst lb) (snd lb))) (c_blocks P)) (c_outs P).

(* cfg::remove(b), b neither entry nor exit *)
Definition remove_block (P : cfg) (b : label) : cfg :=
  mkCfg (c_entry P) (c_exit P)
        (map (fun lb => (fst lb, mkBlock (b_stmts (snd lb)) (remove_adjacent (b_prev (snd lb)) b)
                                         (remove_adjacent (b_next (snd lb)) b)))
             (filter (fun lb => negb (N.eqb (fst lb) b)) (c_blocks P)))
        (c_outs P).

(* a >> b *)
Definition add_edge (P : cfg) (a b : label) : cfg :=
  map_block (fun l blk =>
    mkBlock (b_stmts blk)
            (if N.eqb l b then insert_adjacent (b_prev blk) a else b_prev blk)
            (if N.eqb l a then insert_adjacent (b_next blk) b else b_next blk)) P.

(* parent.copy_back(cur) *)
Definition copy_back (P : cfg) (parent : label) (ss : list stmt) : cfg :=
  map_block (fun l blk => if N.eqb l parent then mkBlock (b_stmts blk ++ ss) (b_prev blk) (b_next blk) else blk) P.

Definition set_exit (P : cfg) (e : label) : cfg := mkCfg (c_entry P) (Some e) (c_blocks P) (c_outs P).

(* the folding step of merge_blocks_rec *)
Definition fold_into_parent (P : cfg) (cur parent child : label) (cb : block) : cfg :=
  let P1 := copy_back P parent (b_stmts cb) in
  let P2 := if is_exit P1 cur then set_exit P1 parent else P1 in
  let P3 := remove_block P2 cur in
  add_edge P3 parent child.

Definition has_one (c : list label) : bool := match c with [_] => true | _ => false end.

(* for (n : cur.next_blocks()) rec(n) *)
Fixpoint visit_list (rec : cfg -> vset -> label -> option (cfg * vset)) (ns : list label)
         (st : cfg * vset) : option (cfg * vset) :=
  match ns with
  | [] => Some st
  | n :: r => match rec (fst st) (snd st) n with
              | None => None
              | Some st' => visit_list rec r st'
              end
  end.

Fixpoint merge_rec (fuel : nat) (P : cfg) (visited : vset) (cur : label) {struct fuel}
  : option (cfg * vset) :=
  match fuel with
  | O => None
  | S f =>
    if mem cur visited then Some (P, visited)
    else
      let visited := cur :: visited in
      match get_block P cur with
      | None => None
      | Some cb =>
        let visit_children := visit_list (merge_rec f) (b_next cb) (P, visited) in
        match b_next cb, b_prev cb with
        | [child], [parent] =>
          match get_block P parent with
          | None => None
          | Some pb =>
            if negb (N.eqb cur (c_entry P)) && negb (is_exit P parent) && has_one (b_next pb) then
              merge_rec f (fold_into_parent P cur parent child cb)
                        (remove_adjacent visited cur) child
            else visit_children
          end
        | _, _ => visit_children
        end
      end
  end.

Definition merge_fuel (P : cfg) : nat := S (S (2 * length (c_blocks P))).

Definition merge_blocks (P : cfg) : option cfg :=
  match merge_rec (merge_fuel P) P [] (c_entry P) with
  | Some (P', _) => Some P'
  | None => None
  end.

(* mark_alive_blocks: reachability through `next` from a root *)
Fixpoint closure (next : label -> list label) (fuel : nat) (S : vset) : vset :=
  match fuel with
  | O => S
  | Datatypes.S n => closure next n (fold_right (fun l acc => union (next l) acc) S S)
  end.

(* the fuel (number of blocks) always suffices; the model validates the result (closed under
   `next`) so that the theorems need no counting argument: should the validation fail (it never
   does) every block counts as marked and nothing is removed *)
Definition closedb (next : label -> list label) (S : vset) : bool :=
  forallb (fun l => subset (next l) S) S.
Definition marked (P : cfg) (next : label -> list label) (root : label) : vset :=
  let S := closure next (length (c_blocks P)) [root] in
  if closedb next S then S else root :: labels P.

Definition alive (P : cfg) : vset := marked P (succs P) (c_entry P).
Definition useful (P : cfg) (e : label) : vset := marked P (preds P) e.

Definition remove_all (P : cfg) (bs : list label) : cfg := fold_left remove_block bs P.

Definition remove_unreachable_blocks (P : cfg) : cfg :=
  let al := alive P in
  remove_all P (filter (fun l => negb (mem l al) && negb (is_exit P l)) (labels P)).

Definition remove_useless_blocks (P : cfg) : cfg :=
  match c_exit P with
  | None => P
  | Some e =>
    let us := useful P e in
    remove_all P (filter (fun l => negb (mem l us) && negb (N.eqb l (c_entry P))) (labels P))
  end.

Definition simplify (P : cfg) : option cfg :=
  match merge_blocks P with
  | None => None
  | Some P1 => merge_blocks (remove_useless_blocks (remove_unreachable_blocks P1))
  end.

(* ================================================================== semantics (as Ana/CfgSem.v) *)
Inductive event :=
| EvStmt (e : sev)                  (* event of a statement (condition evaluated, assertion outcome, ...) *)
| EvGoto (l : label)                (* branch taken *)
| EvExit (o : out).                 (* end of the exit block: the observation of the final store *)

Inductive config :=
| Run (l : label) (rest : list stmt) (s : store)
| Done
| Err.

Inductive step (P : cfg) : config -> list event -> config -> Prop :=
| StStmt l st r s ev s' : exec st s ev (Some s') -> step P (Run l (st :: r) s) (map EvStmt ev) (Run l r s')
| StFail l st r s ev : exec st s ev None -> step P (Run l (st :: r) s) (map EvStmt ev) Err
| StGoto l l' b' s : In l' (succs P l) -> get_block P l' = Some b' ->
                     step P (Run l [] s) [EvGoto l'] (Run l' (b_stmts b') s)
| StExit l s : c_exit P = Some l -> step P (Run l [] s) [EvExit (obs_out (c_outs P) s)] Done.

Inductive star (P : cfg) : config -> list event -> config -> Prop :=
| StarRefl c : star P c [] c
| StarStep c ev c' tr c'' : step P c ev c' -> star P c' tr c'' -> star P c (ev ++ tr) c''.

Lemma star_one P c ev c' : step P c ev c' -> star P c ev c'.
Proof. intros H. rewrite <- (app_nil_r ev). eapply StarStep; eauto. constructor. Qed.
Lemma star_trans P c1 t1 c2 t2 c3 : star P c1 t1 c2 -> star P c2 t2 c3 -> star P c1 (t1 ++ t2) c3.
Proof.
  induction 1; simpl; auto. intros H2. rewrite <- app_assoc. eapply StarStep; eauto.
Qed.

Definition init (P : cfg) (s : store) : config := Run (c_entry P) (stmts_of P (c_entry P)) s.

(* ================================================================== Part 1: access lemmas *)
Lemma lookup_map_gen {A B} (f : label * A -> B) l (bs : list (label * A)) :
  lookup l (map (fun lb => (fst lb, f lb)) bs) =
  match lookup l bs with Some b => Some (f (l, b)) | None => None end.
Proof.
  induction bs as [|[k b] r IH]; simpl; auto.
  destruct (N.eqb_spec l k); subst; auto.
Qed.

Lemma remove_adjacent_In c e x : In x (remove_adjacent c e) <-> In x c /\ x <> e.
Proof.
  unfold remove_adjacent. rewrite filter_In, negb_true_iff, N.eqb_neq. tauto.
Qed.
Lemma insert_adjacent_In c e x : In x (insert_adjacent c e) <-> In x c \/ x = e.
Proof.
  unfold insert_adjacent. destruct (mem e c) eqn:M.
  - apply mem_In in M. split; auto. intros [?| ->]; auto.
  - rewrite in_app_iff. simpl. split; intros [?|?]; auto. destruct H; auto. contradiction.
Qed.
Lemma remove_adjacent_notin c e : ~ In e c -> remove_adjacent c e = c.
Proof.
  unfold remove_adjacent. induction c as [|a r IH]; simpl; auto. intros H.
  destruct (N.eqb_spec a e); [subst; exfalso; auto|]. simpl. f_equal. auto.
Qed.

Lemma get_block_In_labels P l b : get_block P l = Some b -> In l (labels P).
Proof. apply lookup_Some_In. Qed.
Lemma labels_get_block P l : In l (labels P) -> exists b, get_block P l = Some b.
Proof.
  unfold get_block, labels. intros H. destruct (lookup l (c_blocks P)) eqn:E; eauto.
  apply lookup_None in E. contradiction.
Qed.
Lemma succs_In_labels P l l' : In l' (succs P l) -> In l (labels P).
Proof.
  unfold succs. destruct (get_block P l) eqn:E; [|simpl; tauto]. intros _.
  eapply get_block_In_labels; eauto.
Qed.
Lemma preds_In_labels P l l' : In l' (preds P l) -> In l (labels P).
Proof.
  unfold preds. destruct (get_block P l) eqn:E; [|simpl; tauto]. intros _.
  eapply get_block_In_labels; eauto.
Qed.

Lemma get_block_map_block f P l :
  get_block (map_block f P) l = match get_block P l with Some b => Some (f l b) | None => None end.
Proof.
  unfold get_block, map_block. simpl.
  rewrite (lookup_map_gen (fun lb => f (fst lb) (snd lb))). reflexivity.
Qed.
Lemma labels_map_block f P : labels (map_block f P) = labels P.
Proof. unfold labels, map_block. simpl. rewrite map_map. reflexivity. Qed.

Definition strip (b : label) (blk : block) : block :=
  mkBlock (b_stmts blk) (remove_adjacent (b_prev blk) b) (remove_adjacent (b_next blk) b).

Lemma get_block_remove_block P b l :
  get_block (remove_block P b) l =
  if N.eqb l b then None else match get_block P l with Some blk => Some (strip b blk) | None => None end.
Proof.
  unfold get_block, remove_block. simpl. induction (c_blocks P) as [|[k blk] r IH]; simpl.
  - destruct (N.eqb l b); reflexivity.
  - destruct (N.eqb_spec k b); simpl.
    + subst k. destruct (N.eqb_spec l b); [exact IH|exact IH].
    + destruct (N.eqb_spec l k).
      * subst l. destruct (N.eqb_spec k b); [contradiction|reflexivity].
      * exact IH.
Qed.
Lemma labels_remove_block P b :
  labels (remove_block P b) = filter (fun x => negb (N.eqb x b)) (labels P).
Proof.
  unfold labels, remove_block. simpl. induction (c_blocks P) as [|[k blk] r IH]; simpl; auto.
  destruct (N.eqb k b); simpl; [exact IH|f_equal; exact IH].
Qed.

Lemma succs_remove_block P b l :
  succs (remove_block P b) l = if N.eqb l b then [] else remove_adjacent (succs P l) b.
Proof.
  unfold succs. rewrite get_block_remove_block. destruct (N.eqb l b); auto.
  destruct (get_block P l); reflexivity.
Qed.
Lemma preds_remove_block P b l :
  preds (remove_block P b) l = if N.eqb l b then [] else remove_adjacent (preds P l) b.
Proof.
  unfold preds. rewrite get_block_remove_block. destruct (N.eqb l b); auto.
  destruct (get_block P l); reflexivity.
Qed.
Lemma stmts_remove_block P b l : l <> b -> stmts_of (remove_block P b) l = stmts_of P l.
Proof.
  intros H. unfold stmts_of. rewrite get_block_remove_block.
  destruct (N.eqb_spec l b); [contradiction|]. destruct (get_block P l); reflexivity.
Qed.

Lemma succs_add_edge P a b l :
  succs (add_edge P a b) l =
  if N.eqb l a then (match get_block P l with Some _ => insert_adjacent (succs P l) b | None => [] end)
  else succs P l.
Proof.
  unfold succs, add_edge. rewrite get_block_map_block. destruct (get_block P l); simpl.
  - destruct (N.eqb l a); reflexivity.
  - destruct (N.eqb l a); reflexivity.
Qed.
Lemma preds_add_edge P a b l :
  preds (add_edge P a b) l =
  if N.eqb l b then (match get_block P l with Some _ => insert_adjacent (preds P l) a | None => [] end)
  else preds P l.
Proof.
  unfold preds, add_edge. rewrite get_block_map_block. destruct (get_block P l); simpl.
  - destruct (N.eqb l b); reflexivity.
  - destruct (N.eqb l b); reflexivity.
Qed.
Lemma stmts_add_edge P a b l : stmts_of (add_edge P a b) l = stmts_of P l.
Proof.
  unfold stmts_of, add_edge. rewrite get_block_map_block. destruct (get_block P l); reflexivity.
Qed.

Lemma succs_copy_back P p ss l : succs (copy_back P p ss) l = succs P l.
Proof.
  unfold succs, copy_back. rewrite get_block_map_block. destruct (get_block P l); auto.
  destruct (N.eqb l p); reflexivity.
Qed.
Lemma preds_copy_back P p ss l : preds (copy_back P p ss) l = preds P l.
Proof.
  unfold preds, copy_back. rewrite get_block_map_block. destruct (get_block P l); auto.
  destruct (N.eqb l p); reflexivity.
Qed.
Lemma stmts_copy_back P p ss l :
  stmts_of (copy_back P p ss) l =
  if N.eqb l p then (match get_block P l with Some _ => stmts_of P l ++ ss | None => [] end) else stmts_of P l.
Proof.
  unfold stmts_of, copy_back. rewrite get_block_map_block. destruct (get_block P l); simpl.
  - destruct (N.eqb l p); reflexivity.
  - destruct (N.eqb l p); reflexivity.
Qed.

(* ================================================================== Part 2: well-formedness *)
Definition wf (P : cfg) : Prop :=
  NoDup (labels P) /\ In (c_entry P) (labels P) /\
  (forall e, c_exit P = Some e -> In e (labels P)) /\
  (forall l l', In l' (succs P l) -> In l' (labels P) /\ In l (preds P l')) /\
  (forall l l', In l (preds P l') -> In l (labels P) /\ In l' (succs P l)).

(* same labels / edges / entry / exit: only statements differ *)
Definition same_shape (P Q : cfg) : Prop :=
  labels Q = labels P /\ c_entry Q = c_entry P /\ c_exit Q = c_exit P /\
  (forall l, succs Q l = succs P l) /\ (forall l, preds Q l = preds P l).

Lemma wf_same_shape P Q : same_shape P Q -> wf P -> wf Q.
Proof.
  intros (L & E & X & S & Pr) (W1 & W2 & W3 & W4 & W5). unfold wf.
  rewrite L, E, X. repeat split; auto.
  - rewrite S in H. apply (W4 _ _ H).
  - rewrite S in H. rewrite Pr. apply (W4 _ _ H).
  - rewrite Pr in H. apply (W5 _ _ H).
  - rewrite Pr in H. rewrite S. apply (W5 _ _ H).
Qed.

Lemma same_shape_copy_back P p ss : same_shape P (copy_back P p ss).
Proof.
  repeat split.
  - apply labels_map_block.
  - apply succs_copy_back.
  - apply preds_copy_back.
Qed.

Lemma wf_set_exit P e : wf P -> In e (labels P) -> wf (set_exit P e).
Proof.
  intros (W1 & W2 & W3 & W4 & W5) He. repeat split; auto.
  - simpl. intros e' H. inversion H; subst. exact He.
  - apply (W4 _ _ H).
  - apply (W4 _ _ H).
  - apply (W5 _ _ H).
  - apply (W5 _ _ H).
Qed.

Lemma NoDup_filter {A} (f : A -> bool) l : NoDup l -> NoDup (filter f l).
Proof.
  induction 1; simpl; [constructor|]. destruct (f x); auto. constructor; auto.
  rewrite filter_In. tauto.
Qed.

Lemma wf_remove_block P b :
  wf P -> b <> c_entry P -> c_exit P <> Some b -> wf (remove_block P b).
Proof.
  intros (W1 & W2 & W3 & W4 & W5) Hen Hex. unfold wf. rewrite labels_remove_block.
  assert (IN : forall x, In x (filter (fun x => negb (N.eqb x b)) (labels P)) <-> In x (labels P) /\ x <> b).
  { intros x. rewrite filter_In, negb_true_iff, N.eqb_neq. tauto. }
  split; [apply NoDup_filter; auto|]. split; [apply IN; split; auto|].
  split; [|split].
  - simpl. intros e He. apply IN. split; auto. intros ->. auto.
  - intros l l'. rewrite succs_remove_block, preds_remove_block.
    destruct (N.eqb_spec l b); [simpl; tauto|]. rewrite remove_adjacent_In. intros [H Hn].
    destruct (W4 _ _ H) as [H1 H2]. split; [apply IN; auto|].
    destruct (N.eqb_spec l' b); [contradiction|]. apply remove_adjacent_In. auto.
  - intros l l'. rewrite succs_remove_block, preds_remove_block.
    destruct (N.eqb_spec l' b); [simpl; tauto|]. rewrite remove_adjacent_In. intros [H Hn].
    destruct (W5 _ _ H) as [H1 H2]. split; [apply IN; auto|].
    destruct (N.eqb_spec l b); [contradiction|]. apply remove_adjacent_In. auto.
Qed.

Lemma wf_add_edge P a b : wf P -> In a (labels P) -> In b (labels P) -> wf (add_edge P a b).
Proof.
  intros (W1 & W2 & W3 & W4 & W5) Ha Hb.
  destruct (labels_get_block _ _ Ha) as [ba Ga]. destruct (labels_get_block _ _ Hb) as [bb Gb].
  assert (L : labels (add_edge P a b) = labels P) by apply labels_map_block.
  unfold wf. rewrite L. change (c_entry (add_edge P a b)) with (c_entry P).
  change (c_exit (add_edge P a b)) with (c_exit P).
  split; [exact W1|]. split; [exact W2|]. split; [exact W3|]. split.
  - intros l l'. rewrite succs_add_edge, preds_add_edge.
    destruct (N.eqb_spec l a).
    + subst l. rewrite Ga, insert_adjacent_In. intros [H| ->].
      * destruct (W4 _ _ H) as [H1 H2]. split; auto.
        destruct (N.eqb_spec l' b); auto. subst. rewrite Gb. apply insert_adjacent_In. auto.
      * split; auto. rewrite N.eqb_refl, Gb. apply insert_adjacent_In. auto.
    + intros H. destruct (W4 _ _ H) as [H1 H2]. split; auto.
      destruct (N.eqb_spec l' b); auto. subst. rewrite Gb. apply insert_adjacent_In. auto.
  - intros l l'. rewrite succs_add_edge, preds_add_edge.
    destruct (N.eqb_spec l' b).
    + subst l'. rewrite Gb, insert_adjacent_In. intros [H| ->].
      * destruct (W5 _ _ H) as [H1 H2]. split; auto.
        destruct (N.eqb_spec l a); auto. subst. rewrite Ga. apply insert_adjacent_In. auto.
      * split; auto. rewrite N.eqb_refl, Ga. apply insert_adjacent_In. auto.
    + intros H. destruct (W5 _ _ H) as [H1 H2]. split; auto.
      destruct (N.eqb_spec l a); auto. subst. rewrite Ga. apply insert_adjacent_In. auto.
Qed.

Lemma wf_add_edge_absent P a b : wf P -> ~ In a (labels P) -> ~ In b (labels P) -> wf (add_edge P a b).
Proof.
  intros W Ha Hb. apply (wf_same_shape P); auto.
  assert (Ga : get_block P a = None) by (apply lookup_None; exact Ha).
  assert (Gb : get_block P b = None) by (apply lookup_None; exact Hb).
  repeat split.
  - apply labels_map_block.
  - intros l. rewrite succs_add_edge. destruct (N.eqb_spec l a); auto. subst.
    unfold succs. rewrite Ga. reflexivity.
  - intros l. rewrite preds_add_edge. destruct (N.eqb_spec l b); auto. subst.
    unfold preds. rewrite Gb. reflexivity.
Qed.

(* the marked set contains its root *)
Lemma fold_union_base (f : label -> vset) B L x :
  In x B -> In x (fold_right (fun l acc => union (f l) acc) B L).
Proof. intros H. induction L as [|a r IH]; simpl; auto. apply union_In. auto. Qed.
Lemma fold_union_elem (f : label -> vset) B L l x :
  In l L -> In x (f l) -> In x (fold_right (fun l acc => union (f l) acc) B L).
Proof.
  intros Hl Hx. induction L as [|a r IH]; simpl; [contradiction|]. apply union_In.
  destruct Hl as [->|Hl]; auto.
Qed.
Lemma closure_root next n S x : In x S -> In x (closure next n S).
Proof.
  revert S. induction n as [|k IH]; simpl; intros S H; auto. apply IH.
  apply fold_union_base. exact H.
Qed.
Lemma marked_root P next root : In root (marked P next root).
Proof.
  unfold marked. destruct (closedb next _); [|simpl; auto]. apply closure_root. simpl; auto.
Qed.

(* what a transformation of simplify keeps *)
Definition keeps (P Q : cfg) : Prop :=
  c_entry Q = c_entry P /\ c_outs Q = c_outs P /\ (c_exit P = None <-> c_exit Q = None).

Lemma keeps_refl P : keeps P P.
Proof. repeat split; auto. Qed.
Lemma keeps_trans P Q R : keeps P Q -> keeps Q R -> keeps P R.
Proof. intros (A1 & A2 & A3) (B1 & B2 & B3). repeat split; try congruence; tauto. Qed.

(* facts available when merge_blocks_rec folds cur into parent *)
Record fold_pre (P : cfg) (cur parent child : label) (cb pb : block) : Prop := {
  fp_cb : get_block P cur = Some cb;
  fp_next : b_next cb = [child];
  fp_prev : b_prev cb = [parent];
  fp_pb : get_block P parent = Some pb;
  fp_entry : cur <> c_entry P;
  fp_exit : is_exit P parent = false;
  fp_one : has_one (b_next pb) = true
}.

Lemma fold_pre_edges P cur parent child cb pb :
  wf P -> fold_pre P cur parent child cb pb ->
  succs P cur = [child] /\ preds P cur = [parent] /\ succs P parent = [cur] /\
  In child (labels P) /\ In parent (labels P) /\ In cur (labels P).
Proof.
  intros (W1 & W2 & W3 & W4 & W5) F. destruct F.
  assert (S1 : succs P cur = [child]) by (unfold succs; rewrite fp_cb0; auto).
  assert (S2 : preds P cur = [parent]) by (unfold preds; rewrite fp_cb0; auto).
  assert (I1 : In parent (preds P cur)) by (rewrite S2; simpl; auto).
  destruct (W5 _ _ I1) as [Hp Hc].
  assert (S3 : succs P parent = [cur]).
  { unfold succs in *. rewrite fp_pb0 in *. destruct (b_next pb) as [|x [|y r]]; try discriminate.
    destruct Hc as [->|[]]. reflexivity. }
  assert (I2 : In child (succs P cur)) by (rewrite S1; simpl; auto).
  destruct (W4 _ _ I2) as [Hch _].
  repeat split; auto. eapply get_block_In_labels; eauto.
Qed.

Lemma is_exit_copy_back P p ss l : is_exit (copy_back P p ss) l = is_exit P l.
Proof. reflexivity. Qed.

Lemma wf_fold P cur parent child cb pb :
  wf P -> fold_pre P cur parent child cb pb ->
  wf (fold_into_parent P cur parent child cb) /\ keeps P (fold_into_parent P cur parent child cb).
Proof.
  intros W F. destruct (fold_pre_edges _ _ _ _ _ _ W F) as (S1 & S2 & S3 & Hch & Hp & Hc).
  pose proof (wf_same_shape _ _ (same_shape_copy_back P parent (b_stmts cb)) W) as W1.
  set (P1 := copy_back P parent (b_stmts cb)) in *.
  assert (L1 : labels P1 = labels P) by apply labels_map_block.
  unfold fold_into_parent. fold P1.
  assert (EX1 : forall l, is_exit P1 l = is_exit P l) by reflexivity.
  set (P2 := if is_exit P1 cur then set_exit P1 parent else P1).
  assert (W2 : wf P2).
  { unfold P2. destruct (is_exit P1 cur); auto. apply wf_set_exit; auto. rewrite L1; auto. }
  assert (L2 : labels P2 = labels P).
  { unfold P2. destruct (is_exit P1 cur); auto. }
  assert (E2 : c_entry P2 = c_entry P).
  { unfold P2. destruct (is_exit P1 cur); auto. }
  assert (X2 : c_exit P2 <> Some cur).
  { unfold P2. rewrite EX1. destruct (is_exit P cur) eqn:X.
    - simpl. intros H. inversion H as [H1]. destruct F. rewrite H1 in fp_exit0. congruence.
    - change (c_exit P1) with (c_exit P). intros H. unfold is_exit in X.
      rewrite H, N.eqb_refl in X. discriminate. }
  assert (NE : cur <> c_entry P2) by (rewrite E2; destruct F; auto).
  pose proof (wf_remove_block P2 cur W2 NE X2) as W3.
  assert (L3 : forall x, In x (labels (remove_block P2 cur)) <-> In x (labels P) /\ x <> cur).
  { intros x. rewrite labels_remove_block, filter_In, negb_true_iff, N.eqb_neq, L2. tauto. }
  assert (K : keeps P (add_edge (remove_block P2 cur) parent child)).
  { unfold keeps. simpl. unfold P2. rewrite EX1. destruct (is_exit P cur) eqn:X; simpl.
    - repeat split; auto; try discriminate. unfold is_exit in X.
      intros H. rewrite H in X. discriminate.
    - repeat split; auto. }
  split; auto.
  destruct (N.eq_dec parent cur) as [EQ|NPC].
  - (* degenerate: cur is its own only predecessor and successor; it simply disappears *)
    subst parent. assert (child = cur).
    { assert (H : In cur (succs P cur)) by (rewrite S3; simpl; auto). rewrite S1 in H.
      destruct H as [H|[]]; auto. }
    subst child. apply wf_add_edge_absent; auto; intros H; apply L3 in H; tauto.
  - assert (NCC : child <> cur).
    { intros ->. assert (H : In cur (succs P cur)) by (rewrite S1; simpl; auto).
      destruct W as (_ & _ & _ & W4 & _). destruct (W4 _ _ H) as [_ H2]. rewrite S2 in H2.
      destruct H2 as [H2|[]]. congruence. }
    apply wf_add_edge; auto; apply L3; auto.
Qed.

(* ------------------------------------------------------------------ induction principle for merge_blocks_rec *)
Section MergeInd.
Variable Inv : cfg -> Prop.
Variable Rel : cfg -> cfg -> Prop.
Hypothesis Rel_refl : forall P, Rel P P.
Hypothesis Rel_trans : forall P Q R, Rel P Q -> Rel Q R -> Rel P R.
Hypothesis fold_ok : forall P cur parent child cb pb,
  Inv P -> fold_pre P cur parent child cb pb ->
  Inv (fold_into_parent P cur parent child cb) /\ Rel P (fold_into_parent P cur parent child cb).

Lemma visit_list_ind (rec : cfg -> vset -> label -> option (cfg * vset)) :
  (forall P vis n P' vis', rec P vis n = Some (P', vis') -> Inv P -> Inv P' /\ Rel P P') ->
  forall ns P vis P' vis', visit_list rec ns (P, vis) = Some (P', vis') -> Inv P -> Inv P' /\ Rel P P'.
Proof.
  intros Hrec ns. induction ns as [|n r IH]; simpl; intros P vis P' vis' H I.
  - inversion H; subst. auto.
  - destruct (rec P vis n) as [[P1 v1]|] eqn:E; [|discriminate].
    destruct (Hrec _ _ _ _ _ E I) as [I1 R1]. destruct (IH _ _ _ _ H I1) as [I2 R2].
    split; auto. eapply Rel_trans; eauto.
Qed.

Lemma merge_rec_ind fuel : forall P vis cur P' vis',
  merge_rec fuel P vis cur = Some (P', vis') -> Inv P -> Inv P' /\ Rel P P'.
Proof.
  induction fuel as [|f IH]; intros P vis cur P' vis' H I; [discriminate|].
  cbn [merge_rec] in H.
  destruct (mem cur vis); [inversion H; subst; auto|].
  destruct (get_block P cur) as [cb|] eqn:Gc; [|discriminate].
  assert (VC : forall st, visit_list (merge_rec f) (b_next cb) (P, cur :: vis) = Some st ->
                          Inv (fst st) /\ Rel P (fst st)).
  { intros [Q v] Hv. simpl. eapply (visit_list_ind (merge_rec f)); eauto. }
  destruct (b_next cb) as [|child [|c2 r2]] eqn:Nx; try (apply (VC (P', vis')); exact H).
  destruct (b_prev cb) as [|parent [|p2 r3]] eqn:Pv; try (apply (VC (P', vis')); exact H).
  destruct (get_block P parent) as [pb|] eqn:Gp; [|discriminate].
  destruct (negb (N.eqb cur (c_entry P)) && negb (is_exit P parent) && has_one (b_next pb)) eqn:C;
    [|apply (VC (P', vis')); exact H].
  apply andb_true_iff in C. destruct C as [C C3]. apply andb_true_iff in C. destruct C as [C1 C2].
  apply negb_true_iff in C1. apply negb_true_iff in C2. apply N.eqb_neq in C1.
  assert (F : fold_pre P cur parent child cb pb) by (constructor; auto).
  destruct (fold_ok _ _ _ _ _ _ I F) as [I1 R1].
  destruct (IH _ _ _ _ _ H I1) as [I2 R2]. split; auto. eapply Rel_trans; eauto.
Qed.

Lemma merge_blocks_ind P Q : merge_blocks P = Some Q -> Inv P -> Inv Q /\ Rel P Q.
Proof.
  unfold merge_blocks. destruct (merge_rec (merge_fuel P) P [] (c_entry P)) as [[P' v]|] eqn:E; [|discriminate].
  intros H I. inversion H; subst. eapply merge_rec_ind; eauto.
Qed.
End MergeInd.

Theorem merge_blocks_wf P Q : merge_blocks P = Some Q -> wf P -> wf Q /\ keeps P Q.
Proof.
  apply (merge_blocks_ind wf keeps keeps_refl keeps_trans). intros. eapply wf_fold; eauto.
Qed.

(* ------------------------------------------------------------------ removal passes *)
Lemma remove_all_wf bs : forall P,
  wf P -> (forall b, In b bs -> b <> c_entry P /\ c_exit P <> Some b) ->
  wf (remove_all P bs) /\ keeps P (remove_all P bs).
Proof.
  unfold remove_all. induction bs as [|b r IH]; simpl; intros P W H.
  - split; auto. apply keeps_refl.
  - destruct (H b (or_introl eq_refl)) as [H1 H2].
    pose proof (wf_remove_block P b W H1 H2) as W1.
    destruct (IH (remove_block P b) W1) as [W2 K2].
    { intros b' Hb'. simpl. apply H. auto. }
    split; [exact W2|exact K2].
Qed.

Lemma remove_unreachable_wf P : wf P -> wf (remove_unreachable_blocks P) /\ keeps P (remove_unreachable_blocks P).
Proof.
  intros W. unfold remove_unreachable_blocks. apply remove_all_wf; auto.
  intros b Hb. apply filter_In in Hb. destruct Hb as [_ Hb]. apply andb_true_iff in Hb.
  destruct Hb as [Ha Hx]. apply negb_true_iff in Ha, Hx. split.
  - intros ->. apply mem_false in Ha. apply Ha. apply marked_root.
  - intros E. unfold is_exit in Hx. rewrite E, N.eqb_refl in Hx. discriminate.
Qed.

Lemma remove_useless_wf P : wf P -> wf (remove_useless_blocks P) /\ keeps P (remove_useless_blocks P).
Proof.
  intros W. unfold remove_useless_blocks. destruct (c_exit P) as [e|] eqn:X; [|split; auto; apply keeps_refl].
  apply remove_all_wf; auto.
  intros b Hb. apply filter_In in Hb. destruct Hb as [_ Hb]. apply andb_true_iff in Hb.
  destruct Hb as [Ha Hx]. apply negb_true_iff in Ha, Hx. apply N.eqb_neq in Hx. split; auto.
  rewrite X. intros E. inversion E; subst. apply mem_false in Ha. apply Ha. apply marked_root.
Qed.

Theorem simplify_wf P Q : simplify P = Some Q -> wf P -> wf Q /\ keeps P Q.
Proof.
  unfold simplify. destruct (merge_blocks P) as [P1|] eqn:M1; [|discriminate]. intros M2 W.
  destruct (merge_blocks_wf _ _ M1 W) as [W1 K1].
  destruct (remove_unreachable_wf _ W1) as [W2 K2].
  destruct (remove_useless_wf _ W2) as [W3 K3].
  destruct (merge_blocks_wf _ _ M2 W3) as [W4 K4].
  split; auto. eapply keeps_trans; [exact K1|]. eapply keeps_trans; [exact K2|].
  eapply keeps_trans; [exact K3|exact K4].
Qed.

(* ================================================================== Part 3: behaviour *)
Definition is_goto (e : event) : bool := match e with EvGoto _ => true | _ => false end.
(* evaluated conditions, assertion outcomes, outputs at the exit *)
Definition obs (tr : list event) : list event := filter (fun e => negb (is_goto e)) tr.
Lemma obs_app t1 t2 : obs (t1 ++ t2) = obs t1 ++ obs t2.
Proof. unfold obs. apply filter_app. Qed.

(* observations of the executions from the entry that finish at the exit block *)
Definition exit_obs (P : cfg) (s : store) (t : list event) : Prop :=
  exists tr, star P (init P s) tr Done /\ obs tr = t.
Definition beh_eq (P Q : cfg) : Prop := forall s t, exit_obs P s t <-> exit_obs Q s t.

Lemma beh_eq_refl P : beh_eq P P.
Proof. intros s t. tauto. Qed.
Lemma beh_eq_trans P Q R : beh_eq P Q -> beh_eq Q R -> beh_eq P R.
Proof. intros H1 H2 s t. rewrite (H1 s t). apply H2. Qed.

Lemma no_step_Err P ev c : ~ step P Err ev c.
Proof. intros H. inversion H. Qed.
Lemma no_step_Done P ev c : ~ step P Done ev c.
Proof. intros H. inversion H. Qed.
Lemma star_Err_inv P tr c : star P Err tr c -> c = Err /\ tr = [].
Proof. intros H. inversion H; subst; auto. exfalso. eapply no_step_Err; eauto. Qed.

Definition lab_in (U : vset) (c : config) : Prop :=
  match c with Run l _ _ => In l U | _ => True end.

(* ------------------------------------------------------------------ removing a block *)
Section Remove.
Variable P : cfg.
Variable b : label.
Hypothesis NE : b <> c_entry P.
Let P' := remove_block P b.

Lemma init_remove s : init P' s = init P s.
Proof.
  unfold init. change (c_entry P') with (c_entry P). unfold P'.
  rewrite stmts_remove_block; auto.
Qed.

Lemma step_remove_bwd c ev c1 : step P' c ev c1 -> step P c ev c1.
Proof.
  intros St. destruct St as [l st r s ev s1 X | l st r s ev F | l l' b' s Hl Hb | l s He].
  - constructor; auto.
  - constructor; auto.
  - unfold P' in Hl, Hb. rewrite succs_remove_block in Hl. rewrite get_block_remove_block in Hb.
    destruct (N.eqb l b); [destruct Hl|]. apply remove_adjacent_In in Hl. destruct Hl as [Hl _].
    destruct (N.eqb l' b); [discriminate|].
    destruct (get_block P l') as [blk|] eqn:G; [|discriminate]. inversion Hb; subst. simpl.
    apply (StGoto P l l' blk s); auto.
  - apply (StExit P l s). exact He.
Qed.

Definition avoid (c : config) : Prop := match c with Run l _ _ => l <> b | _ => True end.

Lemma step_remove_fwd c ev c1 : step P c ev c1 -> avoid c -> avoid c1 -> step P' c ev c1.
Proof.
  intros St L0 L1. destruct St as [l st r s ev s1 X | l st r s ev F | l l' b' s Hl Hb | l s He].
  - constructor; auto.
  - constructor; auto.
  - simpl in L0, L1.
    change (b_stmts b') with (b_stmts (strip b b')).
    apply (StGoto P' l l' (strip b b') s).
    + unfold P'. rewrite succs_remove_block. destruct (N.eqb_spec l b); [contradiction|].
      apply remove_adjacent_In. split; auto.
    + unfold P'. rewrite get_block_remove_block, Hb.
      destruct (N.eqb_spec l' b); [contradiction|reflexivity].
  - apply (StExit P' l s). exact He.
Qed.

Lemma star_remove_bwd c tr c1 : star P' c tr c1 -> star P c tr c1.
Proof.
  induction 1; [constructor|]. econstructor; eauto. apply step_remove_bwd; auto.
Qed.

(* A: b lies outside a set S that contains the entry and is closed under successors *)
Lemma star_remove_closed (S : vset) c tr c1 :
  ~ In b S -> (forall l l', In l S -> In l' (succs P l) -> In l' S) ->
  star P c tr c1 -> lab_in S c -> star P' c tr c1.
Proof.
  intros Hb HS St. induction St as [c|c ev c1 tr c2 S1 St IH]; intros L; [constructor|].
  assert (L1 : lab_in S c1).
  { destruct S1; simpl in *; auto. eapply HS; eauto. }
  econstructor; [|apply IH; exact L1].
  apply step_remove_fwd; auto.
  - destruct c; simpl in *; auto. intros ->. contradiction.
  - destruct c1; simpl in *; auto. intros ->. contradiction.
Qed.

Theorem remove_unreachable_block_beh (S : vset) :
  In (c_entry P) S -> ~ In b S -> (forall l l', In l S -> In l' (succs P l) -> In l' S) ->
  beh_eq P P'.
Proof.
  intros He Hb HS s t. unfold exit_obs. rewrite init_remove. split; intros [tr [St O]]; exists tr; split; auto.
  - eapply star_remove_closed; eauto.
  - apply star_remove_bwd. exact St.
Qed.

(* B: b lies outside a set U that contains the exit and is closed under predecessors *)
Lemma reaches_done_in (U : vset) c tr :
  wf P -> (forall e, c_exit P = Some e -> In e U) ->
  (forall l l', In l' U -> In l (preds P l') -> In l U) ->
  star P c tr Done -> lab_in U c.
Proof.
  intros W HE HU St. remember Done as d eqn:D. induction St as [c|c ev c1 tr c2 S1 St IH]; subst.
  - simpl. auto.
  - specialize (IH eq_refl).
    destruct S1 as [l st r s ev s1 X | l st r s ev F | l l' b' s Hl Hb | l s He]; simpl in *; auto.
    + destruct (star_Err_inv _ _ _ St) as [E _]. discriminate.
    + destruct W as (_ & _ & _ & W4 & _). destruct (W4 _ _ Hl) as [_ Hp]. eapply HU; eauto.
Qed.

Lemma star_remove_useless (U : vset) c tr :
  wf P -> ~ In b U -> (forall e, c_exit P = Some e -> In e U) ->
  (forall l l', In l' U -> In l (preds P l') -> In l U) ->
  star P c tr Done -> star P' c tr Done.
Proof.
  intros W Hb HE HU St. remember Done as d eqn:D.
  induction St as [c|c ev c1 tr c2 S1 St IH]; subst; [constructor|].
  assert (L0 : lab_in U c).
  { eapply (reaches_done_in U c (ev ++ tr)); eauto. econstructor; eauto. }
  assert (L1 : lab_in U c1) by (eapply reaches_done_in; eauto).
  econstructor; [|apply IH; reflexivity].
  apply step_remove_fwd; auto.
  - destruct c; simpl in *; auto. intros ->. contradiction.
  - destruct c1; simpl in *; auto. intros ->. contradiction.
Qed.

Theorem remove_useless_block_beh (U : vset) :
  wf P -> ~ In b U -> (forall e, c_exit P = Some e -> In e U) ->
  (forall l l', In l' U -> In l (preds P l') -> In l U) ->
  beh_eq P P'.
Proof.
  intros W Hb HE HU s t. unfold exit_obs. rewrite init_remove. split; intros [tr [St O]]; exists tr; split; auto.
  - eapply star_remove_useless; eauto.
  - apply star_remove_bwd. exact St.
Qed.
End Remove.

(* ------------------------------------------------------------------ the two removal passes *)
Lemma succs_remove_subset P b l x : In x (succs (remove_block P b) l) -> In x (succs P l).
Proof.
  rewrite succs_remove_block. destruct (N.eqb l b); [simpl; tauto|]. rewrite remove_adjacent_In. tauto.
Qed.
Lemma preds_remove_subset P b l x : In x (preds (remove_block P b) l) -> In x (preds P l).
Proof.
  rewrite preds_remove_block. destruct (N.eqb l b); [simpl; tauto|]. rewrite remove_adjacent_In. tauto.
Qed.

Lemma remove_all_closed_beh (S : vset) bs : forall P,
  In (c_entry P) S -> (forall l l', In l S -> In l' (succs P l) -> In l' S) ->
  (forall b, In b bs -> ~ In b S) -> beh_eq P (remove_all P bs).
Proof.
  unfold remove_all. induction bs as [|b r IH]; simpl; intros P He HS Hb; [apply beh_eq_refl|].
  assert (NB : ~ In b S) by (apply Hb; auto).
  eapply beh_eq_trans.
  - apply (remove_unreachable_block_beh P b) with (S := S); auto. intros ->. contradiction.
  - apply IH; auto. intros l l' Hl Hl'. apply succs_remove_subset in Hl'. eauto.
Qed.

Lemma remove_all_useless_beh (U : vset) bs : forall P,
  wf P -> (forall e, c_exit P = Some e -> In e U) ->
  (forall l l', In l' U -> In l (preds P l') -> In l U) ->
  (forall b, In b bs -> ~ In b U /\ b <> c_entry P) -> beh_eq P (remove_all P bs).
Proof.
  unfold remove_all. induction bs as [|b r IH]; simpl; intros P W HE HU Hb; [apply beh_eq_refl|].
  destruct (Hb b (or_introl eq_refl)) as [NB NE].
  assert (NX : c_exit P <> Some b) by (intros E; apply NB; apply HE; exact E).
  eapply beh_eq_trans.
  - apply (remove_useless_block_beh P b NE U); auto.
  - apply IH; auto.
    + apply wf_remove_block; auto.
    + intros l l' Hl Hl'. apply preds_remove_subset in Hl'. eauto.
Qed.

Lemma closedb_spec next S : closedb next S = true -> forall l l', In l S -> In l' (next l) -> In l' S.
Proof.
  unfold closedb. rewrite forallb_forall. intros H l l' Hl Hl'.
  specialize (H l Hl). rewrite subset_spec in H. auto.
Qed.
Lemma marked_closed P next root :
  (forall l l', In l' (next l) -> In l' (labels P)) ->
  forall l l', In l (marked P next root) -> In l' (next l) -> In l' (marked P next root).
Proof.
  intros HN l l'. unfold marked. destruct (closedb next _) eqn:C.
  - apply closedb_spec. exact C.
  - intros _ H. simpl. right. eapply HN; eauto.
Qed.

Theorem remove_unreachable_beh P : wf P -> beh_eq P (remove_unreachable_blocks P).
Proof.
  intros W. unfold remove_unreachable_blocks.
  apply (remove_all_closed_beh (alive P)).
  - apply marked_root.
  - apply marked_closed. intros l l' H. destruct W as (_ & _ & _ & W4 & _). apply (W4 _ _ H).
  - intros b Hb. apply filter_In in Hb. destruct Hb as [_ Hb]. apply andb_true_iff in Hb.
    destruct Hb as [Ha _]. apply negb_true_iff in Ha. apply mem_false. exact Ha.
Qed.

Theorem remove_useless_beh P : wf P -> beh_eq P (remove_useless_blocks P).
Proof.
  intros W. unfold remove_useless_blocks. destruct (c_exit P) as [e|] eqn:X; [|apply beh_eq_refl].
  apply (remove_all_useless_beh (useful P e)); auto.
  - intros e' H. rewrite X in H. inversion H; subst. apply marked_root.
  - intros l l' Hl' Hl. eapply (marked_closed P (preds P) e); eauto.
    intros a a' H. destruct W as (_ & _ & _ & _ & W5). apply (W5 _ _ H).
  - intros b Hb. apply filter_In in Hb. destruct Hb as [_ Hb]. apply andb_true_iff in Hb.
    destruct Hb as [Ha Hx]. apply negb_true_iff in Ha, Hx. split; [apply mem_false; exact Ha|].
    apply N.eqb_neq. exact Hx.
Qed.

(* ------------------------------------------------------------------ CFGs with the same blocks *)
Definition cfg_equiv (P Q : cfg) : Prop :=
  c_entry Q = c_entry P /\ c_exit Q = c_exit P /\ c_outs Q = c_outs P /\
  forall l, match get_block P l, get_block Q l with
            | Some b, Some b' => b_stmts b' = b_stmts b /\ b_next b' = b_next b
            | None, None => True
            | _, _ => False
            end.

Lemma equiv_step P Q c ev c1 : cfg_equiv P Q -> step P c ev c1 -> step Q c ev c1.
Proof.
  intros (E1 & E2 & E3 & E4) St.
  destruct St as [l st r s ev s1 X | l st r s ev F | l l' b' s Hl Hb | l s He].
  - constructor; auto.
  - constructor; auto.
  - pose proof (E4 l') as H'. rewrite Hb in H'. destruct (get_block Q l') as [b2|] eqn:G; [|contradiction].
    destruct H' as [H1 H2]. rewrite <- H1. apply (StGoto Q l l' b2 s); auto.
    pose proof (E4 l) as H. unfold succs in *. destruct (get_block P l) as [b0|]; [|destruct Hl].
    destruct (get_block Q l) as [b3|]; [|contradiction]. destruct H as [_ H]. rewrite H. exact Hl.
  - rewrite <- E3. apply (StExit Q l s). rewrite E2. exact He.
Qed.
Lemma equiv_sym P Q : cfg_equiv P Q -> cfg_equiv Q P.
Proof.
  intros (E1 & E2 & E3 & E4). repeat split; auto. intros l. specialize (E4 l).
  destruct (get_block P l), (get_block Q l); auto. destruct E4; auto.
Qed.
Lemma equiv_star P Q c tr c1 : cfg_equiv P Q -> star P c tr c1 -> star Q c tr c1.
Proof. intros E. induction 1; [constructor|]. econstructor; eauto. eapply equiv_step; eauto. Qed.
Lemma equiv_beh P Q : cfg_equiv P Q -> beh_eq P Q.
Proof.
  intros E s t. unfold exit_obs.
  assert (I : init Q s = init P s).
  { destruct E as (E1 & _ & _ & E4). unfold init, stmts_of. rewrite E1. specialize (E4 (c_entry P)).
    destruct (get_block P (c_entry P)), (get_block Q (c_entry P)); try contradiction; auto.
    destruct E4 as [-> _]. reflexivity. }
  rewrite I. split; intros [tr [St O]]; exists tr; split; auto.
  - eapply equiv_star; eauto.
  - eapply equiv_star; [apply equiv_sym|]; eauto.
Qed.

(* ------------------------------------------------------------------ folding a block into its predecessor *)
Lemma step_end_intro P l l' s :
  In l' (succs P l) -> In l' (labels P) -> step P (Run l [] s) [EvGoto l'] (Run l' (stmts_of P l') s).
Proof.
  intros H1 H2. destruct (labels_get_block _ _ H2) as [b' G]. unfold stmts_of. rewrite G.
  apply (StGoto P l l' b' s); auto.
Qed.
Lemma step_end_inv P l s ev c1 :
  step P (Run l [] s) ev c1 ->
  (exists l', ev = [EvGoto l'] /\ In l' (succs P l) /\ In l' (labels P) /\ c1 = Run l' (stmts_of P l') s) \/
  (c_exit P = Some l /\ ev = [EvExit (obs_out (c_outs P) s)] /\ c1 = Done).
Proof.
  intros St. inversion St as [ | | l0 l' b'' s0 Hl' Hb' | l0 s0 He']; subst.
  - left. exists l'. repeat split; auto; [eapply get_block_In_labels; eauto|].
    unfold stmts_of. rewrite Hb'. reflexivity.
  - right. auto.
Qed.

Section Merge.
Variables (P : cfg) (cur parent child : label) (cb pb : block).
Hypothesis W : wf P.
Hypothesis F : fold_pre P cur parent child cb pb.
Hypothesis NPC : parent <> cur.
Let Q := fold_into_parent P cur parent child cb.
Let SC := stmts_of P cur.

Lemma m_edges : succs P cur = [child] /\ preds P cur = [parent] /\ succs P parent = [cur] /\
                In child (labels P) /\ In parent (labels P) /\ In cur (labels P).
Proof. eapply fold_pre_edges; eauto. Qed.

Lemma m_child_ne : child <> cur.
Proof.
  destruct m_edges as (S1 & S2 & _). intros ->.
  assert (H : In cur (succs P cur)) by (rewrite S1; simpl; auto).
  destruct W as (_ & _ & _ & W4 & _). destruct (W4 _ _ H) as [_ H2]. rewrite S2 in H2.
  destruct H2 as [H2|[]]. congruence.
Qed.

Lemma m_cur_not_succ l : l <> parent -> ~ In cur (succs P l).
Proof.
  intros Hl H. destruct W as (_ & _ & _ & W4 & _). destruct (W4 _ _ H) as [_ H2].
  destruct m_edges as (_ & S2 & _). rewrite S2 in H2. destruct H2 as [H2|[]]. congruence.
Qed.

Lemma m_SC : SC = b_stmts cb.
Proof. unfold SC, stmts_of. destruct F. rewrite fp_cb0. reflexivity. Qed.

Lemma m_exit_parent : c_exit P <> Some parent.
Proof. destruct F. unfold is_exit in fp_exit0. intros E. rewrite E, N.eqb_refl in fp_exit0. discriminate. Qed.

(* the intermediate CFG before the removal *)
Let P1 := copy_back P parent (b_stmts cb).
Let P2 := if is_exit P1 cur then set_exit P1 parent else P1.

Lemma m_P2_blocks l : get_block P2 l = get_block P1 l.
Proof. unfold P2. destruct (is_exit P1 cur); reflexivity. Qed.
Lemma m_P2_succs l : succs P2 l = succs P l.
Proof. unfold succs. rewrite m_P2_blocks. apply succs_copy_back. Qed.
Lemma m_P2_stmts l : stmts_of P2 l = stmts_of P1 l.
Proof. unfold stmts_of. rewrite m_P2_blocks. reflexivity. Qed.
Lemma m_P2_labels : labels P2 = labels P.
Proof. unfold P2. destruct (is_exit P1 cur); apply labels_map_block. Qed.

Lemma m_Q_def : Q = add_edge (remove_block P2 cur) parent child.
Proof. reflexivity. Qed.

Lemma m_labels l : In l (labels Q) <-> In l (labels P) /\ l <> cur.
Proof.
  rewrite m_Q_def. unfold add_edge. rewrite labels_map_block, labels_remove_block, filter_In,
    negb_true_iff, N.eqb_neq, m_P2_labels. tauto.
Qed.

Lemma m_stmts l :
  stmts_of Q l = if N.eqb l cur then [] else if N.eqb l parent then stmts_of P parent ++ SC else stmts_of P l.
Proof.
  rewrite m_Q_def, stmts_add_edge. destruct (N.eqb_spec l cur).
  - subst. unfold stmts_of. rewrite get_block_remove_block, N.eqb_refl. reflexivity.
  - rewrite stmts_remove_block by auto. rewrite m_P2_stmts. unfold P1. rewrite stmts_copy_back.
    destruct (N.eqb_spec l parent); auto. subst. destruct F. rewrite fp_pb0, m_SC. reflexivity.
Qed.

Lemma m_succs l :
  succs Q l = if N.eqb l cur then [] else if N.eqb l parent then [child] else succs P l.
Proof.
  destruct m_edges as (S1 & S2 & S3 & Hch & Hp & Hc).
  rewrite m_Q_def, succs_add_edge. destruct (N.eqb_spec l parent).
  - subst l. destruct (N.eqb_spec parent cur); [contradiction|].
    rewrite get_block_remove_block. destruct (N.eqb_spec parent cur); [contradiction|].
    rewrite m_P2_blocks. unfold P1, copy_back. rewrite get_block_map_block. destruct F. rewrite fp_pb0.
    rewrite succs_remove_block. destruct (N.eqb_spec parent cur); [contradiction|].
    rewrite m_P2_succs, S3. simpl. rewrite N.eqb_refl. simpl. reflexivity.
  - rewrite succs_remove_block. destruct (N.eqb_spec l cur); auto.
    rewrite m_P2_succs. apply remove_adjacent_notin. apply m_cur_not_succ. auto.
Qed.

Lemma m_exit : c_exit Q = if is_exit P cur then Some parent else c_exit P.
Proof.
  rewrite m_Q_def. simpl. unfold P2. change (is_exit P1 cur) with (is_exit P cur).
  destruct (is_exit P cur); reflexivity.
Qed.
Lemma m_outs : c_outs Q = c_outs P.
Proof. rewrite m_Q_def. simpl. unfold P2. destruct (is_exit P1 cur); reflexivity. Qed.
Lemma m_entry : c_entry Q = c_entry P.
Proof. rewrite m_Q_def. simpl. unfold P2. destruct (is_exit P1 cur); reflexivity. Qed.

Inductive mrel : config -> config -> Prop :=
| MOther l rest s : l <> cur -> l <> parent -> mrel (Run l rest s) (Run l rest s)
| MParent rest s : mrel (Run parent rest s) (Run parent (rest ++ SC) s)
| MCur rest s : mrel (Run cur rest s) (Run parent rest s)
| MDone : mrel Done Done
| MErr : mrel Err Err.

(* target of a goto to l' (l' is not cur): related configurations *)
Lemma m_target l' s : l' <> cur -> mrel (Run l' (stmts_of P l') s) (Run l' (stmts_of Q l') s).
Proof.
  intros H. rewrite m_stmts. destruct (N.eqb_spec l' cur); [contradiction|].
  destruct (N.eqb_spec l' parent); [subst; constructor|constructor; auto].
Qed.

Lemma m_exit_other l : l <> cur -> l <> parent -> (c_exit Q = Some l <-> c_exit P = Some l).
Proof.
  intros H1 H2. rewrite m_exit. unfold is_exit. destruct (c_exit P) as [e|]; [|tauto].
  destruct (N.eqb_spec cur e); [|tauto]. subst e. split; intros E; inversion E; congruence.
Qed.

(* steps of statements do not depend on the CFG *)
Lemma stmt_step_any (A B : cfg) l st r s ev c1 :
  step A (Run l (st :: r) s) ev c1 ->
  forall l2 r2, exists c2, step B (Run l2 (st :: r2) s) ev c2 /\
    ((exists s1, c1 = Run l r s1 /\ c2 = Run l2 r2 s1) \/ (c1 = Err /\ c2 = Err)).
Proof.
  intros St l2 r2. inversion St as [l0 st0 r0 s0 ev0 s1 X | l0 st0 r0 s0 ev0 Fl | |]; subst.
  - exists (Run l2 r2 s1). split; [constructor; auto|]. left. eauto.
  - exists Err. split; [constructor; auto|]. right. auto.
Qed.

Lemma m_fwd c c' ev c1 :
  step P c ev c1 -> mrel c c' ->
  exists tr' c1', star Q c' tr' c1' /\ obs tr' = obs ev /\ mrel c1 c1'.
Proof.
  destruct m_edges as (S1 & S2 & S3 & Hch & Hp & Hc).
  intros St R. inversion R as [l rest s Hl1 Hl2 | rest s | rest s | |]; subst.
  - (* a block that is not involved *)
    destruct rest as [|st r].
    + destruct (step_end_inv _ _ _ _ _ St) as [[l' (-> & H1 & H2 & ->)]|(He & -> & ->)].
      * assert (NC : l' <> cur) by (intros ->; eapply m_cur_not_succ; eauto).
        exists [EvGoto l'], (Run l' (stmts_of Q l') s). split; [|split; [reflexivity|apply m_target; auto]].
        apply star_one. apply step_end_intro.
        -- rewrite m_succs. destruct (N.eqb_spec l cur); [contradiction|].
           destruct (N.eqb_spec l parent); [contradiction|auto].
        -- apply m_labels. auto.
      * exists [EvExit (obs_out (c_outs P) s)], Done. split; [|split; [reflexivity|constructor]].
        apply star_one. rewrite <- m_outs. apply StExit. apply m_exit_other; auto.
    + destruct (stmt_step_any P Q _ _ _ _ _ _ St l r) as [c2 [S2' [[s1 [-> ->]]|[-> ->]]]].
      * exists ev, (Run l r s1). split; [apply star_one; auto|]. split; auto. constructor; auto.
      * exists ev, Err. split; [apply star_one; auto|]. split; auto. constructor.
  - (* in the predecessor *)
    destruct rest as [|st r].
    + destruct (step_end_inv _ _ _ _ _ St) as [[l' (-> & H1 & H2 & ->)]|(He & -> & ->)].
      * rewrite S3 in H1. destruct H1 as [<-|[]].
        exists [], (Run parent SC s). split; [constructor|]. split; [reflexivity|]. constructor.
      * exfalso. apply m_exit_parent. exact He.
    + destruct (stmt_step_any P Q _ _ _ _ _ _ St parent (r ++ SC)) as [c2 [S2' [[s1 [-> ->]]|[-> ->]]]].
      * exists ev, (Run parent (r ++ SC) s1). split; [apply star_one; auto|]. split; auto. constructor.
      * exists ev, Err. split; [apply star_one; auto|]. split; auto. constructor.
  - (* in the folded block *)
    destruct rest as [|st r].
    + destruct (step_end_inv _ _ _ _ _ St) as [[l' (-> & H1 & H2 & ->)]|(He & -> & ->)].
      * rewrite S1 in H1. destruct H1 as [<-|[]].
        exists [EvGoto child], (Run child (stmts_of Q child) s).
        split; [|split; [reflexivity|apply m_target; apply m_child_ne]].
        apply star_one. apply step_end_intro.
        -- rewrite m_succs. destruct (N.eqb_spec parent cur); [contradiction|].
           rewrite N.eqb_refl. simpl; auto.
        -- apply m_labels. split; auto. apply m_child_ne.
      * exists [EvExit (obs_out (c_outs P) s)], Done. split; [|split; [reflexivity|constructor]].
        apply star_one. rewrite <- m_outs. apply StExit. rewrite m_exit. unfold is_exit.
        rewrite He, N.eqb_refl. reflexivity.
    + destruct (stmt_step_any P Q _ _ _ _ _ _ St parent r) as [c2 [S2' [[s1 [-> ->]]|[-> ->]]]].
      * exists ev, (Run parent r s1). split; [apply star_one; auto|]. split; auto. constructor.
      * exists ev, Err. split; [apply star_one; auto|]. split; auto. constructor.
  - inversion St.
  - inversion St.
Qed.

Lemma m_bwd_cur rest s ev' c1' :
  step Q (Run parent rest s) ev' c1' ->
  exists tr c1, star P (Run cur rest s) tr c1 /\ obs tr = obs ev' /\ mrel c1 c1'.
Proof.
  destruct m_edges as (S1 & S2 & S3 & Hch & Hp & Hc). intros St.
  destruct rest as [|st r].
  - destruct (step_end_inv _ _ _ _ _ St) as [[l' (-> & H1 & H2 & ->)]|(He & -> & ->)].
    + rewrite m_succs in H1. destruct (N.eqb_spec parent cur); [contradiction|].
      rewrite N.eqb_refl in H1. destruct H1 as [<-|[]].
      exists [EvGoto child], (Run child (stmts_of P child) s).
      split; [|split; [reflexivity|apply m_target; apply m_child_ne]].
      apply star_one. apply step_end_intro; auto. rewrite S1. simpl; auto.
    + rewrite m_exit in He. destruct (is_exit P cur) eqn:X.
      * unfold is_exit in X. destruct (c_exit P) as [e|] eqn:Xe; [|discriminate].
        apply N.eqb_eq in X. subst e.
        exists [EvExit (obs_out (c_outs P) s)], Done. split; [|split; [rewrite m_outs; reflexivity|constructor]].
        apply star_one. apply StExit. exact Xe.
      * exfalso. apply m_exit_parent. exact He.
  - destruct (stmt_step_any Q P _ _ _ _ _ _ St cur r) as [c2 [S2' [[s1 [-> ->]]|[-> ->]]]].
    + exists ev', (Run cur r s1). split; [apply star_one; auto|]. split; auto. constructor.
    + exists ev', Err. split; [apply star_one; auto|]. split; auto. constructor.
Qed.

Lemma m_bwd c c' ev' c1' :
  step Q c' ev' c1' -> mrel c c' ->
  exists tr c1, star P c tr c1 /\ obs tr = obs ev' /\ mrel c1 c1'.
Proof.
  destruct m_edges as (S1 & S2 & S3 & Hch & Hp & Hc).
  intros St R. inversion R as [l rest s Hl1 Hl2 | rest s | rest s | |]; subst.
  - destruct rest as [|st r].
    + destruct (step_end_inv _ _ _ _ _ St) as [[l' (-> & H1 & H2 & ->)]|(He & -> & ->)].
      * rewrite m_succs in H1. destruct (N.eqb_spec l cur); [contradiction|].
        destruct (N.eqb_spec l parent); [contradiction|]. apply m_labels in H2. destruct H2 as [H2 NC].
        exists [EvGoto l'], (Run l' (stmts_of P l') s). split; [|split; [reflexivity|apply m_target; auto]].
        apply star_one. apply step_end_intro; auto.
      * exists [EvExit (obs_out (c_outs P) s)], Done. split; [|split; [rewrite m_outs; reflexivity|constructor]].
        apply star_one. apply StExit. apply m_exit_other; auto.
    + destruct (stmt_step_any Q P _ _ _ _ _ _ St l r) as [c2 [S2' [[s1 [-> ->]]|[-> ->]]]].
      * exists ev', (Run l r s1). split; [apply star_one; auto|]. split; auto. constructor; auto.
      * exists ev', Err. split; [apply star_one; auto|]. split; auto. constructor.
  - destruct rest as [|st r].
    + (* the predecessor is at its end: the original first enters the folded block *)
      simpl in St. destruct (m_bwd_cur SC s ev' c1' St) as [tr [c1 [St1 [O R1]]]].
      exists ([EvGoto cur] ++ tr), c1. split; [|split; auto].
      eapply StarStep; [|exact St1]. unfold SC. apply step_end_intro; auto. rewrite S3. simpl; auto.
    + simpl in St.
      destruct (stmt_step_any Q P _ _ _ _ _ _ St parent r) as [c2 [S2' [[s1 [-> ->]]|[-> ->]]]].
      * exists ev', (Run parent r s1). split; [apply star_one; auto|]. split; auto. constructor.
      * exists ev', Err. split; [apply star_one; auto|]. split; auto. constructor.
  - apply m_bwd_cur. exact St.
  - inversion St.
  - inversion St.
Qed.

Lemma m_star_fwd c tr c1 : star P c tr c1 -> forall c', mrel c c' ->
  exists tr' c1', star Q c' tr' c1' /\ obs tr' = obs tr /\ mrel c1 c1'.
Proof.
  induction 1 as [c|c ev c1 tr c2 S1 St IH]; intros c' R.
  - exists [], c'. split; [constructor|]. split; auto.
  - destruct (m_fwd _ _ _ _ S1 R) as [t1 [c1' [St1 [O1 R1]]]].
    destruct (IH _ R1) as [t2 [c2' [St2 [O2 R2]]]].
    exists (t1 ++ t2), c2'. split; [eapply star_trans; eauto|]. split; auto.
    rewrite !obs_app. congruence.
Qed.
Lemma m_star_bwd c' tr' c1' : star Q c' tr' c1' -> forall c, mrel c c' ->
  exists tr c1, star P c tr c1 /\ obs tr = obs tr' /\ mrel c1 c1'.
Proof.
  induction 1 as [c'|c' ev' c1' tr' c2' S1 St IH]; intros c R.
  - exists [], c. split; [constructor|]. split; auto.
  - destruct (m_bwd _ _ _ _ S1 R) as [t1 [c1 [St1 [O1 R1]]]].
    destruct (IH _ R1) as [t2 [c2 [St2 [O2 R2]]]].
    exists (t1 ++ t2), c2. split; [eapply star_trans; eauto|]. split; auto.
    rewrite !obs_app. congruence.
Qed.

Lemma m_init s : mrel (init P s) (init Q s).
Proof.
  unfold init. rewrite m_entry. apply m_target. destruct F. auto.
Qed.

Theorem merge_step_beh : beh_eq P Q.
Proof.
  intros s t. unfold exit_obs. split.
  - intros [tr [St O]]. destruct (m_star_fwd _ _ _ St _ (m_init s)) as [tr' [c1' [St' [O' R]]]].
    inversion R; subst. exists tr'. split; [exact St'|congruence].
  - intros [tr' [St' O']]. destruct (m_star_bwd _ _ _ St' _ (m_init s)) as [tr [c1 [St [O R]]]].
    inversion R; subst. exists tr. split; [exact St|congruence].
Qed.
End Merge.

(* degenerate fold: a block whose only predecessor and successor is itself (never reached by the
   DFS of merge_blocks_rec, but the test of the code does not exclude it): it just disappears *)
Lemma fold_self_beh P cur cb pb :
  wf P -> fold_pre P cur cur cur cb pb -> beh_eq P (fold_into_parent P cur cur cur cb).
Proof.
  intros W F. destruct (fold_pre_edges _ _ _ _ _ _ W F) as (S1 & S2 & S3 & _ & _ & Hc).
  assert (NE : cur <> c_entry P) by (destruct F; auto).
  eapply beh_eq_trans.
  - apply (remove_unreachable_block_beh P cur NE (filter (fun x => negb (N.eqb x cur)) (labels P))).
    + apply filter_In. split; [destruct W as (_ & W2 & _); exact W2|].
      apply negb_true_iff. apply N.eqb_neq. auto.
    + rewrite filter_In, negb_true_iff, N.eqb_neq. tauto.
    + intros l l'. rewrite !filter_In, !negb_true_iff, !N.eqb_neq. intros [Hl Hn] Hl'.
      destruct W as (_ & _ & _ & W4 & _). destruct (W4 _ _ Hl') as [H1 H2]. split; auto.
      intros ->. rewrite S2 in H2. destruct H2 as [H2|[]]. congruence.
  - apply equiv_beh. unfold fold_into_parent.
    assert (X : is_exit (copy_back P cur (b_stmts cb)) cur = false) by (destruct F; exact fp_exit0).
    rewrite X. unfold cfg_equiv. repeat split; auto.
    intros l. unfold add_edge. rewrite get_block_map_block, !get_block_remove_block.
    destruct (N.eqb_spec l cur); auto.
    unfold copy_back. rewrite get_block_map_block. destruct (get_block P l) as [blk|]; auto.
    destruct (N.eqb_spec l cur); [contradiction|]. simpl. auto.
Qed.

Theorem fold_beh P cur parent child cb pb :
  wf P -> fold_pre P cur parent child cb pb ->
  wf (fold_into_parent P cur parent child cb) /\ beh_eq P (fold_into_parent P cur parent child cb).
Proof.
  intros W F. split; [apply (wf_fold _ _ _ _ _ _ W F)|].
  destruct (N.eq_dec parent cur) as [E|NE].
  - subst parent. destruct (fold_pre_edges _ _ _ _ _ _ W F) as (S1 & _ & S3 & _).
    assert (child = cur) by (rewrite S1 in S3; inversion S3; auto). subst child.
    eapply fold_self_beh; eauto.
  - eapply merge_step_beh; eauto.
Qed.

Theorem merge_blocks_beh P Q : merge_blocks P = Some Q -> wf P -> wf Q /\ beh_eq P Q.
Proof.
  apply (merge_blocks_ind wf beh_eq beh_eq_refl beh_eq_trans). intros. eapply fold_beh; eauto.
Qed.

(* cfg::simplify preserves the observations of the executions that finish at the exit *)
Theorem simplify_beh P Q : simplify P = Some Q -> wf P -> beh_eq P Q.
Proof.
  unfold simplify. destruct (merge_blocks P) as [P1|] eqn:M1; [|discriminate]. intros M2 W.
  destruct (merge_blocks_beh _ _ M1 W) as [W1 B1].
  destruct (remove_unreachable_wf _ W1) as [W2 _]. pose proof (remove_unreachable_beh _ W1) as B2.
  destruct (remove_useless_wf _ W2) as [W3 _]. pose proof (remove_useless_beh _ W2) as B3.
  destruct (merge_blocks_beh _ _ M2 W3) as [_ B4].
  eapply beh_eq_trans; [exact B1|]. eapply beh_eq_trans; [exact B2|].
  eapply beh_eq_trans; [exact B3|exact B4].
Qed.

(* ------------------------------------------------------------------ well-formedness is decidable (CFGs built with
   basic_block::operator>> satisfy it) *)
Fixpoint nodupb (ls : list label) : bool :=
  match ls with [] => true | a :: r => negb (mem a r) && nodupb r end.
Lemma nodupb_spec ls : nodupb ls = true -> NoDup ls.
Proof.
  induction ls as [|a r IH]; simpl; [constructor|]. rewrite andb_true_iff, negb_true_iff, mem_false.
  intros [H1 H2]. constructor; auto.
Qed.

Definition wfb (P : cfg) : bool :=
  let ls := labels P in
  nodupb ls && mem (c_entry P) ls
  && match c_exit P with Some e => mem e ls | None => true end
  && forallb (fun l => forallb (fun l' => mem l' ls && mem l (preds P l')) (succs P l)) ls
  && forallb (fun l' => forallb (fun l => mem l ls && mem l' (succs P l)) (preds P l')) ls.

Lemma wfb_sound P : wfb P = true -> wf P.
Proof.
  unfold wfb. rewrite !andb_true_iff. intros [[[[H1 H2] H3] H4] H5].
  rewrite forallb_forall in H4, H5. unfold wf. split; [apply nodupb_spec; auto|].
  split; [apply mem_In; auto|]. split; [|split].
  - intros e E. rewrite E in H3. apply mem_In; auto.
  - intros l l' H. pose proof (succs_In_labels _ _ _ H) as Hl. specialize (H4 l Hl).
    rewrite forallb_forall in H4. specialize (H4 l' H). apply andb_true_iff in H4.
    destruct H4 as [A B]. split; apply mem_In; auto.
  - intros l l' H. pose proof (preds_In_labels _ _ _ H) as Hl. specialize (H5 l' Hl).
    rewrite forallb_forall in H5. specialize (H5 l H). apply andb_true_iff in H5.
    destruct H5 as [A B]. split; apply mem_In; auto.
Qed.

End Gen.

Arguments mkBlock {stmt} b_stmts b_prev b_next.
Arguments b_stmts {stmt} b.
Arguments b_prev {stmt} b.
Arguments b_next {stmt} b.
Arguments mkCfg {stmt odecl} c_entry c_exit c_blocks c_outs.
Arguments c_entry {stmt odecl} c.
Arguments c_exit {stmt odecl} c.
Arguments c_blocks {stmt odecl} c.
Arguments c_outs {stmt odecl} c.
Arguments get_block {stmt odecl} P l.
Arguments stmts_of {stmt odecl} P l.
Arguments succs {stmt odecl} P l.
Arguments preds {stmt odecl} P l.
Arguments labels {stmt odecl} P.
Arguments is_exit {stmt odecl} P l.
Arguments merge_blocks {stmt odecl} P.
Arguments remove_unreachable_blocks {stmt odecl} P.
Arguments remove_useless_blocks {stmt odecl} P.
Arguments simplify {stmt odecl} P.
Arguments wf {stmt odecl} P.
Arguments wfb {stmt odecl} P.
Arguments keeps {stmt odecl} P Q.
Arguments EvStmt {sev out} e.
Arguments EvGoto {sev out} l.
Arguments EvExit {sev out} o.
Arguments Run {stmt store} l rest s.
Arguments Done {stmt store}.
Arguments Err {stmt store}.
Arguments step {stmt store sev out odecl} exec obs_out P _ _ _.
Arguments star {stmt store sev out odecl} exec obs_out P _ _ _.
Arguments init {stmt store odecl} P s.
Arguments obs {sev out} tr.
Arguments exit_obs {stmt store sev out odecl} exec obs_out P s t.
Arguments beh_eq {stmt store sev out odecl} exec obs_out P Q.
