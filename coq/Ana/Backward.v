(* Backward.v — mirror of BackwardAssignOps (domains/backward_assign_operations.hpp) and of
   intra_necessary_preconditions_abs_transformer::exec (analysis/abs_transformer.hpp) over the
   interval domain, and of necessary_preconditions_fixpoint_iterator::analyze for a block
   (analysis/bwd_analyzer.hpp). *)
From Coq Require Import ZArith NArith List Bool.
From CrabV Require Import Base.ZInf Scalar.Itv Ir.Syntax Ir.Cfg Dom.ItvEnv Dom.ItvDomain Ana.Transformer.
Import ListNotations.
Local Open Scope Z_scope.

(* canonical insertion of a term (terms sorted by variable index, coefficients merged) *)
Fixpoint le_add_term (c : Z) (v : var) (ts : list (Z * var)) : list (Z * var) :=
  match ts with
  | [] => if c =? 0 then [] else [(c, v)]
  | (c', v') :: r =>
    if N.ltb v v' then (if c =? 0 then ts else (c, v) :: ts)
    else if N.eqb v v' then (if c + c' =? 0 then r else (c + c', v') :: r)
    else (c', v') :: le_add_term c v r
  end.
Definition le_sub_var (e : linexp) (x : var) : linexp := mkLE (le_add_term (-1) x (le_terms e)) (le_cst e).
Definition le_rename_var (e : linexp) (x nx : var) : linexp :=
  (* e[nx / x]; nx is fresh (larger than every index of e) *)
  match find (fun p => N.eqb (snd p) x) (le_terms e) with
  | None => e
  | Some (c, _) => mkLE (le_add_term c nx (filter (fun p => negb (N.eqb (snd p) x)) (le_terms e))) (le_cst e)
  end.
Definition le_mentions (e : linexp) (x : var) : bool := existsb (fun p => N.eqb (snd p) x) (le_terms e).

(* BackwardAssignOps::assign *)
Definition bwd_assign (fresh : var) (x : var) (e : linexp) (inv : env) (post : env) : env :=
  if e_is_bot post then post
  else
    let d :=
      if le_mentions e x then
        let d1 := d_add [mkLC EQ (le_sub_var (le_rename_var e x fresh) x)] post in
        e_rename (e_forget d1 x) [fresh] [x]
      else e_forget (d_add [mkLC EQ (le_sub_var e x)] post) x in
    e_meet d inv.

Definition forget_if_distinct (x y : var) (d : env) : env := if N.eqb x y then d else e_forget d x.

(* BackwardAssignOps::apply(op, x, y, k) *)
Definition bwd_apply_cst (op : arith_op) (x y : var) (k : Z) (inv : env) (post : env) : env :=
  if e_is_bot post then post
  else
    let d :=
      match op with
      | OpAdd => forget_if_distinct x y (d_apply_arith OpSub y x (OCst k) post)
      | OpSub => forget_if_distinct x y (d_apply_arith OpAdd y x (OCst k) post)
      | OpMul => if k =? 0 then e_forget post x
                 else forget_if_distinct x y (d_apply_arith OpSDiv y x (OCst k) post)
      | OpSDiv =>
        if k =? 0 then e_forget post x
        else
          let d1 := d_apply_arith OpMul y x (OCst k) post in
          let r := (if k <? 0 then - k else k) - 1 in
          let d2 :=
            if 0 <? r then
              let yi := iadd (e_at d1 y) (imk (Fin (- r)) (Fin r)) in
              let d3 := e_forget d1 y in
              let d4 := match lb yi with Fin l => d_add [mkLC INEQ (mkLE [(-1, y)] l)] d3 | _ => d3 end in
              match ub yi with Fin u => d_add [mkLC INEQ (mkLE [(1, y)] (- u))] d4 | _ => d4 end
            else d1 in
          forget_if_distinct x y d2
      | _ => e_forget post x
      end in
    e_meet d inv.

(* y + z and y - z as canonical linear expressions *)
Definition le_var_plus_var (y z : var) : linexp := mkLE (le_add_term 1 z (le_add_term 1 y [])) 0.
Definition le_var_sub_var (y z : var) : linexp := mkLE (le_add_term (-1) z (le_add_term 1 y [])) 0.

(* BackwardAssignOps::apply(op, x, y, z) *)
Definition bwd_apply_var (fresh : var) (op : arith_op) (x y z : var) (inv : env) (post : env) : env :=
  if e_is_bot post then post
  else match op with
       | OpAdd => bwd_assign fresh x (le_var_plus_var y z) inv post
       | OpSub => bwd_assign fresh x (le_var_sub_var y z) inv post
       | _ => e_meet (e_forget post x) inv
       end.

(* intra_necessary_preconditions_abs_transformer::exec; [inv] = forward invariant before s *)
Definition bwd_stmt (fresh : var) (good : bool) (s : stmt) (inv : env) (post : env) : env :=
  match s with
  | SAssign x e => bwd_assign fresh x e inv post
  | SArith op x y z =>
    match op with
    | OpAdd | OpSub | OpMul | OpSDiv =>
      match z with
      | OVar zv => bwd_apply_var fresh op x y zv inv post
      | OCst k => bwd_apply_cst op x y k inv post
      end
    | _ => e_forget post x
    end
  | SBit _ x _ _ => e_forget post x
  | SAssume c => d_add [c] post
  | SAssert c _ =>
    if good then d_add [c] post
    else e_join post (d_add [lc_negate c] e_top)
  | SHavoc x => e_forget post x
  | SSelect x c e1 e2 =>
    if e_is_bot (d_add [c] inv) then d_add [lc_negate c] (bwd_assign fresh x e2 inv post)
    else if e_is_bot (d_add [lc_negate c] inv) then d_add [c] (bwd_assign fresh x e1 inv post)
    else e_join (d_add [c] (bwd_assign fresh x e1 inv post))
                (d_add [lc_negate c] (bwd_assign fresh x e2 inv post))
  | SUnreach => EBot
  end.

(* forward invariants before each statement, from the invariant at the block entry *)
Fixpoint pp_invariants (bl : block) (inv : env) : list env :=
  match bl with
  | [] => []
  | s :: r => inv :: pp_invariants r (tr_stmt s inv)
  end.

(* analyze(node, precond): statements in reverse order *)
Definition bwd_block (fresh : var) (good : bool) (bl : block) (inv : env) (post : env) : env :=
  fold_right (fun (si : stmt * env) acc => bwd_stmt fresh good (fst si) (snd si) acc)
             post (combine bl (pp_invariants bl inv)).
