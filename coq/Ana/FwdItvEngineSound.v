(* FwdItvEngineSound.v — property C01 for the forward interval analyzer model, WITHOUT a
   checker: whenever the engine model terminates on the weak topological ordering computed
   by the model of wto.hpp, its invariant tables contain every state with which an execution
   from the initial states enters / leaves each block.  All programs with well-formed
   statements and in-range edges, all fixpoint parameters, fuels and assumption maps.
   Instance of Fix/EngineSound.v. *)
From Coq Require Import ZArith List Bool Arith Lia.
From CrabV Require Import Base.ZInf Scalar.Itv Ir.Syntax Ir.Cfg Dom.ItvEnv Dom.ItvEnvSound Dom.ItvDomain
     Fix.Wto Fix.WtoCheck Fix.WtoSound Fix.WtoRoot Fix.Engine Fix.EngineBelow Fix.EngineCheck Fix.EngineRel Fix.EngineFS
     Fix.EngineFS Fix.EngineSound Ana.Transformer Ana.FwdItv Ana.FwdItvSound.
Import ListNotations.

(* the syntactic conditions also tested by fwd_check: statements well formed, edges between
   existing blocks *)
Definition prog_wfb (p : prog) : bool :=
  forallb (fun b => forallb stmt_wfb b) (p_blocks p) &&
  forallb (fun e => (fst e <? length (p_blocks p)) && (snd e <? length (p_blocks p))) (p_edges p).

Lemma dedup_In : forall l x, In x (dedup l) <-> In x l.
Proof.
  induction l as [|h t IH]; intros x; cbn [dedup]; [tauto|].
  cbn [In]. rewrite filter_In, IH, negb_true_iff, Nat.eqb_neq. split.
  - intros [H|[H _]]; auto.
  - intros [H|H]; [left; exact H|]. destruct (Nat.eq_dec h x) as [E|N]; [left; exact E|].
    right. split; [exact H|]. intros E. apply N. symmetry. exact E.
Qed.

Lemma p_preds_edge : forall p n q, In q (p_preds p n) <-> In (q, n) (p_edges p).
Proof.
  intros p n q. unfold p_preds. rewrite in_map_iff. split.
  - intros [[a b] [E I]]. apply filter_In in I. destruct I as [I F]. cbn [fst snd] in *.
    apply Nat.eqb_eq in F. subst. exact I.
  - intros I. exists (q, n). split; [reflexivity|]. apply filter_In. split; [exact I|].
    cbn [snd]. apply Nat.eqb_refl.
Qed.
Lemma p_succs_edge : forall p q n, In n (p_succs p q) <-> In (q, n) (p_edges p).
Proof.
  intros p q n. unfold p_succs. rewrite dedup_In, in_map_iff. split.
  - intros [[a b] [E I]]. apply filter_In in I. destruct I as [I F]. cbn [fst snd] in *.
    apply Nat.eqb_eq in F. subst. exact I.
  - intros I. exists (q, n). split; [reflexivity|]. apply filter_In. split; [exact I|].
    cbn [fst]. apply Nat.eqb_refl.
Qed.
Lemma p_graph_succs : forall p q, q < length (p_blocks p) -> succs (p_graph p) q = p_succs p q.
Proof.
  intros p q L. unfold succs, p_graph.
  rewrite (nth_indep _ [] (p_succs p 0)) by (rewrite map_length, seq_length; exact L).
  rewrite map_nth, seq_nth by exact L. reflexivity.
Qed.

(* the predecessor lists of the analyzer and the successor lists of the graph given to the
   WTO construction describe the same edges *)
Lemma preds_in_graph : forall p, prog_wfb p = true ->
  forall n q, In q (p_preds p n) -> In n (succs (p_graph p) q).
Proof.
  intros p W n q I. unfold prog_wfb in W. apply andb_true_iff in W. destruct W as [_ ED].
  apply p_preds_edge in I. rewrite forallb_forall in ED. pose proof (ED _ I) as R.
  cbn [fst snd] in R. apply andb_true_iff in R. destruct R as [R _]. apply Nat.ltb_lt in R.
  rewrite p_graph_succs by exact R. apply p_succs_edge. exact I.
Qed.

Section FwdSound.
  Variable p : prog.
  Hypothesis p_wf : prog_wfb p = true.
  Variable use_asm : bool.
  Variable asm : nat -> option env.
  Variable Init : store -> Prop.
  Variable init : env.
  Hypothesis init_s : forall s, Init s -> genv init s.
  Variables delay desc fuel : nat.

  (* any ordering satisfying property C07 for the graph of p, any start block of the ordering
     (also strictly inside loops) *)
  Theorem fwd_run_sound_WF : forall e0 nst dom w entry e,
    WF (p_graph p) e0 w nst dom ->
    In entry (flat w) ->
    fwd_run p w entry delay desc use_asm asm fuel init = Some e ->
    (forall n s, ReachPre p entry use_asm asm Init n s -> genv (e_pre env e n) s) /\
    (forall n s, ReachPost p entry use_asm asm Init n s -> genv (e_post env e n) s).
  Proof.
    intros e0 nst dom w entry e W IE RUN.
    assert (BW : forallb (fun b => forallb stmt_wfb b) (p_blocks p) = true).
    { unfold prog_wfb in p_wf. apply andb_true_iff in p_wf. tauto. }
    unfold fwd_run in RUN. unfold ReachPre, ReachPost.
    exact (engine_sound_WF env store genv itv_ops
             (fun a b s H => e_join_sound a b s (or_introl H))
             (fun a b s H => e_join_sound a b s (or_intror H))
             e_meet_sound e_narrow_sound
             (fun a b s L G => e_leq_sound a b s L G)
             (fun n e => tr_block (p_block p n) e) (fun n => bstep (p_block p n))
             (fun n a s s' G B => tr_block_sound (p_block p n) a s s' (blocks_wf p BW n) G B)
             (p_preds p) (nest_of w) entry delay desc use_asm asm Init init init_s fuel
             (p_graph p) e0 nst dom w W
             (fun n q I _ => preds_in_graph p p_wf n q I) IE e RUN).
  Qed.

  (* the ordering computed by the model of wto.hpp from a block e0 (the CFG entry); the
     analysis starts at any block of that ordering: crab's run(entry, init, assumptions) *)
  Theorem fwd_run_sound_any_entry : forall e0 entry w e,
    build (p_graph p) e0 = Some w -> In entry (flat w) ->
    fwd_run p w entry delay desc use_asm asm fuel init = Some e ->
    (forall n s, ReachPre p entry use_asm asm Init n s -> genv (e_pre env e n) s) /\
    (forall n s, ReachPost p entry use_asm asm Init n s -> genv (e_post env e n) s).
  Proof.
    intros e0 entry w e BU IE RUN.
    exact (fwd_run_sound_WF e0 _ _ w entry e (build_WF _ _ _ BU) IE RUN).
  Qed.

  (* ... from the block the ordering was built from: crab's run(init) *)
  Theorem fwd_run_sound : forall entry w e,
    build (p_graph p) entry = Some w ->
    fwd_run p w entry delay desc use_asm asm fuel init = Some e ->
    (forall n s, ReachPre p entry use_asm asm Init n s -> genv (e_pre env e n) s) /\
    (forall n s, ReachPost p entry use_asm asm Init n s -> genv (e_post env e n) s).
  Proof.
    intros entry w e BU RUN.
    destruct (build_entry_ok _ _ _ BU) as [_ [IE _]].
    exact (fwd_run_sound_any_entry entry entry w e BU IE RUN).
  Qed.

  (* a bottom invariant means that the block is never entered *)
  Corollary fwd_run_bottom_unreachable : forall e0 entry w e,
    build (p_graph p) e0 = Some w -> In entry (flat w) ->
    fwd_run p w entry delay desc use_asm asm fuel init = Some e ->
    forall n, e_is_bot (e_pre env e n) = true -> forall s, ~ ReachPre p entry use_asm asm Init n s.
  Proof.
    intros e0 entry w e BU IE RUN n Bn s R.
    destruct (fwd_run_sound_any_entry e0 entry w e BU IE RUN) as [S _].
    eapply e_is_bot_sound; eauto.
  Qed.
End FwdSound.

(* non-vacuity: x := 0; while (x <= 9) x := x + 1 — the hypotheses hold, the run terminates
   and the theorem bounds x at the loop exit *)
Example fwd_run_sound_example :
  let x := 0%N in
  let p := mkProg [[SAssign x (mkLE [] 0)];
                   [];
                   [SAssume (mkLC INEQ (mkLE [(1%Z, x)] (-9))); SArith OpAdd x x (OCst 1)];
                   [SAssume (mkLC INEQ (mkLE [((-1)%Z, x)] 10))]]
                  [(0,1); (1,2); (2,1); (1,3)] in
  prog_wfb p = true /\
  exists w e, build (p_graph p) 0 = Some w /\
    fwd_run p w 0 2 1 false (fun _ => None) 100 e_top = Some e /\
    e_at (e_post env e 3) x = mkI (Fin 10) (Fin 10) /\
    forall s, ReachPost p 0 false (fun _ => None) (fun _ => True) 3 s -> genv (e_post env e 3) s.
Proof.
  cbv zeta. split; [vm_compute; reflexivity|].
  eexists. eexists. split; [vm_compute; reflexivity|].
  split; [vm_compute; reflexivity|]. split; [vm_compute; reflexivity|].
  intros s R.
  refine (proj2 (fwd_run_sound _ _ false (fun _ => None) (fun _ => True) e_top _ 2 1 100 0 _ _ _ _) 3 s R).
  - vm_compute; reflexivity.
  - intros s0 _. apply genv_top.
  - vm_compute; reflexivity.
  - vm_compute; reflexivity.
Qed.

(* the analysis starts strictly inside a loop: b0: x := 5; b1: loop head; b2: x := x + 1;
   b3: exit; the ordering is built from b0, the analysis starts at the body block b2 with
   x = 0.  The initial value is joined with what comes around the loop: pre(b2) = [0,+oo],
   pre(b1) = [1,+oo] (as printed by the repaired C++), and the theorem applies *)
Example fwd_run_entry_in_loop_example :
  let x := 0%N in
  let p := mkProg [[SAssign x (mkLE [] 5)];
                   [];
                   [SArith OpAdd x x (OCst 1)];
                   []]
                  [(0,1); (1,2); (2,1); (1,3)] in
  let init := e_set e_top x (mkI (Fin 0) (Fin 0)) in
  let Init := fun s : store => s x = 0%Z in
  prog_wfb p = true /\ (forall s, Init s -> genv init s) /\
  exists w e, build (p_graph p) 0 = Some w /\ In 2 (flat w) /\ entry_ok 2 w = false /\
    fwd_run p w 2 1 1 false (fun _ => None) 100 init = Some e /\
    e_at (e_pre env e 2) x = mkI (Fin 0) PInf /\
    e_at (e_pre env e 1) x = mkI (Fin 1) PInf /\
    (forall n s, ReachPre p 2 false (fun _ => None) Init n s -> genv (e_pre env e n) s) /\
    (forall s, Init s -> genv (e_pre env e 2) s).
Proof.
  cbv zeta.
  set (p := mkProg [[SAssign 0%N (mkLE [] 5)]; []; [SArith OpAdd 0%N 0%N (OCst 1)]; []]
                   [(0,1); (1,2); (2,1); (1,3)]).
  set (init := e_set e_top 0%N (mkI (Fin 0) (Fin 0))).
  assert (W : prog_wfb p = true) by (vm_compute; reflexivity).
  assert (IS : forall s : store, s 0%N = 0%Z -> genv init s).
  { intros s H. unfold init. apply e_set_same_sound; [apply genv_top|].
    rewrite H. split; vm_compute; reflexivity. }
  assert (BU : exists w, build (p_graph p) 0 = Some w /\ In 2 (flat w) /\ entry_ok 2 w = false).
  { eexists. split; [vm_compute; reflexivity|]. split; [vm_compute; tauto|vm_compute; reflexivity]. }
  destruct BU as [w [BU [IE NOK]]].
  assert (RUN : exists e, fwd_run p w 2 1 1 false (fun _ => None) 100 init = Some e /\
            e_at (e_pre env e 2) 0%N = mkI (Fin 0) PInf /\ e_at (e_pre env e 1) 0%N = mkI (Fin 1) PInf).
  { vm_compute in BU. inversion BU; subst w. eexists.
    split; [vm_compute; reflexivity|]. split; vm_compute; reflexivity. }
  destruct RUN as [e [RUN [E2 E1]]].
  pose proof (fwd_run_sound_any_entry p W false (fun _ => None) (fun s => s 0%N = 0%Z) init IS 1 1 100 0 2 w e BU IE RUN) as [S1 _].
  split; [exact W|]. split; [exact IS|].
  exists w, e. split; [exact BU|]. split; [exact IE|]. split; [exact NOK|]. split; [exact RUN|].
  split; [exact E2|]. split; [exact E1|]. split; [exact S1|].
  intros s H. apply S1. apply RP_init; [exact H|exact I].
Qed.
