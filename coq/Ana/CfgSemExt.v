(* CfgSemExt.v — an extended statement language for the generic CFG semantics of Ana/SimplifyGen.v:
   the numeric statements of Ana/CfgSem.v + the boolean statements + the array statements of
   CrabIR (element size 1), with a concrete step relation.  The meaning follows the independent
   python interpreter of the oracle streams transforms-bool / transforms-array
   (/verif/gen/transforms.py, step_stmt):

   * a store = integer valuation, boolean valuation, array valuation (var -> Z -> option Z;
     None = undefined cell);
   * numeric statements act on the integer valuation exactly as CfgSem.exec_stmt;
   * b := (c); b := b'; b := not b'; b := b1 and/or/xor b2; b := select(c, b1, b2);
     assume(b) / assume(not b) filter and emit EvAssume; assert(b) [id] emits EvAssert id true or
     ends the execution in the error configuration with EvAssert id false; havoc(b);
     x := zext(b) (0 or 1);
   * array_init(a, lb, ub, v): cells lb, lb+1, ..., ub hold v, EVERY other cell is undefined;
     array_store(a, i, v): one cell; array_store_range(a, lb, ub, v): cells lb..ub, the others are
     kept; x := array_load(a, i): the value of the cell, an ARBITRARY value if it is undefined;
     array_assign(a, a'): copy of the whole array.
     (The interpreter additionally gives up on ranges of more than 4096 cells; such runs are not
     compared by the oracle.  The relation below has no such bound.)

   The generic theorems are instantiated at this language at the end (simplify_wf_ext,
   simplify_beh_ext, ...), and ex_chain is a 4-block chain with a range store in a middle block:
   simplify merges it into one block, whose statement list is displayed. *)
From Coq Require Import ZArith List Bool Lia.
From CrabV Require Import Ir.Syntax Ana.CfgSem.
From CrabV Require Ana.SimplifyGen.
Import ListNotations.
Local Open Scope Z_scope.
Module G := SimplifyGen.

Definition bvar := N.
Definition avar := N.
Inductive bool_op := BAnd | BOr | BXor.

Inductive xstmt :=
| XNum (st : stmt)                                     (* the statements of CfgSem.v *)
| XBAssign (b : bvar) (c : lincst)                     (* b := (c) *)
| XBCopy (b b1 : bvar)                                 (* b := b1 *)
| XBNot (b b1 : bvar)                                  (* b := not b1 *)
| XBBin (op : bool_op) (b b1 b2 : bvar)                (* b := b1 op b2 *)
| XBSelect (b c b1 b2 : bvar)                          (* b := c ? b1 : b2 *)
| XBAssume (b : bvar)                                  (* assume(b) *)
| XBNAssume (b : bvar)                                 (* assume(not b) *)
| XBAssert (b : bvar) (id : N)                         (* assert(b) *)
| XBHavoc (b : bvar)
| XBZext (x : var) (b : bvar)                          (* x := zext(b) *)
| XAInit (a : avar) (lb ub v : linexp)                 (* array_init(a, 1, lb, ub, v) *)
| XAStore (a : avar) (i v : linexp)                    (* array_store(a, 1, i, v) *)
| XAStoreRange (a : avar) (lb ub v : linexp)           (* array_store_range(a, 1, lb, ub, v) *)
| XALoad (x : var) (a : avar) (i : linexp)             (* x := array_load(a, 1, i) *)
| XAAssign (a a1 : avar).                              (* a := a1 *)

Definition array := Z -> option Z.
Record xstore := mkX { x_int : store; x_bool : bvar -> bool; x_arr : avar -> array }.

Definition set_int (s : xstore) (i : store) : xstore := mkX i (x_bool s) (x_arr s).
Definition upd_int (s : xstore) (x : var) (v : Z) : xstore := set_int s (upd (x_int s) x v).
Definition upd_bool (s : xstore) (b : bvar) (v : bool) : xstore :=
  mkX (x_int s) (fun y => if N.eqb y b then v else x_bool s y) (x_arr s).
Definition upd_arr (s : xstore) (a : avar) (m : array) : xstore :=
  mkX (x_int s) (x_bool s) (fun y => if N.eqb y a then m else x_arr s y).

Definition in_range (l u i : Z) : bool := (l <=? i) && (i <=? u).
(* cells l, l+1, ..., u := v *)
Definition write_range (m : array) (l u v : Z) : array :=
  fun i => if in_range l u i then Some v else m i.
Definition write_cell (m : array) (i v : Z) : array :=
  fun j => if j =? i then Some v else m j.
Definition undef_array : array := fun _ => None.

Definition bool_sem (op : bool_op) (x y : bool) : bool :=
  match op with BAnd => x && y | BOr => x || y | BXor => xorb x y end.

(* events: CfgSem.event (only EvAssume and EvAssert are emitted by statements);
   [Some s'] = normal completion, [None] = the error configuration *)
Inductive exec_x : xstmt -> xstore -> list event -> option xstore -> Prop :=
| XxNum st s ev i' : exec_stmt st (x_int s) ev i' -> exec_x (XNum st) s ev (Some (set_int s i'))
| XxNumFail c id s : satb c (x_int s) = false -> exec_x (XNum (SAssert c id)) s [EvAssert id false] None
| XxBAssign b c s : exec_x (XBAssign b c) s [] (Some (upd_bool s b (satb c (x_int s))))
| XxBCopy b b1 s : exec_x (XBCopy b b1) s [] (Some (upd_bool s b (x_bool s b1)))
| XxBNot b b1 s : exec_x (XBNot b b1) s [] (Some (upd_bool s b (negb (x_bool s b1))))
| XxBBin op b b1 b2 s :
    exec_x (XBBin op b b1 b2) s [] (Some (upd_bool s b (bool_sem op (x_bool s b1) (x_bool s b2))))
| XxBSelect b c b1 b2 s :
    exec_x (XBSelect b c b1 b2) s [] (Some (upd_bool s b (if x_bool s c then x_bool s b1 else x_bool s b2)))
| XxBAssume b s : x_bool s b = true -> exec_x (XBAssume b) s [EvAssume] (Some s)
| XxBNAssume b s : x_bool s b = false -> exec_x (XBNAssume b) s [EvAssume] (Some s)
| XxBAssert b id s : x_bool s b = true -> exec_x (XBAssert b id) s [EvAssert id true] (Some s)
| XxBAssertFail b id s : x_bool s b = false -> exec_x (XBAssert b id) s [EvAssert id false] None
| XxBHavoc b s v : exec_x (XBHavoc b) s [] (Some (upd_bool s b v))
| XxBZext x b s : exec_x (XBZext x b) s [] (Some (upd_int s x (if x_bool s b then 1 else 0)))
| XxAInit a lb ub v s :
    exec_x (XAInit a lb ub v) s []
           (Some (upd_arr s a (write_range undef_array (eval_le lb (x_int s)) (eval_le ub (x_int s))
                                           (eval_le v (x_int s)))))
| XxAStore a i v s :
    exec_x (XAStore a i v) s []
           (Some (upd_arr s a (write_cell (x_arr s a) (eval_le i (x_int s)) (eval_le v (x_int s)))))
| XxAStoreRange a lb ub v s :
    exec_x (XAStoreRange a lb ub v) s []
           (Some (upd_arr s a (write_range (x_arr s a) (eval_le lb (x_int s)) (eval_le ub (x_int s))
                                           (eval_le v (x_int s)))))
| XxALoad x a i s v :
    x_arr s a (eval_le i (x_int s)) = Some v -> exec_x (XALoad x a i) s [] (Some (upd_int s x v))
| XxALoadUndef x a i s v :
    x_arr s a (eval_le i (x_int s)) = None -> exec_x (XALoad x a i) s [] (Some (upd_int s x v))
| XxAAssign a a1 s : exec_x (XAAssign a a1) s [] (Some (upd_arr s a (x_arr s a1))).

(* outputs of the function declaration: integer or boolean variables (a boolean is observed as 0 / 1) *)
Inductive xvar := IVar (x : var) | BVar (b : bvar).
Definition xval (s : xstore) (o : xvar) : Z :=
  match o with IVar x => x_int s x | BVar b => if x_bool s b then 1 else 0 end.
Definition obs_x (outs : list xvar) (s : xstore) : list Z := map (xval s) outs.

Definition xblock := G.block xstmt.
Definition xcfg := G.cfg xstmt (list xvar).
Definition xevent := G.event event (list Z).

Definition step_x : xcfg -> G.config xstmt xstore -> list xevent -> G.config xstmt xstore -> Prop :=
  G.step exec_x obs_x.
Definition star_x : xcfg -> G.config xstmt xstore -> list xevent -> G.config xstmt xstore -> Prop :=
  G.star exec_x obs_x.
Definition exit_obs_x : xcfg -> xstore -> list xevent -> Prop := G.exit_obs exec_x obs_x.
Definition beh_eq_x : xcfg -> xcfg -> Prop := G.beh_eq exec_x obs_x.

(* ------------------------------------------------------------------ the range store writes lb, lb+1, ..., ub *)
Lemma write_range_in m l u v i : l <= i <= u -> write_range m l u v i = Some v.
Proof.
  intros H. unfold write_range, in_range.
  destruct (Z.leb_spec l i); [|lia]. destruct (Z.leb_spec i u); [|lia]. reflexivity.
Qed.
Lemma write_range_out m l u v i : i < l \/ u < i -> write_range m l u v i = m i.
Proof.
  intros H. unfold write_range, in_range.
  destruct (Z.leb_spec l i); destruct (Z.leb_spec i u); simpl; auto; lia.
Qed.
Lemma write_range_spec m l u v i :
  (l <= i <= u -> write_range m l u v i = Some v) /\ ((i < l \/ u < i) -> write_range m l u v i = m i).
Proof. split; [apply write_range_in|apply write_range_out]. Qed.
Lemma write_range_empty m l u v i : u < l -> write_range m l u v i = m i.
Proof. intros H. apply write_range_out. lia. Qed.

(* ------------------------------------------------------------------ the generic theorems at this language *)
Theorem simplify_wf_ext (P Q : xcfg) : G.simplify P = Some Q -> G.wf P -> G.wf Q /\ G.keeps P Q.
Proof. apply G.simplify_wf. Qed.
Theorem simplify_beh_ext (P Q : xcfg) : G.simplify P = Some Q -> G.wf P -> beh_eq_x P Q.
Proof. apply G.simplify_beh. Qed.
Theorem merge_blocks_beh_ext (P Q : xcfg) : G.merge_blocks P = Some Q -> G.wf P -> G.wf Q /\ beh_eq_x P Q.
Proof. apply G.merge_blocks_beh. Qed.
Theorem remove_unreachable_beh_ext (P : xcfg) : G.wf P -> beh_eq_x P (G.remove_unreachable_blocks P).
Proof. apply G.remove_unreachable_beh. Qed.
Theorem remove_useless_beh_ext (P : xcfg) : G.wf P -> beh_eq_x P (G.remove_useless_blocks P).
Proof. apply G.remove_useless_beh. Qed.

(* ------------------------------------------------------------------ non-vacuity
   b0: a0 := array_init(0..9, 0); goto b1.
   b1: b0 := (x0 <= 5);           goto b2.
   b2: array_store_range(a0, 2..4, 7); assert(b0) [1]; goto b3.
   b3 (exit): x1 := array_load(a0, 3).          outputs: x1, b0
   (a chain of four blocks) *)
Definition cst (k : Z) : linexp := mkLE [] k.
Definition ex_chain : xcfg :=
  G.mkCfg 0%N (Some 3%N)
    [(0%N, G.mkBlock [XAInit 0%N (cst 0) (cst 9) (cst 0)] [] [1%N]);
     (1%N, G.mkBlock [XBAssign 0%N (mkLC INEQ (mkLE [(1, 0%N)] (-5)))] [0%N] [2%N]);
     (2%N, G.mkBlock [XAStoreRange 0%N (cst 2) (cst 4) (cst 7); XBAssert 0%N 1%N] [1%N] [3%N]);
     (3%N, G.mkBlock [XALoad 1%N 0%N (cst 3)] [2%N] [])]
    [IVar 1%N; BVar 0%N].

Example ex_chain_wf : G.wf ex_chain.
Proof. apply G.wfb_sound. vm_compute. reflexivity. Qed.

(* b1 and b2 are folded into the entry block (the exit block has no successor, so
   merge_blocks_rec leaves it alone) *)
Definition ex_chain_simplified : xcfg :=
  G.mkCfg 0%N (Some 3%N)
    [(0%N, G.mkBlock [XAInit 0%N (cst 0) (cst 9) (cst 0);
                      XBAssign 0%N (mkLC INEQ (mkLE [(1, 0%N)] (-5)));
                      XAStoreRange 0%N (cst 2) (cst 4) (cst 7); XBAssert 0%N 1%N] [] [3%N]);
     (3%N, G.mkBlock [XALoad 1%N 0%N (cst 3)] [0%N] [])]
    [IVar 1%N; BVar 0%N].
Example ex_chain_simplify : G.simplify ex_chain = Some ex_chain_simplified.
Proof. vm_compute. reflexivity. Qed.
Example ex_chain_merged_block :
  exists Q, G.simplify ex_chain = Some Q /\ G.labels Q = [0%N; 3%N] /\ G.succs Q 0%N = [3%N] /\
  G.stmts_of Q 0%N = [XAInit 0%N (cst 0) (cst 9) (cst 0);
                      XBAssign 0%N (mkLC INEQ (mkLE [(1, 0%N)] (-5)));
                      XAStoreRange 0%N (cst 2) (cst 4) (cst 7); XBAssert 0%N 1%N].
Proof. eexists. split; [vm_compute; reflexivity|]. vm_compute. auto. Qed.

Definition ex_store : xstore := mkX (fun _ => 0) (fun _ => false) (fun _ => undef_array).

(* an execution of the chain that ends at the exit: the load reads the 7 written by the range store *)
Example ex_chain_runs :
  exit_obs_x ex_chain ex_store [G.EvStmt (EvAssert 1%N true); G.EvExit [7; 1]].
Proof.
  unfold exit_obs_x, G.exit_obs. eexists. split.
  - unfold G.init. simpl.
    eapply G.StarStep; [apply G.StStmt; apply XxAInit|].
    eapply G.StarStep; [eapply (G.StGoto _ _ _ _ _ _ _ _ _ 1%N); [simpl; auto|reflexivity]|]. simpl.
    eapply G.StarStep; [apply G.StStmt; apply XxBAssign|].
    eapply G.StarStep; [eapply (G.StGoto _ _ _ _ _ _ _ _ _ 2%N); [simpl; auto|reflexivity]|]. simpl.
    eapply G.StarStep; [apply G.StStmt; apply XxAStoreRange|].
    eapply G.StarStep; [apply G.StStmt; apply XxBAssert; reflexivity|].
    eapply G.StarStep; [eapply (G.StGoto _ _ _ _ _ _ _ _ _ 3%N); [simpl; auto|reflexivity]|]. simpl.
    eapply G.StarStep; [apply G.StStmt; apply (XxALoad _ _ _ _ 7); reflexivity|].
    eapply G.StarStep; [apply G.StExit; reflexivity|]. apply G.StarRefl.
  - reflexivity.
Qed.
(* ... hence, by the theorem, the simplified CFG has an execution with the same observations *)
Example ex_chain_simplified_runs :
  exit_obs_x ex_chain_simplified ex_store [G.EvStmt (EvAssert 1%N true); G.EvExit [7; 1]].
Proof.
  apply (simplify_beh_ext ex_chain ex_chain_simplified ex_chain_simplify ex_chain_wf). exact ex_chain_runs.
Qed.
Example ex_chain_both_run :
  exit_obs_x ex_chain ex_store [G.EvStmt (EvAssert 1%N true); G.EvExit [7; 1]] /\
  exit_obs_x ex_chain_simplified ex_store [G.EvStmt (EvAssert 1%N true); G.EvExit [7; 1]].
Proof. exact (conj ex_chain_runs ex_chain_simplified_runs). Qed.

(* ------------------------------------------------------------------ conservative extension: on the numeric statements
   exec_x is the concrete relation of Ana/SimplifyGenInst.v acting on the integer valuation *)
From CrabV Require Ana.SimplifyGenInst.
Lemma exec_x_num st s ev o :
  exec_x (XNum st) s ev o <->
  exists oi, SimplifyGenInst.exec_c st (x_int s) ev oi /\ o = option_map (set_int s) oi.
Proof.
  split.
  - intros X. inversion X; subst.
    + exists (Some i'). split; [constructor; auto|reflexivity].
    + exists None. split; [constructor; auto|reflexivity].
  - intros [oi [X ->]]. inversion X; subst; simpl.
    + constructor. auto.
    + constructor. auto.
Qed.
