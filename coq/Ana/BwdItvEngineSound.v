(* BwdItvEngineSound.v — property C11 for the backward (necessary preconditions) analyzer
   model Ana/BwdItv.v, WITHOUT a checker: whenever the engine model, run on the reversed CFG
   from the exit block, terminates, the precondition table it returns contains

     error mode: every state at the entry of a block from which some execution, consistent
       with the supplied forward invariants at the block entries it visits, goes on to fail
       an assertion located in a block FROM WHICH THE EXIT BLOCK CAN BE REACHED IN THE CFG;
     good mode:  every state from which such an execution finishes the exit block in one of
       the final states (the whole predicate Good of Ana/BackwardCheck.v).

   The restriction in error mode is what is true of the code: the backward iteration starts
   at the exit block and follows the CFG edges backwards, so a block that cannot reach the
   exit (a dead end) is never visited and the violations of its assertions are not
   propagated (known finding C11 "deadend"; refuted for the unrestricted predicate Bad by
   [bwd_run_deadend_not_covered] below).  When every block can reach the exit — a condition
   decided on the ordering itself — the conclusion is literally that of the table theorems of
   Ana/BackwardCheck.v ([bwd_run_error_sound_Bad]).

   Instance of Fix/EngineSound.v: the backward analysis is the forward analysis of the
   reversed graph whose collecting semantics is backward reachability.  Concrete "states" are
   [option store]: [Some a] is a store, [None] is a token that marks the blocks that can reach
   the exit; the token flows from the exit block backwards along every edge, and in error
   mode the reversed block relation turns the token at the end of a block into every store
   at its entry that fails one of its assertions (the error states arise inside blocks). *)
From Coq Require Import ZArith NArith List Bool Arith Lia.
From CrabV Require Import Base.ZInf Scalar.Itv Ir.Syntax Ir.Cfg Dom.ItvEnv Dom.ItvEnvSound Dom.ItvDomain
     Dom.ItvDomainSound
     Fix.Wto Fix.WtoCheck Fix.WtoSound Fix.WtoTotal Fix.WtoRoot Fix.Engine Fix.EngineBelow Fix.EngineCheck Fix.EngineRel
     Fix.EngineFS Fix.EngineSound
     Ana.Transformer Ana.FwdItv Ana.FwdItvSound Ana.FwdItvEngineSound
     Ana.Backward Ana.BackwardSound Ana.BackwardCheck Ana.BwdItv.
Import ListNotations.

(* ------------------------------------------------------------------ the reversed graph *)
Lemma p_rev_graph_succs : forall p q, q < length (p_blocks p) ->
  succs (p_rev_graph p) q = dedup (p_preds p q).
Proof.
  intros p q L. unfold succs, p_rev_graph.
  rewrite (nth_indep _ [] (dedup (p_preds p 0))) by (rewrite map_length, seq_length; exact L).
  rewrite (map_nth (fun n => dedup (p_preds p n))), seq_nth by exact L. reflexivity.
Qed.
Lemma p_rev_graph_succs_out : forall p q, ~ q < length (p_blocks p) -> succs (p_rev_graph p) q = [].
Proof.
  intros p q L. unfold succs, p_rev_graph. apply nth_overflow.
  rewrite map_length, seq_length. lia.
Qed.

(* an edge of the reversed graph is a CFG edge, reversed *)
Lemma rev_graph_edge : forall p n q, In n (succs (p_rev_graph p) q) -> In q (p_succs p n).
Proof.
  intros p n q I. destruct (lt_dec q (length (p_blocks p))) as [L|L].
  - rewrite p_rev_graph_succs in I by exact L. apply (proj1 (dedup_In _ _)) in I.
    apply (proj2 (p_succs_edge _ _ _)). apply (proj1 (p_preds_edge _ _ _)). exact I.
  - rewrite p_rev_graph_succs_out in I by exact L. destruct I.
Qed.
Lemma succs_in_rev_graph : forall p, prog_wfb p = true ->
  forall n q, In q (p_succs p n) -> In n (succs (p_rev_graph p) q).
Proof.
  intros p W n q I. unfold prog_wfb in W. apply andb_true_iff in W. destruct W as [_ ED].
  apply (proj1 (p_succs_edge _ _ _)) in I. rewrite forallb_forall in ED. pose proof (ED _ I) as R.
  cbn [fst snd] in R. apply andb_true_iff in R. destruct R as [_ R]. apply Nat.ltb_lt in R.
  rewrite p_rev_graph_succs by exact R. apply (proj2 (dedup_In _ _)). apply (proj2 (p_preds_edge _ _ _)). exact I.
Qed.
Lemma succs_src_in_range : forall p, prog_wfb p = true ->
  forall n q, In q (p_succs p n) -> n < length (p_blocks p).
Proof.
  intros p W n q I. unfold prog_wfb in W. apply andb_true_iff in W. destruct W as [_ ED].
  apply (proj1 (p_succs_edge _ _ _)) in I. rewrite forallb_forall in ED. pose proof (ED _ I) as R.
  cbn [fst snd] in R. apply andb_true_iff in R. destruct R as [R _]. apply Nat.ltb_lt in R. exact R.
Qed.

Lemma wto_mem_In : forall x w, wto_mem x w = true <-> In x (flat w).
Proof.
  intros x. induction w as [|c r IH]; cbn [wto_mem flat].
  - split; [discriminate|intros []].
  - rewrite orb_true_iff, in_app_iff, IH, comp_member_In. tauto.
Qed.

(* the ordering of the reversed graph always exists *)
Lemma rev_graph_wf : forall p, prog_wfb p = true -> graph_wf (p_rev_graph p).
Proof.
  intros p W a b HI. unfold p_rev_graph. rewrite map_length, seq_length.
  exact (succs_src_in_range p W b a (rev_graph_edge p b a HI)).
Qed.
Lemma wto_build_rev_total : forall p exit_block, prog_wfb p = true -> exit_block < length (p_blocks p) ->
  exists wrev, wto_build (p_rev_graph p) exit_block = Some wrev.
Proof.
  intros p ex W L. unfold wto_build. apply build_total; [exact (rev_graph_wf p W)|].
  unfold p_rev_graph. rewrite map_length, seq_length. exact L.
Qed.

Section BwdEngine.
  Variable p : prog.
  Variable fresh : var.
  Variable good : bool.
  Variable exit_block : nat.
  Variable final : env.                 (* postcondition at the exit block *)
  Variable finv : nat -> env.           (* forward invariants at block entries: arbitrary *)

  (* ---------------------------------------------------------------- concrete side *)
  (* the blocks from which the exit block can be reached along CFG edges *)
  Inductive reaches_exit : nat -> Prop :=
  | re_exit : reaches_exit exit_block
  | re_step n s : In s (p_succs p n) -> reaches_exit s -> reaches_exit n.

  (* error mode: Bad of BackwardCheck.v, for assertions located in blocks that can reach the
     exit (then so can every block the execution visits) *)
  Inductive BadR : nat -> store -> Prop :=
  | BadR_here n a id : reaches_exit n -> genv (finv n) a -> bfails (p_block p n) a id -> BadR n a
  | BadR_later n a b s : genv (finv n) a -> bstep (p_block p n) a b -> In s (p_succs p n) ->
      BadR s b -> BadR n a.

  Lemma BadR_reaches : forall n a, BadR n a -> reaches_exit n.
  Proof.
    induction 1 as [n a id R _ _|n a b s _ _ I _ IH]; [exact R|]. exact (re_step n s I IH).
  Qed.

  (* BadR is Bad restricted: nothing else is added *)
  Lemma BadR_Bad : prog_wfb p = true -> forall n a, BadR n a -> Bad p finv n a.
  Proof.
    intros W. induction 1 as [n a id R GI F|n a b s GI ST I _ IH].
    - apply Bad_here with id; [|exact GI|exact F].
      destruct (lt_dec n (length (p_blocks p))) as [L|L]; [exact L|exfalso].
      unfold p_block in F. rewrite nth_overflow in F by lia. exact F.
    - apply Bad_later with b s; [|exact GI|exact ST|exact I|exact IH].
      exact (succs_src_in_range p W n s I).
  Qed.
  Lemma Bad_BadR : (forall m, m < length (p_blocks p) -> reaches_exit m) ->
    forall n a, Bad p finv n a -> BadR n a.
  Proof.
    intros ALL. induction 1 as [n a id L GI F|n a b s L GI ST I _ IH].
    - exact (BadR_here n a id (ALL n L) GI F).
    - exact (BadR_later n a b s GI ST I IH).
  Qed.

  (* states of the backward collecting semantics: a store, or the token "the exit block can be
     reached from here" *)
  Definition bstate : Type := option store.
  Definition bgamma (a : env) (s : bstate) : Prop :=
    match s with None => True | Some x => genv a x end.
  Definition bInit (s : bstate) : Prop :=
    match s with None => True | Some b => genv final b end.
  (* block n, backwards: from what holds at its end to what holds at its entry *)
  Definition rstep (n : nat) (after before : bstate) : Prop :=
    match after, before with
    | None, None => True
    | None, Some a => good = false /\ genv (finv n) a /\ exists id, bfails (p_block p n) a id
    | Some b, Some a => genv (finv n) a /\ bstep (p_block p n) a b
    | Some _, None => False
    end.

  Definition BRPre := RPre env bstate bgamma rstep (p_succs p) exit_block false (fun _ => None) bInit.
  Definition BRPost := RPost env bstate bgamma rstep (p_succs p) exit_block false (fun _ => None) bInit.

  Lemma reaches_token : forall n, reaches_exit n -> BRPre n None /\ BRPost n None.
  Proof.
    assert (ST : forall n, BRPre n None -> BRPost n None).
    { intros n H. apply RPo with None; [exact H|exact I]. }
    induction 1 as [|n s HI _ [_ IH]].
    - assert (H : BRPre exit_block None) by (apply RP_init; exact I).
      split; [exact H|exact (ST _ H)].
    - assert (H : BRPre n None) by (apply RP_edge with s; [exact HI|exact IH|exact I]).
      split; [exact H|exact (ST _ H)].
  Qed.

  Lemma BadR_collected : good = false -> forall n a, BadR n a -> BRPost n (Some a).
  Proof.
    intros GM. induction 1 as [n a id R GI F|n a b s GI ST HI _ IH].
    - apply RPo with None; [exact (proj1 (reaches_token n R))|].
      cbn [rstep]. split; [exact GM|]. split; [exact GI|]. exists id. exact F.
    - apply RPo with (Some b).
      + apply RP_edge with s; [exact HI|exact IH|exact I].
      + cbn [rstep]. split; [exact GI|exact ST].
  Qed.

  Lemma Good_collected : forall n a, Good p exit_block final finv n a -> BRPost n (Some a).
  Proof.
    induction 1 as [a b L GI ST GF|n a b s L GI ST HI _ IH].
    - apply RPo with (Some b).
      + apply RP_init; [exact GF|exact I].
      + cbn [rstep]. split; [exact GI|exact ST].
    - apply RPo with (Some b).
      + apply RP_edge with s; [exact HI|exact IH|exact I].
      + cbn [rstep]. split; [exact GI|exact ST].
  Qed.

  (* ---------------------------------------------------------------- abstract side *)
  Hypothesis p_wf : prog_wfb p = true.                                (* edges between existing blocks *)
  Hypothesis p_ok : forallb block_bwd_ok (p_blocks p) = true.         (* fragment of BackwardSound.v *)

  Lemma bwd_block_rstep : forall n a s s',
    bgamma a s -> rstep n s s' ->
    bgamma (bwd_block fresh good (p_block p n) (finv n) a) s'.
  Proof.
    intros n a s s' G ST.
    pose proof (blocks_ok p n p_ok) as BO.
    destruct s as [b|]; destruct s' as [x|]; cbn [rstep bgamma] in *.
    - destruct ST as [GI ST]. exact (bwd_block_sound fresh good (p_block p n) (finv n) a x b BO ST G GI).
    - exact I.
    - destruct ST as [GM [GI [id F]]]. rewrite GM.
      exact (bwd_block_error_sound fresh (p_block p n) (finv n) a x id BO F GI).
    - exact I.
  Qed.

  Variables delay desc fuel : nat.

  Definition bwd_engine (wrev : wto) : option (est env) :=
    run env itv_ops (fun n post => bwd_block fresh good (p_block p n) (finv n) post)
        (p_succs p) (nest_of wrev) exit_block delay desc false (fun _ => None) final fuel wrev.

  (* the engine's soundness on the reversed graph: any ordering satisfying property C07 for
     the reversed graph, any start block of that ordering *)
  Theorem bwd_engine_sound_WF : forall e0 nst dom wrev e,
    WF (p_rev_graph p) e0 wrev nst dom -> In exit_block (flat wrev) ->
    bwd_engine wrev = Some e ->
    (forall n s, BRPre n s -> bgamma (e_pre env e n) s) /\
    (forall n s, BRPost n s -> bgamma (e_post env e n) s).
  Proof.
    intros e0 nst dom wrev e W IE RUN. unfold bwd_engine in RUN. unfold BRPre, BRPost.
    refine (engine_sound_WF env bstate bgamma itv_ops _ _ _ _ _
             (fun n post => bwd_block fresh good (p_block p n) (finv n) post) rstep
             bwd_block_rstep
             (p_succs p) (nest_of wrev) exit_block delay desc false (fun _ => None) bInit final _ fuel
             (p_rev_graph p) e0 nst dom wrev W
             (fun n q I _ => succs_in_rev_graph p p_wf n q I) IE e RUN).
    - intros a b [s|] H; [|exact I]. exact (e_join_sound a b s (or_introl H)).
    - intros a b [s|] H; [|exact I]. exact (e_join_sound a b s (or_intror H)).
    - intros a b [s|] H1 H2; [|exact I]. exact (e_meet_sound a b s H1 H2).
    - intros a b [s|] H1 H2; [|exact I]. exact (e_narrow_sound a b s H1 H2).
    - intros a b [s|] L G; [|exact I]. exact (e_leq_sound a b s L G).
    - intros [s|] H; [exact H|exact I].
  Qed.

  Lemma bwd_run_table : forall wrev table,
    bwd_run p wrev exit_block delay desc fuel fresh good finv final = Some table ->
    exists e, bwd_engine wrev = Some e /\
              table = fun n => if wto_mem n wrev then e_post env e n else e_top.
  Proof.
    intros wrev table RUN. unfold bwd_run in RUN. fold (bwd_engine wrev) in RUN.
    destruct (bwd_engine wrev) as [e|]; [|discriminate].
    exists e. split; [reflexivity|]. inversion RUN. reflexivity.
  Qed.

  Lemma table_sound : forall wrev e n a,
    genv (e_post env e n) a ->
    genv (if wto_mem n wrev then e_post env e n else e_top) a.
  Proof. intros wrev e n a G. destruct (wto_mem n wrev); [exact G|apply genv_top]. Qed.

  (* the table of the model, any well-formed ordering of the reversed graph that contains the
     exit block *)
  Theorem bwd_run_good_sound_WF : forall e0 nst dom wrev table,
    WF (p_rev_graph p) e0 wrev nst dom -> In exit_block (flat wrev) ->
    bwd_run p wrev exit_block delay desc fuel fresh good finv final = Some table ->
    forall n a, Good p exit_block final finv n a -> genv (table n) a.
  Proof.
    intros e0 nst dom wrev table W IE RUN n a G.
    destruct (bwd_run_table wrev table RUN) as [e [RE ->]].
    destruct (bwd_engine_sound_WF e0 nst dom wrev e W IE RE) as [_ S].
    apply table_sound. exact (S n (Some a) (Good_collected n a G)).
  Qed.

  Theorem bwd_run_error_sound_WF : good = false -> forall e0 nst dom wrev table,
    WF (p_rev_graph p) e0 wrev nst dom -> In exit_block (flat wrev) ->
    bwd_run p wrev exit_block delay desc fuel fresh good finv final = Some table ->
    forall n a, BadR n a -> genv (table n) a.
  Proof.
    intros GM e0 nst dom wrev table W IE RUN n a B.
    destruct (bwd_run_table wrev table RUN) as [e [RE ->]].
    destruct (bwd_engine_sound_WF e0 nst dom wrev e W IE RE) as [_ S].
    apply table_sound. exact (S n (Some a) (BadR_collected GM n a B)).
  Qed.

  (* the blocks of the ordering built from the exit block are those that can reach the exit *)
  Lemma wrev_reaches_exit : forall nst dom wrev,
    WF (p_rev_graph p) exit_block wrev nst dom ->
    forall m, In m (flat wrev) <-> reaches_exit m.
  Proof.
    intros nst dom wrev W m. rewrite (wf_reach _ _ _ _ _ W m). split.
    - induction 1 as [|u v _ IH I]; [apply re_exit|].
      exact (re_step v u (rev_graph_edge p v u I) IH).
    - induction 1 as [|n s I _ IH]; [apply reach_refl|].
      apply reach_step with s; [exact IH|]. exact (succs_in_rev_graph p p_wf n s I).
  Qed.
End BwdEngine.

(* ------------------------------------------------------------------ the model as it is run:
   the ordering computed by the model of wto.hpp for the reversed graph, from the exit block *)
Theorem bwd_run_good_sound : forall p fresh good exit_block final finv delay desc fuel wrev table,
  prog_wfb p = true -> forallb block_bwd_ok (p_blocks p) = true ->
  wto_build (p_rev_graph p) exit_block = Some wrev ->
  bwd_run p wrev exit_block delay desc fuel fresh good finv final = Some table ->
  forall n a, Good p exit_block final finv n a -> genv (table n) a.
Proof.
  intros p fresh good ex final finv delay desc fuel wrev table W OK BU RUN.
  unfold wto_build in BU. destruct (build_entry_ok _ _ _ BU) as [_ [IE _]].
  exact (bwd_run_good_sound_WF p fresh good ex final finv W OK delay desc fuel ex _ _ wrev table
           (build_WF _ _ _ BU) IE RUN).
Qed.

Theorem bwd_run_error_sound : forall p fresh exit_block final finv delay desc fuel wrev table,
  prog_wfb p = true -> forallb block_bwd_ok (p_blocks p) = true ->
  wto_build (p_rev_graph p) exit_block = Some wrev ->
  bwd_run p wrev exit_block delay desc fuel fresh false finv final = Some table ->
  forall n a, BadR p exit_block finv n a -> genv (table n) a.
Proof.
  intros p fresh ex final finv delay desc fuel wrev table W OK BU RUN.
  unfold wto_build in BU. destruct (build_entry_ok _ _ _ BU) as [_ [IE _]].
  exact (bwd_run_error_sound_WF p fresh false ex final finv W OK delay desc fuel eq_refl ex _ _ wrev table
           (build_WF _ _ _ BU) IE RUN).
Qed.

(* when every block can reach the exit (decided on the ordering): the conclusion of
   bwd_tables_error_sound, for the unrestricted predicate Bad *)
Definition all_blocks_reach_exit (p : prog) (wrev : wto) : bool :=
  forallb (fun m => wto_mem m wrev) (seq 0 (length (p_blocks p))).

Theorem bwd_run_error_sound_Bad : forall p fresh exit_block final finv delay desc fuel wrev table,
  prog_wfb p = true -> forallb block_bwd_ok (p_blocks p) = true ->
  wto_build (p_rev_graph p) exit_block = Some wrev ->
  all_blocks_reach_exit p wrev = true ->
  bwd_run p wrev exit_block delay desc fuel fresh false finv final = Some table ->
  forall n a, Bad p finv n a -> genv (table n) a.
Proof.
  intros p fresh ex final finv delay desc fuel wrev table W OK BU ALL RUN n a B.
  apply (bwd_run_error_sound p fresh ex final finv delay desc fuel wrev table W OK BU RUN).
  apply Bad_BadR; [|exact B]. intros m L.
  unfold wto_build in BU.
  apply (wrev_reaches_exit p ex W _ _ wrev (build_WF _ _ _ BU)).
  unfold all_blocks_reach_exit in ALL. rewrite forallb_forall in ALL.
  apply wto_mem_In. apply ALL. apply in_seq. lia.
Qed.

Corollary bwd_run_empty_entry_means_no_violation :
  forall p fresh exit_block final finv delay desc fuel wrev table,
  prog_wfb p = true -> forallb block_bwd_ok (p_blocks p) = true ->
  wto_build (p_rev_graph p) exit_block = Some wrev ->
  all_blocks_reach_exit p wrev = true ->
  bwd_run p wrev exit_block delay desc fuel fresh false finv final = Some table ->
  e_is_bot (table 0) = true -> forall a, ~ Bad p finv 0 a.
Proof.
  intros p fresh ex final finv delay desc fuel wrev table W OK BU ALL RUN B a H.
  eapply e_is_bot_sound; [exact B|].
  exact (bwd_run_error_sound_Bad p fresh ex final finv delay desc fuel wrev table W OK BU ALL RUN 0 a H).
Qed.

(* ------------------------------------------------------------------ examples *)
(* non-vacuity.  b0: assume 1 <= y <= 5; b1: loop head; b2: havoc z (loop body);
   b3: x := y / 2; assert (x >= 2); b4: exit.  No forward invariants (top). *)
Definition ex_prog : prog :=
  mkProg [[SAssume (mkLC INEQ (mkLE [((-1)%Z, 1%N)] 1)); SAssume (mkLC INEQ (mkLE [(1%Z, 1%N)] (-5)))];
          [];
          [SHavoc 2%N];
          [SArith OpSDiv 0%N 1%N (OCst 2); SAssert (mkLC INEQ (mkLE [((-1)%Z, 0%N)] 2)) 1];
          []]
         [(0,1); (1,2); (2,1); (1,3); (3,4)].

Lemma ex_hyps : prog_wfb ex_prog = true /\ forallb block_bwd_ok (p_blocks ex_prog) = true /\
  wto_build (p_rev_graph ex_prog) 4 = Some [Vertex 4; Vertex 3; Cycle 1 [Vertex 2]; Vertex 0] /\
  all_blocks_reach_exit ex_prog [Vertex 4; Vertex 3; Cycle 1 [Vertex 2]; Vertex 0] = true.
Proof. repeat split; vm_compute; reflexivity. Qed.

(* error mode (final states: none): the entry precondition of a violation is y in [1,3];
   the state y = 2 does lead to a violation *)
Example bwd_run_error_sound_example :
  let wrev := [Vertex 4; Vertex 3; Cycle 1 [Vertex 2]; Vertex 0] in
  exists table,
    bwd_run ex_prog wrev 4 1 1 100 99%N false (fun _ => e_top) EBot = Some table /\
    e_at (table 0) 1%N = mkI (Fin 1) (Fin 3) /\
    (forall n a, Bad ex_prog (fun _ => e_top) n a -> genv (table n) a) /\
    Bad ex_prog (fun _ => e_top) 0 (fun _ => 2%Z).
Proof.
  cbv zeta. destruct ex_hyps as [W [OK [BU ALL]]].
  eexists. split; [vm_compute; reflexivity|]. split; [vm_compute; reflexivity|]. split.
  - refine (bwd_run_error_sound_Bad ex_prog 99%N 4 EBot (fun _ => e_top) 1 1 100 _ _ W OK BU ALL _).
    vm_compute; reflexivity.
  - apply Bad_later with (b := fun _ => 2%Z) (s := 1); [vm_compute; lia|apply genv_top| |vm_compute; tauto|].
    { exists (fun _ => 2%Z). split; [split; [unfold sat; vm_compute; discriminate|reflexivity]|].
      exists (fun _ => 2%Z). split; [split; [unfold sat; vm_compute; discriminate|reflexivity]|reflexivity]. }
    apply Bad_later with (b := fun _ => 2%Z) (s := 3); [vm_compute; lia|apply genv_top|reflexivity|vm_compute; tauto|].
    apply Bad_here with (id := 1); [vm_compute; lia|apply genv_top|].
    right. exists (Syntax.upd (fun _ => 2%Z) 0%N 1%Z). split.
    + exists 1%Z. split; reflexivity.
    + left. split; [reflexivity|]. unfold sat. vm_compute. intros H; apply H; reflexivity.
Qed.

(* good mode (final states: all): the executions that finish the exit block start with
   y in [3,5]; y = 4 is one of them *)
Example bwd_run_good_sound_example :
  let wrev := [Vertex 4; Vertex 3; Cycle 1 [Vertex 2]; Vertex 0] in
  exists table,
    bwd_run ex_prog wrev 4 1 1 100 99%N true (fun _ => e_top) e_top = Some table /\
    e_at (table 0) 1%N = mkI (Fin 3) (Fin 5) /\
    (forall n a, Good ex_prog 4 e_top (fun _ => e_top) n a -> genv (table n) a) /\
    Good ex_prog 4 e_top (fun _ => e_top) 0 (fun _ => 4%Z).
Proof.
  cbv zeta. destruct ex_hyps as [W [OK [BU _]]].
  eexists. split; [vm_compute; reflexivity|]. split; [vm_compute; reflexivity|]. split.
  - refine (bwd_run_good_sound ex_prog 99%N true 4 e_top (fun _ => e_top) 1 1 100 _ _ W OK BU _).
    vm_compute; reflexivity.
  - apply Good_later with (b := fun _ => 4%Z) (s := 1); [vm_compute; lia|apply genv_top| |vm_compute; tauto|].
    { exists (fun _ => 4%Z). split; [split; [unfold sat; vm_compute; discriminate|reflexivity]|].
      exists (fun _ => 4%Z). split; [split; [unfold sat; vm_compute; discriminate|reflexivity]|reflexivity]. }
    apply Good_later with (b := fun _ => 4%Z) (s := 3); [vm_compute; lia|apply genv_top|reflexivity|vm_compute; tauto|].
    apply Good_later with (b := Syntax.upd (fun _ => 4%Z) 0%N 2%Z) (s := 4);
      [vm_compute; lia|apply genv_top| |vm_compute; tauto|].
    { exists (Syntax.upd (fun _ => 4%Z) 0%N 2%Z). split; [exists 2%Z; split; reflexivity|].
      exists (Syntax.upd (fun _ => 4%Z) 0%N 2%Z). split; [|reflexivity].
      split; [unfold sat; vm_compute; discriminate|reflexivity]. }
    apply Good_exit with (b := Syntax.upd (fun _ => 4%Z) 0%N 2%Z);
      [vm_compute; lia|apply genv_top|reflexivity|apply genv_top].
Qed.

(* the restriction of the error-mode theorem is necessary (known finding C11 "deadend"):
   b0: x := 0; b1: assert (x >= 1), no successor; b2: x := 0; b3: exit; edges b0->b1, b0->b2,
   b2->b3.  Block b1 cannot reach the exit and is not visited: the model reports the
   precondition bottom for b0 although every execution from b0 through b1 violates the
   assertion.  (The C++ prints the same table.) *)
Example bwd_run_deadend_not_covered :
  let p := mkProg [[SAssign 0%N (mkLE [] 0)];
                   [SAssert (mkLC INEQ (mkLE [((-1)%Z, 0%N)] 1)) 1];
                   [SAssign 0%N (mkLE [] 0)];
                   []]
                  [(0,1); (0,2); (2,3)] in
  let wrev := [Vertex 3; Vertex 2; Vertex 0] in
  prog_wfb p = true /\ forallb block_bwd_ok (p_blocks p) = true /\
  wto_build (p_rev_graph p) 3 = Some wrev /\
  all_blocks_reach_exit p wrev = false /\
  exists table,
    bwd_run p wrev 3 1 1 100 99%N false (fun _ => e_top) EBot = Some table /\
    e_is_bot (table 0) = true /\
    forall a, Bad p (fun _ => e_top) 0 a /\ ~ genv (table 0) a /\ ~ BadR p 3 (fun _ => e_top) 0 a.
Proof.
  cbv zeta.
  set (p := mkProg [[SAssign 0%N (mkLE [] 0)]; [SAssert (mkLC INEQ (mkLE [((-1)%Z, 0%N)] 1)) 1];
                    [SAssign 0%N (mkLE [] 0)]; []] [(0,1); (0,2); (2,3)]).
  assert (W : prog_wfb p = true) by (vm_compute; reflexivity).
  assert (OK : forallb block_bwd_ok (p_blocks p) = true) by (vm_compute; reflexivity).
  assert (BU : wto_build (p_rev_graph p) 3 = Some [Vertex 3; Vertex 2; Vertex 0]) by (vm_compute; reflexivity).
  split; [exact W|]. split; [exact OK|]. split; [exact BU|]. split; [vm_compute; reflexivity|].
  assert (RUN : exists table,
            bwd_run p [Vertex 3; Vertex 2; Vertex 0] 3 1 1 100 99%N false (fun _ => e_top) EBot = Some table /\
            e_is_bot (table 0) = true).
  { eexists. split; vm_compute; reflexivity. }
  destruct RUN as [table [RUN B0]]. exists table. split; [exact RUN|]. split; [exact B0|].
  intros a. split; [|split].
  - apply Bad_later with (b := Syntax.upd a 0%N 0%Z) (s := 1);
      [vm_compute; lia|apply genv_top| |vm_compute; tauto|].
    { exists (Syntax.upd a 0%N 0%Z). split; [|reflexivity]. cbn [sstep]. f_equal. }
    apply Bad_here with (id := 1); [vm_compute; lia|apply genv_top|].
    left. split; [reflexivity|]. unfold sat. vm_compute. intros H; apply H; reflexivity.
  - apply e_is_bot_sound. exact B0.
  - intros BR. eapply e_is_bot_sound; [exact B0|].
    exact (bwd_run_error_sound p 99%N 3 EBot (fun _ => e_top) 1 1 100 _ table W OK BU RUN 0 a BR).
Qed.

(* hence the unrestricted error-mode statement does not hold of the model (nor of the C++) *)
Definition bwd_model_error_unrestricted_statement : Prop :=
  forall p fresh exit_block final finv delay desc fuel wrev table,
  prog_wfb p = true -> forallb block_bwd_ok (p_blocks p) = true ->
  wto_build (p_rev_graph p) exit_block = Some wrev ->
  bwd_run p wrev exit_block delay desc fuel fresh false finv final = Some table ->
  forall n a, Bad p finv n a -> genv (table n) a.
Lemma bwd_model_error_unrestricted_refuted : ~ bwd_model_error_unrestricted_statement.
Proof.
  intros ST. destruct bwd_run_deadend_not_covered as [W [OK [BU [_ [table [RUN [_ H]]]]]]].
  destruct (H (fun _ => 0%Z)) as [B [N _]]. apply N.
  exact (ST _ _ _ _ _ _ _ _ _ _ W OK BU RUN 0 _ B).
Qed.
