(* Simplify.v — model of cfg::simplify() of cfg/cfg.hpp (after fix transforms-3) and of
   transforms/lower_safe_assertions.hpp.

   simplify = merge_blocks; remove_unreachable_blocks; remove_useless_blocks; merge_blocks.

   * merge_blocks_rec is the recursive DFS over the insertion-ordered successor vectors with
     its `visited` set: a block with exactly one successor and one predecessor, which is
     not the entry, whose predecessor is not the exit and which is the only successor of
     that predecessor, is appended to the predecessor (copy_back), erased from `visited`, the exit is relabelled if it was the
     block, the block is removed (cfg::remove), the edge parent -> child is added
     (insert_adjacent: appended if absent) and the DFS continues at the child.  Otherwise
     the DFS visits the successors (the range is the one taken when the loop starts: with
     one successor the loop ends after it, with several the vector cannot change).
   * cfg::remove(b) erases b from the successor vector of its predecessors and from the
     predecessor vector of its successors; on a CFG with symmetric edges (the only ones
     basic_block::operator>> and -= can build) this is: erase b from every vector.
   * remove_unreachable_blocks keeps the exit, remove_useless_blocks keeps the entry.
   * lower_safe_assertions replaces each listed assert by an assume of the same constraint. *)
From Coq Require Import ZArith List Bool.
From CrabV Require Import Ir.Syntax Ana.CfgSem.
Import ListNotations.

Definition remove_adjacent (c : list label) (e : label) : list label :=
  filter (fun x => negb (N.eqb x e)) c.
Definition insert_adjacent (c : list label) (e : label) : list label :=
  if mem e c then c else c ++ [e].

Definition map_block (f : label -> block -> block) (P : cfg) : cfg :=
  mkCfg (c_entry P) (c_exit P) (map (fun lb => (fst lb, f (fst lb) (snd lb))) (c_blocks P)) (c_outs P).

(* cfg::remove(b), b neither entry nor exit *)
Definition remove_block (P : cfg) (b : label) : cfg :=
  mkCfg (c_entry P) (c_exit P)
        (map (fun lb => (fst lb, mkBlock (b_stmts (snd lb)) (remove_adjacent (b_prev (snd lb)) b)
                                         (remove_adjacent (b_next (snd lb)) b)))
             (filter (fun lb => negb (N.eqb (fst lb) b)) (c_blocks P)))
        (c_outs P).

(* a >> b *)
Definition add_edge (P : cfg) (a b : label) : cfg :=
  map_block (fun l blk =>
    mkBlock (b_stmts blk)
            (if N.eqb l b then insert_adjacent (b_prev blk) a else b_prev blk)
            (if N.eqb l a then insert_adjacent (b_next blk) b else b_next blk)) P.

(* parent.copy_back(cur) *)
Definition copy_back (P : cfg) (parent : label) (ss : list stmt) : cfg :=
  map_block (fun l blk => if N.eqb l parent then mkBlock (b_stmts blk ++ ss) (b_prev blk) (b_next blk) else blk) P.

Definition set_exit (P : cfg) (e : label) : cfg := mkCfg (c_entry P) (Some e) (c_blocks P) (c_outs P).

(* the folding step of merge_blocks_rec *)
Definition fold_into_parent (P : cfg) (cur parent child : label) (cb : block) : cfg :=
  let P1 := copy_back P parent (b_stmts cb) in
  let P2 := if is_exit P1 cur then set_exit P1 parent else P1 in
  let P3 := remove_block P2 cur in
  add_edge P3 parent child.

Definition has_one (c : list label) : bool := match c with [_] => true | _ => false end.

(* for (n : cur.next_blocks()) rec(n) *)
Fixpoint visit_list (rec : cfg -> vset -> label -> option (cfg * vset)) (ns : list label)
         (st : cfg * vset) : option (cfg * vset) :=
  match ns with
  | [] => Some st
  | n :: r => match rec (fst st) (snd st) n with
              | None => None
              | Some st' => visit_list rec r st'
              end
  end.

Fixpoint merge_rec (fuel : nat) (P : cfg) (visited : vset) (cur : label) {struct fuel}
  : option (cfg * vset) :=
  match fuel with
  | O => None
  | S f =>
    if mem cur visited then Some (P, visited)
    else
      let visited := cur :: visited in
      match get_block P cur with
      | None => None
      | Some cb =>
        let visit_children := visit_list (merge_rec f) (b_next cb) (P, visited) in
        match b_next cb, b_prev cb with
        | [child], [parent] =>
          match get_block P parent with
          | None => None
          | Some pb =>
            if negb (N.eqb cur (c_entry P)) && negb (is_exit P parent) && has_one (b_next pb) then
              merge_rec f (fold_into_parent P cur parent child cb)
                        (remove_adjacent visited cur) child
            else visit_children
          end
        | _, _ => visit_children
        end
      end
  end.

Definition merge_fuel (P : cfg) : nat := S (S (2 * length (c_blocks P))).

Definition merge_blocks (P : cfg) : option cfg :=
  match merge_rec (merge_fuel P) P [] (c_entry P) with
  | Some (P', _) => Some P'
  | None => None
  end.

(* mark_alive_blocks: reachability through `next` from a root *)
Fixpoint closure (next : label -> list label) (fuel : nat) (S : vset) : vset :=
  match fuel with
  | O => S
  | Datatypes.S n => closure next n (fold_right (fun l acc => union (next l) acc) S S)
  end.

(* the fuel (number of blocks) always suffices; the model validates the result (closed under
   `next`) so that the theorems need no counting argument: should the validation fail (it never
   does) every block counts as marked and nothing is removed *)
Definition closedb (next : label -> list label) (S : vset) : bool :=
  forallb (fun l => subset (next l) S) S.
Definition marked (P : cfg) (next : label -> list label) (root : label) : vset :=
  let S := closure next (length (c_blocks P)) [root] in
  if closedb next S then S else root :: labels P.

Definition alive (P : cfg) : vset := marked P (succs P) (c_entry P).
Definition useful (P : cfg) (e : label) : vset := marked P (preds P) e.

Definition remove_all (P : cfg) (bs : list label) : cfg := fold_left remove_block bs P.

Definition remove_unreachable_blocks (P : cfg) : cfg :=
  let al := alive P in
  remove_all P (filter (fun l => negb (mem l al) && negb (is_exit P l)) (labels P)).

Definition remove_useless_blocks (P : cfg) : cfg :=
  match c_exit P with
  | None => P
  | Some e =>
    let us := useful P e in
    remove_all P (filter (fun l => negb (mem l us) && negb (N.eqb l (c_entry P))) (labels P))
  end.

Definition simplify (P : cfg) : option cfg :=
  match merge_blocks P with
  | None => None
  | Some P1 => merge_blocks (remove_useless_blocks (remove_unreachable_blocks P1))
  end.

(* lower_safe_assertions *)
Definition lower_stmt (safe : vset) (s : stmt) : stmt :=
  match s with
  | SAssert c a => if mem a safe then SAssume c else s
  | _ => s
  end.
Definition lower (safe : vset) (P : cfg) : cfg :=
  map_block (fun _ blk => mkBlock (map (lower_stmt safe) (b_stmts blk)) (b_prev blk) (b_next blk)) P.
