(* Proofs about Ana/RefCst.v: reference_constraint::negate() is the exact logical negation on every
   constraint the factory functions build (and on null < null / null <= null), it stays inside that
   set and is an involution on it; is_tautology / is_contradiction agree with the meaning; the rule
   of assert_property_checker::check(assert_ref_t&) is sound for every abstract domain whose
   ref_assume and is_bottom are sound.  Addresses are arbitrary integers, null = 0: no form is
   inexact (the unary forms p < null, p <= null, ... are negated into the mirrored relation with the
   same operands, which is exact for any total order on addresses, signed or unsigned). *)
From Coq Require Import ZArith Bool List Lia.
From CrabV Require Import Ana.RefCst.
Import ListNotations.
Open Scope Z_scope.

Lemma rel_negate : forall k a b,
  rel (match k with REF_EQ => REF_DISEQ | REF_DISEQ => REF_EQ | REF_LEQ => REF_GT | REF_LT => REF_GEQ
               | REF_GEQ => REF_LT | REF_GT => REF_LEQ end) a b = negb (rel k a b).
Proof.
  intros k a b; destruct k; cbn [rel];
    rewrite ?negb_involutive; try reflexivity;
    try (rewrite Z.ltb_antisym, negb_involutive; reflexivity);
    try (rewrite Z.leb_antisym, negb_involutive; reflexivity);
    try (apply Z.ltb_antisym); try (apply Z.leb_antisym).
Qed.

(* swapping the operands: a REL b + k  <->  b (mirror REL) a - k *)
Lemma rel_swap_neg : forall k a b o,
  rel (match k with REF_EQ => REF_DISEQ | REF_DISEQ => REF_EQ | REF_LEQ => REF_LT | REF_LT => REF_LEQ
               | REF_GEQ => REF_GT | REF_GT => REF_GEQ end) b (a + - o) = negb (rel k a (b + o)).
Proof.
  intros k a b o; destruct k; cbn [rel].
  - destruct (a =? b + o) eqn:E1; destruct (b =? a + - o) eqn:E2; cbn; try reflexivity; lia.
  - destruct (a <? b + o) eqn:E1; destruct (b <=? a + - o) eqn:E2; cbn; try reflexivity; lia.
  - destruct (a <=? b + o) eqn:E1; destruct (b <? a + - o) eqn:E2; cbn; try reflexivity; lia.
  - destruct (b + o <? a) eqn:E1; destruct (a + - o <=? b) eqn:E2; cbn; try reflexivity; lia.
  - destruct (b + o <=? a) eqn:E1; destruct (a + - o <? b) eqn:E2; cbn; try reflexivity; lia.
  - destruct (a =? b + o) eqn:E1; destruct (b =? a + - o) eqn:E2; cbn; try reflexivity; lia.
Qed.

Lemma wf_cases : forall c, wf c = true ->
  (lhs c = None /\ rhs c = None /\ offset c = 0 /\ knd c <> REF_GT /\ knd c <> REF_GEQ) \/
  (exists p, lhs c = Some p /\ rhs c = None /\ offset c = 0) \/
  (exists p q, lhs c = Some p /\ rhs c = Some q).
Proof.
  intros [l r o k]; unfold wf; cbn [lhs rhs offset knd].
  destruct l as [p|], r as [q|]; intro H.
  - right; right; eauto.
  - right; left; exists p; repeat split; lia.
  - discriminate.
  - left. apply andb_true_iff in H; destruct H as [H H3].
    apply andb_true_iff in H; destruct H as [H1 H2].
    repeat split; try lia; intro E; rewrite E in *; discriminate.
Qed.

Lemma built_wf : forall c, built c -> wf c = true.
Proof. intros c H; destruct H; try reflexivity; destruct k; reflexivity. Qed.

(* negate() never reaches its CRAB_ERROR on a well-formed constraint *)
Lemma negate_defined : forall c, wf c = true -> negate_opt c = Some (negate c).
Proof.
  intros c H; unfold negate.
  destruct (wf_cases c H) as [(L & R & O & K1 & K2) | [(p & L & R & O) | (p & q & L & R)]];
    destruct c as [l r o k]; cbn [lhs rhs offset knd] in *; subst;
    destruct k; try congruence; reflexivity.
Qed.

Theorem negate_exact : forall rho c, wf c = true -> eval rho (negate c) = negb (eval rho c).
Proof.
  intros rho c H.
  destruct (wf_cases c H) as [(L & R & O & K1 & K2) | [(p & L & R & O) | (p & q & L & R)]];
    destruct c as [l r o k]; cbn [lhs rhs offset knd] in *; subst.
  - destruct k; try congruence; reflexivity.
  - destruct k; unfold negate, negate_opt, eval; cbn; rewrite ?Z.add_0_r.
    + reflexivity.
    + apply (rel_negate REF_LT).
    + apply (rel_negate REF_LEQ).
    + apply (rel_negate REF_GT).
    + apply (rel_negate REF_GEQ).
    + rewrite negb_involutive; reflexivity.
  - destruct k; unfold negate, negate_opt, eval; cbn [is_contradiction is_tautology is_unary is_binary
      is_none is_some lhs rhs offset knd negb andb orb kind_eqb mk_not_eq mk_eq mk_lt mk_le ctor val].
    + reflexivity.
    + apply (rel_swap_neg REF_LT).
    + apply (rel_swap_neg REF_LEQ).
    + apply (rel_swap_neg REF_GT).
    + apply (rel_swap_neg REF_GEQ).
    + cbn [rel]; rewrite negb_involutive; reflexivity.
Qed.

(* the one-sided consequence the checker needs *)
Corollary negate_covers : forall rho c, wf c = true -> eval rho c = false -> eval rho (negate c) = true.
Proof. intros rho c H E; rewrite negate_exact, E; auto. Qed.

Theorem negate_wf : forall c, wf c = true -> wf (negate c) = true.
Proof.
  intros c H.
  destruct (wf_cases c H) as [(L & R & O & K1 & K2) | [(p & L & R & O) | (p & q & L & R)]];
    destruct c as [l r o k]; cbn [lhs rhs offset knd] in *; subst;
    destruct k; try congruence; reflexivity.
Qed.

Theorem negate_built : forall c, built c -> built (negate c).
Proof.
  intros c H; destruct H.
  - apply b_false.
  - apply b_true.
  - destruct k; unfold negate; cbn; apply b_unary.
  - destruct k; unfold negate; cbn; apply b_binary.
Qed.

Theorem negate_involutive : forall c, built c -> negate (negate c) = c.
Proof.
  intros c H; destruct H; try reflexivity.
  - destruct k; reflexivity.
  - destruct k; unfold negate; cbn; rewrite ?Z.opp_involutive; reflexivity.
Qed.

Theorem tautology_sound : forall rho c, wf c = true -> is_tautology c = true -> eval rho c = true.
Proof.
  intros rho [l r o k] H T; unfold is_tautology, wf in *; cbn [lhs rhs offset knd] in *.
  destruct l, r; cbn in T; try discriminate.
  apply andb_true_iff in H; destruct H as [H _]; apply andb_true_iff in H; destruct H as [H _].
  apply Z.eqb_eq in H; subst; destruct k; try discriminate; reflexivity.
Qed.

Theorem contradiction_sound : forall rho c, wf c = true -> is_contradiction c = true -> eval rho c = false.
Proof.
  intros rho [l r o k] H T; unfold is_contradiction, wf in *; cbn [lhs rhs offset knd] in *.
  destruct l, r; cbn in T; try discriminate.
  apply andb_true_iff in H; destruct H as [H _]; apply andb_true_iff in H; destruct H as [H _].
  apply Z.eqb_eq in H; subst; destruct k; try discriminate; reflexivity.
Qed.

(* exactly one of tautology / contradiction / unary / binary on a well-formed constraint *)
Theorem forms_partition : forall c, wf c = true ->
  match is_tautology c, is_contradiction c, is_unary c, is_binary c with
  | true, false, false, false | false, true, false, false
  | false, false, true, false | false, false, false, true => True
  | _, _, _, _ => False
  end.
Proof.
  intros [l r o k] H; unfold wf in H; cbn [lhs rhs offset knd] in H.
  destruct l, r; try discriminate; try exact I.
  destruct k; cbn in H; rewrite ?andb_false_r in H; try discriminate; exact I.
Qed.

(* ---- the checker rule, for any abstract domain *)
Section Checker.
  Variable A : Type.
  Variable gamma : A -> (var -> Z) -> Prop.
  Variable ref_assume : A -> refcst -> A.
  Variable is_bottom : A -> bool.
  Hypothesis ref_assume_sound :
    forall a c rho, gamma a rho -> eval rho c = true -> gamma (ref_assume a c) rho.
  Hypothesis is_bottom_sound : forall a, is_bottom a = true -> forall rho, ~ gamma a rho.

  Theorem check_ref_safe_sound : forall a c, wf c = true ->
    check_ref is_bottom ref_assume a c = Safe -> forall rho, gamma a rho -> eval rho c = true.
  Proof.
    intros a c W H rho G. unfold check_ref, check_ref_with in H.
    destruct (is_bottom a); try discriminate.
    destruct (is_bottom (ref_assume a (negate c))) eqn:B; try discriminate.
    destruct (eval rho c) eqn:E; auto.
    exfalso; apply (is_bottom_sound _ B rho).
    apply ref_assume_sound; auto. apply negate_covers; auto.
  Qed.

  Theorem check_ref_unreach_sound : forall a c,
    check_ref is_bottom ref_assume a c = Unreach -> forall rho, ~ gamma a rho.
  Proof.
    intros a c H. unfold check_ref, check_ref_with in H.
    destruct (is_bottom a) eqn:B.
    - apply is_bottom_sound; auto.
    - destruct (is_bottom (ref_assume a (negate c))); discriminate.
  Qed.

  (* what the proof uses of negate: any `neg` that covers the complement is enough *)
  Theorem check_ref_with_safe_sound : forall neg a c,
    (forall rho, eval rho c = false -> eval rho (neg c) = true) ->
    check_ref_with neg is_bottom ref_assume a c = Safe -> forall rho, gamma a rho -> eval rho c = true.
  Proof.
    intros neg a c N H rho G. unfold check_ref_with in H.
    destruct (is_bottom a); try discriminate.
    destruct (is_bottom (ref_assume a (neg c))) eqn:B; try discriminate.
    destruct (eval rho c) eqn:E; auto.
    exfalso; apply (is_bottom_sound _ B rho). apply ref_assume_sound; auto.
  Qed.
End Checker.

(* ---- the finite-list-of-stores domain of RefCst.v satisfies the hypotheses of the Section *)
Definition sd_gamma (a : sdom) (rho : var -> Z) : Prop :=
  exists s, In s a /\ forall v, s v = rho v.

Lemma eval_ext : forall s rho c, (forall v, s v = rho v) -> eval s c = eval rho c.
Proof.
  intros s rho [l r o k] H; unfold eval; cbn [lhs rhs offset knd].
  destruct l, r; cbn [val]; rewrite ?H; reflexivity.
Qed.

Lemma sd_assume_sound : forall a c rho, sd_gamma a rho -> eval rho c = true -> sd_gamma (sd_assume a c) rho.
Proof.
  intros a c rho (s & I & E) H. exists s; split; auto.
  apply filter_In; split; auto. rewrite (eval_ext s rho c E); exact H.
Qed.

Lemma sd_is_bottom_sound : forall a, sd_is_bottom a = true -> forall rho, ~ sd_gamma a rho.
Proof. intros [|s a] H rho (s' & I & _); [exact I | discriminate]. Qed.

Theorem sd_check_ref_safe_sound : forall a c, wf c = true ->
  check_ref sd_is_bottom sd_assume a c = Safe -> forall rho, sd_gamma a rho -> eval rho c = true.
Proof. exact (check_ref_safe_sound sdom sd_gamma sd_assume sd_is_bottom sd_assume_sound sd_is_bottom_sound). Qed.

(* p = variable 1, q = variable 2, every store has q = p + 4 *)
Definition st (p q : Z) : var -> Z := fun v => if N.eqb v 1 then p else if N.eqb v 2 then q else 0.
Definition vp : var := 1%N.
Definition vq : var := 2%N.
Definition q_is_p_plus_4 : sdom := [st 16 20; st 100 104; st 0 4; st (-8) (-4)].

Example ex_hyps_nontrivial : sd_gamma q_is_p_plus_4 (st 16 20) /\ wf (mk_ge vq vp 6) = true.
Proof. split; [exists (st 16 20); split; [left; reflexivity | reflexivity] | reflexivity]. Qed.

(* assert_ref(q >= p + 6) is a warning, assert_ref(q >= p + 2) is safe *)
Example ex_check_warning : check_ref sd_is_bottom sd_assume q_is_p_plus_4 (mk_ge vq vp 6) = Warning.
Proof. vm_compute; reflexivity. Qed.
Example ex_check_safe : check_ref sd_is_bottom sd_assume q_is_p_plus_4 (mk_ge vq vp 2) = Safe.
Proof. vm_compute; reflexivity. Qed.
Example ex_check_unreach : check_ref sd_is_bottom sd_assume [] (mk_ge vq vp 2) = Unreach.
Proof. vm_compute; reflexivity. Qed.
Example ex_negate_ge : negate (mk_ge vq vp 6) = MkCst (Some 1%N) (Some 2%N) (-6) REF_GT.
Proof. reflexivity. Qed.

(* the wrong negation `p >= q + k --> q > p + k` (sign of the offset dropped) is not a negation ... *)
Example negate_wrong_seeded_negation_refuted :
  exists rho c, wf c = true /\ eval rho (negate_wrong c) <> negb (eval rho c).
Proof. exists (st 0 4), (mk_ge vq vp 6); split; [reflexivity | vm_compute; discriminate]. Qed.

(* ... and with it the checker reports the false assertion q >= p + 6 safe *)
Example negate_wrong_seeded_checker_unsound :
  check_ref_with negate_wrong sd_is_bottom sd_assume q_is_p_plus_4 (mk_ge vq vp 6) = Safe /\
  sd_gamma q_is_p_plus_4 (st 16 20) /\ eval (st 16 20) (mk_ge vq vp 6) = false.
Proof.
  split; [vm_compute; reflexivity | split; [| vm_compute; reflexivity]].
  exists (st 16 20); split; [left; reflexivity | reflexivity].
Qed.
