(* InterTDSound.v — property C09 for the model of the top-down inter-procedural analyzer:
   (1) get_callee_entry / get_caller_continuation (as repaired: parallel propagation through
       fresh copies when caller and callee share names) are sound for arbitrary name sharing
       between caller and callee;
   (2) the certificate checker td_check: whatever produced the context-insensitive tables and
       the (pre, post) summaries, if the check passes then every state in which an execution
       started at an entry function reaches a block is inside the table entry of that block,
       and every summary relates the inputs and outputs of every concrete call whose inputs
       satisfy its precondition.  Recursive programs included (induction on executions). *)
From Coq Require Import ZArith NArith List Bool Arith Lia.
From CrabV Require Import Base.ZInf Scalar.Itv Ir.Syntax Ir.Cfg Dom.ItvEnv Dom.ItvEnvSound Dom.ItvDomain
     Dom.ItvDomainSound Ana.Transformer Ana.InterSyntax Ana.InterSem Ana.InterTD.
Import ListNotations.

(* ------------------------------------------------------------------ stores and sequences of assignments *)
Lemma genv_ext e s s' : genv e s -> (forall k, s' k = s k) -> genv e s'.
Proof.
  destruct e as [|m]; simpl; auto. intros G E k. rewrite E. apply G.
Qed.

Lemma asg_sound x y e s : genv e s -> genv (asg x y e) (upd s x (s y)).
Proof.
  intros G. unfold asg.
  pose proof (d_assign_sound x (mkLE [(1%Z, y)] 0%Z) e s G) as H.
  replace (eval_le (mkLE [(1%Z, y)] 0%Z) s) with (s y) in H; auto.
  unfold eval_le. cbn [eval_terms le_terms le_cst]. lia.
Qed.

Fixpoint aseq (ps : list (var * var)) (s : store) : store :=
  match ps with
  | [] => s
  | q :: r => aseq r (upd s (fst q) (s (snd q)))
  end.

Lemma assign_list_sound ps : forall e s, genv e s -> genv (assign_list ps e) (aseq ps s).
Proof.
  unfold assign_list. induction ps as [|q r IH]; simpl; intros e s G; auto.
  apply IH. apply asg_sound. exact G.
Qed.

(* writes disjoint from reads, all pairs consistent with a target store: the sequence behaves
   as the parallel assignment *)
Lemma aseq_spec (tgt : store) ps : forall s,
  (forall x y, In (x, y) ps -> ~ In x (map snd ps)) ->
  (forall x y, In (x, y) ps -> s y = tgt x) ->
  forall k, aseq ps s k = if vmem k (map fst ps) then tgt k else s k.
Proof.
  induction ps as [|[x y] r IH]; intros s D V k; auto.
  cbn [aseq fst snd map]. rewrite IH.
  - unfold vmem. cbn [existsb]. fold (vmem k (map fst r)).
    destruct (vmem k (map fst r)); [rewrite orb_true_r; reflexivity|].
    rewrite orb_false_r. unfold upd. destruct (N.eqb_spec k x) as [->|N]; auto.
    apply (V x y). left. reflexivity.
  - intros x' y' I J. apply (D x' y' (or_intror I)). cbn [map snd]. right. exact J.
  - intros x' y' I. rewrite upd_other.
    + apply V. right. exact I.
    + intros E. subst y'. apply (D x y (or_introl eq_refl)). cbn [map snd]. right.
      apply (in_map snd) in I. exact I.
Qed.

Lemma Forall2_combine {A B} (R : A -> B -> Prop) l1 l2 x y :
  Forall2 R l1 l2 -> In (x, y) (combine l1 l2) -> R x y.
Proof.
  intros F. induction F; simpl; intros I; [contradiction|].
  destruct I as [E|I]; auto. inversion E; subst. auto.
Qed.

Lemma Forall2_length' {A B} (R : A -> B -> Prop) l1 l2 : Forall2 R l1 l2 -> length l1 = length l2.
Proof. induction 1; simpl; auto. Qed.

Lemma in_combine_map_l {A B C} (f : A -> C) (l1 : list A) (l2 : list B) c y :
  In (c, y) (combine (map f l1) l2) -> exists x, c = f x /\ In (x, y) (combine l1 l2).
Proof.
  revert l2. induction l1 as [|a r IH]; intros [|b l2] I; simpl in *; try contradiction.
  destruct I as [E|I].
  - inversion E; subst. exists a. split; auto.
  - destruct (IH _ I) as (x & E & J). exists x. split; auto.
Qed.

Lemma in_combine_map_r {A B C} (f : B -> C) (l1 : list A) (l2 : list B) x c :
  In (x, c) (combine l1 (map f l2)) -> exists y, c = f y /\ In (x, y) (combine l1 l2).
Proof.
  revert l2. induction l1 as [|a r IH]; intros [|b l2] I; simpl in *; try contradiction.
  destruct I as [E|I].
  - inversion E; subst. exists b. split; auto.
  - destruct (IH _ I) as (y & E & J). exists y. split; auto.
Qed.

Lemma in_combine_same {A} (l : list A) x y : In (x, y) (combine l l) -> x = y /\ In x l.
Proof.
  induction l as [|a r IH]; simpl; intros I; [contradiction|].
  destruct I as [E|I]; [inversion E; subst; auto|]. destruct (IH I). auto.
Qed.

Lemma in_combine_self {A} (l : list A) x : In x l -> In (x, x) (combine l l).
Proof. induction l as [|a r IH]; simpl; intros I; [contradiction|]. destruct I as [E|I]; subst; auto. Qed.

Lemma combine_in_exists_l {A B} (l1 : list A) (l2 : list B) x :
  length l1 = length l2 -> In x l1 -> exists y, In (x, y) (combine l1 l2).
Proof.
  revert l2. induction l1 as [|a r IH]; intros [|b l2] L I; simpl in *; try discriminate; try contradiction.
  destruct I as [E|I].
  - subst. exists b. auto.
  - destruct (IH l2 (eq_add_S _ _ L) I) as (y & J). exists y. auto.
Qed.

Lemma combine_in_exists_r {A B} (l1 : list A) (l2 : list B) y :
  length l1 = length l2 -> In y l2 -> exists x, In (x, y) (combine l1 l2).
Proof.
  revert l2. induction l1 as [|a r IH]; intros [|b l2] L I; simpl in *; try discriminate; try contradiction.
  destruct I as [E|I].
  - subst. exists a. auto.
  - destruct (IH l2 (eq_add_S _ _ L) I) as (x & J). exists x. auto.
Qed.

(* in a list of pairs with distinct first components the second one is determined *)
Lemma combine_fun_l {A B} (l1 : list A) (l2 : list B) x y y' :
  NoDup l1 -> In (x, y) (combine l1 l2) -> In (x, y') (combine l1 l2) -> y = y'.
Proof.
  revert l2. induction l1 as [|a r IH]; intros [|b l2] ND I J; simpl in *; try contradiction.
  inversion ND as [|? ? NI ND']; subst.
  destruct I as [E|I], J as [E'|J].
  - congruence.
  - inversion E; subst. exfalso. apply NI. eapply in_combine_l; eauto.
  - inversion E'; subst. exfalso. apply NI. eapply in_combine_l; eauto.
  - eapply IH; eauto.
Qed.

Lemma cp_ge voff v : (voff <= cp voff v)%N.
Proof. unfold cp. lia. Qed.
Lemma cp_sub voff v : (cp voff v - voff)%N = v.
Proof. unfold cp. lia. Qed.
Lemma cp_inj voff a b : cp voff a = cp voff b -> a = b.
Proof. unfold cp. lia. Qed.

Lemma vmem_map_cp voff k l : vmem k (map (cp voff) l) = true -> (voff <= k)%N /\ In (k - voff)%N l.
Proof.
  rewrite vmem_spec. intros I. apply in_map_iff in I. destruct I as (x & <- & I).
  split; [apply cp_ge|]. rewrite cp_sub. exact I.
Qed.

(* ------------------------------------------------------------------ no_clash *)
Record clash_free (outs ins fins fouts : list var) : Prop := mkCF {
  cf_in : forall f a, In (f, a) (combine fins ins) -> In a fins -> a = f;
  cf_in_out : forall a, In a ins -> ~ In a fouts;
  cf_out : forall f o, In (f, o) (combine fouts outs) -> In o fouts -> o = f;
  cf_out_in : forall o, In o outs -> ~ In o fins }.

Lemma no_clash_spec outs ins fins fouts :
  no_clash outs ins fins fouts = true -> clash_free outs ins fins fouts.
Proof.
  unfold no_clash. intros H.
  apply andb_true_iff in H. destruct H as [H H4].
  apply andb_true_iff in H. destruct H as [H H3].
  apply andb_true_iff in H. destruct H as [H1 H2].
  rewrite forallb_forall in H1, H2, H3, H4. constructor.
  - intros f a I J. specialize (H1 _ I). cbn [fst snd] in H1.
    apply vmem_spec in J. rewrite J in H1. simpl in H1. apply N.eqb_eq in H1. exact H1.
  - intros a I J. specialize (H2 _ I). apply negb_true_iff in H2. apply vmem_false in H2. auto.
  - intros f o I J. specialize (H3 _ I). cbn [fst snd] in H3.
    apply vmem_spec in J. rewrite J in H3. simpl in H3. apply N.eqb_eq in H3. exact H3.
  - intros o I J. specialize (H4 _ I). apply negb_true_iff in H4. apply vmem_false in H4. auto.
Qed.

Lemma clash_free_copies voff outs ins fins fouts :
  (forall x, In x ins -> (x < voff)%N) -> (forall x, In x outs -> (x < voff)%N) ->
  clash_free outs ins (map (cp voff) fins) (map (cp voff) fouts).
Proof.
  intros Bi Bo.
  assert (X : forall x l, (x < voff)%N -> ~ In x (map (cp voff) l)).
  { intros x l L I. apply in_map_iff in I. destruct I as (y & E & _). pose proof (cp_ge voff y). lia. }
  constructor.
  - intros f a I J. exfalso. eapply X; [|exact J]. apply Bi. eapply in_combine_r; eauto.
  - intros a I. apply X. auto.
  - intros f o I J. exfalso. eapply X; [|exact J]. apply Bo. eapply in_combine_r; eauto.
  - intros o I. apply X. auto.
Qed.

Lemma map_fst_combine_map {A B} (f : A -> B) (l : list A) : map fst (combine (map f l) l) = map f l.
Proof. induction l as [|x r IH]; simpl; auto. f_equal. exact IH. Qed.

Lemma nodup_map_cp voff l : NoDup l -> NoDup (map (cp voff) l).
Proof.
  induction l as [|x r IH]; simpl; intros H; [constructor|].
  inversion H; subst. constructor; auto. intros I. apply in_map_iff in I.
  destruct I as (y & E & I). apply cp_inj in E. subst. auto.
Qed.

Lemma in_combine_swap {A B} (l1 : list A) (l2 : list B) x y : In (x, y) (combine l1 l2) -> In (y, x) (combine l2 l1).
Proof.
  revert l2. induction l1 as [|a r IH]; intros [|b l2] I; simpl in *; try contradiction.
  destruct I as [E|I]; [inversion E; subst; auto|right; auto].
Qed.

Lemma nodup_app_l {A} (l1 l2 : list A) : NoDup (l1 ++ l2) -> NoDup l1.
Proof.
  induction l1 as [|a r IH]; simpl; intros H; [constructor|].
  inversion H; subst. constructor; auto. intros I. apply H2. apply in_or_app. left. exact I.
Qed.
Lemma nodup_app_r {A} (l1 l2 : list A) : NoDup (l1 ++ l2) -> NoDup l2.
Proof. induction l1 as [|a r IH]; simpl; intros H; auto. inversion H; subst. auto. Qed.
Lemma nodup_app_disj {A} (l1 l2 : list A) x : NoDup (l1 ++ l2) -> In x l1 -> In x l2 -> False.
Proof.
  induction l1 as [|a r IH]; simpl; intros H I J; [contradiction|].
  inversion H; subst. destruct I as [->|I].
  - apply H2. apply in_or_app. right. exact J.
  - eapply IH; eauto.
Qed.

(* ------------------------------------------------------------------ restrict *)
Section Ops.
  Variable voff : N.
  Variables outs ins fins fouts : list var.
  Hypothesis ND : NoDup (fins ++ fouts).
  Hypothesis Lin : length fins = length ins.
  Hypothesis Lout : length fouts = length outs.
  Hypothesis NDo : NoDup outs.
  Hypothesis Bf : forall x, In x (fins ++ fouts) -> (x < voff)%N.
  Hypothesis Bi : forall x, In x ins -> (x < voff)%N.
  Hypothesis Bo : forall x, In x outs -> (x < voff)%N.

  Lemma ND_fins : NoDup fins.
  Proof. eapply nodup_app_l. exact ND. Qed.
  Lemma ND_fouts : NoDup fouts.
  Proof. eapply nodup_app_r. exact ND. Qed.
  Lemma ND_disj x : In x fins -> In x fouts -> False.
  Proof. intros. eapply nodup_app_disj; eauto. Qed.

  Theorem callee_entry_sound e a s0 :
    genv e a -> bind_ins fins ins a s0 -> genv (callee_entry voff outs ins fins fouts e) s0.
  Proof.
    intros G B. unfold callee_entry. rewrite (genv_not_bot _ _ G).
    assert (FIN : forall e2 a2, genv e2 a2 -> (forall f, In f fins -> a2 f = s0 f) ->
                  genv (e_project (e_meet e_top e2) fins) s0).
    { intros e2 a2 G2 A. apply (e_project_sound _ _ a2).
      - apply e_meet_sound; auto. apply genv_top.
      - intros k I. symmetry. apply A. exact I. }
    destruct (no_clash outs ins fins fouts) eqn:NC; cbn [negb].
    - (* sequential unification is already parallel *)
      apply no_clash_spec in NC.
      set (ps := filter neq_pair (combine fins ins)).
      apply (FIN _ (aseq ps a)); [apply assign_list_sound; exact G|].
      assert (SP : forall k, aseq ps a k = if vmem k (map fst ps) then (fun k => if vmem k fins then s0 k else a k) k else a k).
      { apply aseq_spec.
        - intros x y I J. apply filter_In in I. destruct I as [I NE]. unfold neq_pair in NE. cbn [fst snd] in NE.
          apply in_map_iff in J. destruct J as ([x' y'] & E & J). cbn [snd] in E. subst y'.
          apply filter_In in J. destruct J as [J NE']. unfold neq_pair in NE'. cbn [fst snd] in NE'.
          assert (x = x') by (apply (cf_in _ _ _ _ NC x' x J); eapply in_combine_l; eauto).
          subst x'. rewrite N.eqb_refl in NE'. discriminate.
        - intros x y I. apply filter_In in I. destruct I as [I _].
          assert (Fx : vmem x fins = true) by (apply vmem_spec; eapply in_combine_l; eauto).
          rewrite Fx. symmetry. apply (Forall2_combine _ _ _ _ _ B I). }
      intros f I. rewrite SP.
      assert (Ff : vmem f fins = true) by (apply vmem_spec; exact I).
      destruct (vmem f (map fst ps)) eqn:W; [rewrite Ff; reflexivity|].
      (* f not written: it is its own actual *)
      destruct (combine_in_exists_l fins ins f Lin I) as (y & J).
      rewrite (Forall2_combine _ _ _ _ _ B J).
      destruct (N.eqb_spec f y) as [->|NE]; auto.
      exfalso. apply vmem_false in W. apply W. apply in_map_iff. exists (f, y). split; auto.
      apply filter_In. split; auto. unfold neq_pair. cbn [fst snd]. apply negb_true_iff. apply N.eqb_neq. exact NE.
    - (* through fresh copies *)
      clear NC.
      set (ps1 := combine (map (cp voff) fins) ins).
      set (ps2 := filter neq_pair (combine fins (map (cp voff) fins))).
      set (tg1 := fun k : var => if N.leb voff k then s0 (k - voff)%N else a k).
      assert (S1 : forall k, aseq ps1 a k = if vmem k (map fst ps1) then tg1 k else a k).
      { apply aseq_spec.
        - intros x y I J. apply in_combine_map_l in I. destruct I as (f & -> & _).
          apply in_map_iff in J. destruct J as ([x' y'] & E & J). cbn [snd] in E. subst y'.
          apply in_combine_r in J. apply Bi in J. pose proof (cp_ge voff f). lia.
        - intros x y I. apply in_combine_map_l in I. destruct I as (f & -> & I).
          unfold tg1. pose proof (cp_ge voff f) as GE. apply N.leb_le in GE. rewrite GE. rewrite cp_sub.
          symmetry. apply (Forall2_combine _ _ _ _ _ B I). }
      apply (FIN _ (aseq ps2 (aseq ps1 a))).
      { apply assign_list_sound. apply assign_list_sound. exact G. }
      assert (S2 : forall k, aseq ps2 (aseq ps1 a) k =
                             if vmem k (map fst ps2) then (fun k => s0 k) k else aseq ps1 a k).
      { apply aseq_spec.
        - intros x y I J. apply filter_In in I. destruct I as [I _]. apply in_combine_l in I.
          apply in_map_iff in J. destruct J as ([x' y'] & E & J). cbn [snd] in E. subst y'.
          apply filter_In in J. destruct J as [J _]. apply in_combine_r in J.
          apply in_map_iff in J. destruct J as (f & E & _).
          assert (x < voff)%N by (apply Bf; apply in_or_app; left; exact I).
          pose proof (cp_ge voff f). lia.
        - intros x y I. apply filter_In in I. destruct I as [I _].
          apply in_combine_map_r in I. destruct I as (f & -> & I).
          apply in_combine_same in I. destruct I as [<- I].
          rewrite S1. assert (W : vmem (cp voff x) (map fst ps1) = true).
          { apply vmem_spec. unfold ps1. destruct (combine_in_exists_l fins ins x Lin I) as (y & J).
            apply in_map_iff. exists (cp voff x, y). split; auto.
            clear - J. revert ins J. induction fins as [|a r IH]; intros [|b l] J; simpl in *; try contradiction.
            destruct J as [E|J]; [inversion E; subst; auto|right; eauto]. }
          rewrite W. unfold tg1. pose proof (cp_ge voff x) as GE. apply N.leb_le in GE. rewrite GE, cp_sub. reflexivity. }
      intros f I. rewrite S2.
      assert (W : vmem f (map fst ps2) = true).
      { apply vmem_spec. apply in_map_iff. exists (f, cp voff f). split; auto. unfold ps2.
        apply filter_In. split.
        - clear - I. induction fins as [|a r IH]; simpl in *; [contradiction|]. destruct I as [->|I]; auto.
        - unfold neq_pair. cbn [fst snd]. apply negb_true_iff. apply N.eqb_neq.
          assert (f < voff)%N by (apply Bf; apply in_or_app; left; exact I).
          pose proof (cp_ge voff f). lia. }
      rewrite W. reflexivity.
  Qed.

  (* ---------------------------------------------------------------- extend *)
  Lemma cont_tail_sound fins' fouts' sum (a b t2 : store) :
    NoDup (fins' ++ fouts') -> length fins' = length ins -> length fouts' = length outs ->
    clash_free outs ins fins' fouts' ->
    genv sum t2 ->
    (forall f y, In (f, y) (combine fins' ins) -> t2 f = a y) ->
    (forall o f, In (o, f) (combine outs fouts') -> b o = t2 f) ->
    (forall k, ~ In k outs -> b k = a k) ->
    (forall k, ~ In k (fins' ++ fouts') -> t2 k = b k) ->
    genv (cont_tail outs ins fins' fouts' sum) b.
  Proof.
    intros ND' Li Lo CF G Vin Vout Fr Oth. unfold cont_tail.
    set (psO := filter neq_pair (combine outs fouts')).
    set (wires := filter (fun q => negb (vmem (fst q) ins) && negb (vmem (snd q) outs)) (combine fins' ins)).
    set (psI := map (fun q : var * var => (snd q, fst q)) wires).
    assert (S3 : forall k, aseq psO t2 k = if vmem k (map fst psO) then b k else t2 k).
    { apply aseq_spec.
      - intros x y I J. apply filter_In in I. destruct I as [I NE]. unfold neq_pair in NE. cbn [fst snd] in NE.
        apply in_map_iff in J. destruct J as ([x' y'] & E & J). cbn [snd] in E. subst y'.
        apply filter_In in J. destruct J as [J _]. apply in_combine_r in J.
        assert (x = y) by (apply (cf_out _ _ _ _ CF y x); [apply in_combine_swap; exact I|exact J]).
        subst y. rewrite N.eqb_refl in NE. discriminate.
      - intros x y I. apply filter_In in I. destruct I as [I _]. symmetry. apply Vout. exact I. }
    assert (S4 : forall k, aseq psI (aseq psO t2) k = if vmem k (map fst psI) then b k else aseq psO t2 k).
    { apply aseq_spec.
      - intros x y I J. unfold psI in I, J. apply in_map_iff in I. destruct I as ([f y0] & E & I).
        cbn [fst snd] in E. inversion E; subst y0 f. clear E.
        apply filter_In in I. destruct I as [I _]. apply in_combine_r in I.
        apply in_map_iff in J. destruct J as ([x' y'] & E & J). cbn [snd] in E. subst y'.
        apply in_map_iff in J. destruct J as ([f2 y2] & E & J). cbn [fst snd] in E. inversion E; subst. clear E.
        apply filter_In in J. destruct J as [_ J]. cbn [fst snd] in J.
        apply andb_true_iff in J. destruct J as [J _]. apply negb_true_iff in J. apply vmem_false in J. auto.
      - intros x y I. unfold psI in I. apply in_map_iff in I. destruct I as ([f y0] & E & I).
        cbn [fst snd] in E. inversion E; subst y0 f. clear E.
        apply filter_In in I. destruct I as [I C]. cbn [fst snd] in C.
        apply andb_true_iff in C. destruct C as [_ C]. apply negb_true_iff in C. apply vmem_false in C.
        rewrite S3.
        destruct (vmem y (map fst psO)) eqn:W.
        + exfalso. apply vmem_spec in W. apply in_map_iff in W. destruct W as ([o f] & E & W). cbn [fst] in E. subst o.
          apply filter_In in W. destruct W as [W _]. apply in_combine_l in W.
          apply (cf_out_in _ _ _ _ CF y W). eapply in_combine_l; eauto.
        + rewrite (Vin _ _ I). symmetry. apply Fr. exact C. }
    apply (d_forget_sound _ _ (aseq psI (aseq psO t2))).
    { apply assign_list_sound. apply assign_list_sound. exact G. }
    intros k NL. rewrite S4. destruct (vmem k (map fst psI)); auto.
    rewrite S3. destruct (vmem k (map fst psO)); auto.
    destruct (in_dec N.eq_dec k (fins' ++ fouts')) as [IF|NF]; [|symmetry; apply Oth; exact NF].
    (* a parameter that is not forgotten: it is a variable of the callsite at its own position *)
    assert (K : In k (filter (fun f => vmem f ins) fins' ++ outs)).
    { destruct (vmem k (filter (fun f => vmem f ins) fins' ++ outs)) eqn:V; [apply vmem_spec; exact V|].
      exfalso. apply NL. apply filter_In. split; auto. rewrite V. reflexivity. }
    apply in_app_or in K. destruct K as [K|K].
    - apply filter_In in K. destruct K as [K1 K2]. apply vmem_spec in K2.
      destruct (combine_in_exists_l fins' ins k Li K1) as (y & J).
      destruct (combine_in_exists_r fins' ins k Li K2) as (f & J2).
      assert (k = f) by (apply (cf_in _ _ _ _ CF f k J2 K1)). subst f.
      assert (y = k) by (eapply (combine_fun_l fins' ins k y k); eauto; eapply nodup_app_l; eauto). subst y.
      rewrite (Vin _ _ J). apply Fr. intros I. apply (cf_out_in _ _ _ _ CF k I K1).
    - destruct (combine_in_exists_l outs fouts' k (eq_sym Lo) K) as (f & J).
      rewrite (Vout _ _ J).
      assert (IFo : In k fouts').
      { apply in_app_or in IF. destruct IF as [IF|IF]; auto. exfalso. apply (cf_out_in _ _ _ _ CF k K IF). }
      assert (k = f) by (apply (cf_out _ _ _ _ CF f k); [apply in_combine_swap; exact J|exact IFo]).
      subst f. reflexivity.
  Qed.

  Theorem cont_sound e sum a s1 b :
    genv e a -> genv sum s1 ->
    (forall f y, In (f, y) (combine fins ins) -> s1 f = a y) ->
    (forall k, b k = assign_outs a outs fouts s1 k) ->
    genv (cont voff outs ins fins fouts e (e_project sum (fins ++ fouts))) b.
  Proof.
    intros G Gs Vin Hb. unfold cont. rewrite (genv_not_bot _ _ G).
    set (fs := fins ++ fouts).
    set (t0 := fun k : var => if vmem k fs then s1 k else b k).
    assert (G0 : genv (e_project sum fs) t0).
    { apply (e_project_sound _ _ s1); auto. intros k I. unfold t0. apply vmem_spec in I. rewrite I. reflexivity. }
    rewrite (genv_not_bot _ _ G0).
    assert (Fr : forall k, ~ In k outs -> b k = a k).
    { intros k NI. rewrite Hb. apply assign_outs_other. exact NI. }
    assert (Vout : forall o f, In (o, f) (combine outs fouts) -> b o = s1 f).
    { intros o f I. rewrite Hb. apply assign_outs_in; auto. }
    apply e_meet_sound.
    { apply (d_forget_sound _ _ a); auto. }
    destruct (no_clash outs ins fins fouts) eqn:NC; cbn [negb].
    - apply no_clash_spec in NC.
      apply (cont_tail_sound fins fouts _ a b t0); auto.
      + intros f y I. unfold t0.
        assert (V : vmem f fs = true) by (apply vmem_spec; apply in_or_app; left; eapply in_combine_l; eauto).
        rewrite V. apply Vin. exact I.
      + intros o f I. unfold t0.
        assert (V : vmem f fs = true) by (apply vmem_spec; apply in_or_app; right; eapply in_combine_r; eauto).
        rewrite V. apply Vout. exact I.
      + intros k NI. unfold t0. apply vmem_false in NI. fold fs in NI. rewrite NI. reflexivity.
    - clear NC.
      set (psA := combine (map (cp voff) fs) fs).
      set (tgA := fun k : var => if N.leb voff k then s1 (k - voff)%N else t0 k).
      assert (MF : map fst psA = map (cp voff) fs).
      { unfold psA. apply map_fst_combine_map. }
      assert (S1 : forall k, aseq psA t0 k = if vmem k (map fst psA) then tgA k else t0 k).
      { apply aseq_spec.
        - intros x y I J. apply in_combine_map_l in I. destruct I as (f & -> & _).
          apply in_map_iff in J. destruct J as ([x' y'] & E & J). cbn [snd] in E. subst y'.
          apply in_combine_r in J. apply Bf in J. pose proof (cp_ge voff f). lia.
        - intros x y I. apply in_combine_map_l in I. destruct I as (f & -> & I).
          apply in_combine_same in I. destruct I as [<- I].
          unfold tgA. pose proof (cp_ge voff f) as GE. apply N.leb_le in GE. rewrite GE, cp_sub.
          unfold t0. apply vmem_spec in I. rewrite I. reflexivity. }
      set (t2 := fun k : var => if vmem k (map (cp voff) fs) then s1 (k - voff)%N else b k).
      assert (G2 : genv (d_forget fs (assign_list psA (e_project sum fs))) t2).
      { apply (d_forget_sound _ _ (aseq psA t0)); [apply assign_list_sound; exact G0|].
        intros k NI. rewrite S1, MF. unfold t2.
        destruct (vmem k (map (cp voff) fs)) eqn:V.
        - apply vmem_map_cp in V. destruct V as [V _]. unfold tgA. apply N.leb_le in V. rewrite V. reflexivity.
        - unfold t0. apply vmem_false in NI. rewrite NI. reflexivity. }
      assert (Vcp : forall f, In f fs -> t2 (cp voff f) = s1 f).
      { intros f I. unfold t2.
        assert (V : vmem (cp voff f) (map (cp voff) fs) = true) by (apply vmem_spec; apply in_map; exact I).
        rewrite V, cp_sub. reflexivity. }
      apply (cont_tail_sound (map (cp voff) fins) (map (cp voff) fouts) _ a b t2); auto.
      + rewrite <- map_app. apply nodup_map_cp. exact ND.
      + rewrite map_length. exact Lin.
      + rewrite map_length. exact Lout.
      + apply clash_free_copies; auto.
      + intros f y I. apply in_combine_map_l in I. destruct I as (f0 & -> & I).
        rewrite Vcp by (apply in_or_app; left; eapply in_combine_l; eauto). apply Vin. exact I.
      + intros o f I. apply in_combine_map_r in I. destruct I as (f0 & -> & I).
        rewrite Vcp by (apply in_or_app; right; eapply in_combine_r; eauto). apply Vout. exact I.
      + intros k NI. unfold t2. rewrite <- map_app in NI. fold fs in NI. apply vmem_false in NI. rewrite NI. reflexivity.
  Qed.
End Ops.

(* ------------------------------------------------------------------ the certificate checker *)
Section CheckSound.
  Variable p : iprog.
  Variable voff : N.
  Hypothesis WF : iprog_wfb p voff = true.
  Variable S : list summ.
  Variable scs : list cert.          (* the contexts that justify the summaries *)
  Hypothesis scs_ok : forall ct, In ct scs -> cert_ok p voff S None ct = true.
  Hypothesis summs_ok : forall sm, In sm S -> exists ct, In ct scs /\ summ_ok p sm ct = true.

  Lemma call_wf fn outs g ins : istmt_wfb p voff fn (ICall outs g ins) = true ->
    g < length p /\ length (f_ins (get_fn p g)) = length ins /\ length (f_outs (get_fn p g)) = length outs /\
    NoDup outs /\ (forall x, In x ins -> (x < voff)%N) /\ (forall x, In x outs -> (x < voff)%N).
  Proof.
    simpl. intros W. repeat (apply andb_true_iff in W; destruct W as [W ?]).
    apply Nat.ltb_lt in W. apply Nat.eqb_eq in H4, H3.
    repeat split; auto.
    - apply nodupb_sound; auto.
    - apply below_spec; auto.
    - apply below_spec; auto.
  Qed.

  Lemma fn_wf g : g < length p ->
    NoDup (fn_formals (get_fn p g)) /\ (forall x, In x (fn_formals (get_fn p g)) -> (x < voff)%N) /\
    0 < fn_nblocks (get_fn p g) /\
    (forall a b, In (a, b) (f_edges (get_fn p g)) -> a < fn_nblocks (get_fn p g) /\ b < fn_nblocks (get_fn p g)) /\
    (forall n st, In st (fn_block (get_fn p g) n) -> istmt_wfb p voff (get_fn p g) st = true).
  Proof.
    intros L. pose proof (wf_func p voff g WF L) as W. pose proof W as W0. unfold func_wfb in W.
    repeat (apply andb_true_iff in W; destruct W as [W ?]).
    repeat split.
    - apply nodupb_sound; auto.
    - apply below_spec; auto.
    - apply Nat.ltb_lt; auto.
    - rewrite forallb_forall in H0. specialize (H0 _ H3). simpl in H0. apply andb_true_iff in H0.
      destruct H0 as [X _]. apply Nat.ltb_lt in X. exact X.
    - rewrite forallb_forall in H0. specialize (H0 _ H3). simpl in H0. apply andb_true_iff in H0.
      destruct H0 as [_ X]. apply Nat.ltb_lt in X. exact X.
    - intros n st I. eapply wf_istmt; eauto.
  Qed.

  Lemma fold_meet_sound (k : summ -> env) b r : forall acc,
    genv acc b -> (forall sm, In sm r -> genv (k sm) b) ->
    genv (fold_left (fun acc sm => e_meet acc (k sm)) r acc) b.
  Proof.
    induction r as [|x r IH]; simpl; intros acc G A; auto.
    apply IH.
    - apply e_meet_sound; auto.
    - intros sm I. apply A. right. exact I.
  Qed.

  (* the state at the entry of the callee is inside the abstract entry state *)
  Lemma chk_call_entry fn outs g ins e a s0 :
    istmt_wfb p voff fn (ICall outs g ins) = true -> genv e a ->
    bind_ins (f_ins (get_fn p g)) ins a s0 ->
    genv (callee_entry voff outs ins (f_ins (get_fn p g)) (f_outs (get_fn p g)) e) s0.
  Proof.
    intros W G B. destruct (call_wf _ _ _ _ W) as (Lg & Li & Lo & NDo & Bi & Bo).
    destruct (fn_wf g Lg) as (NDf & Bf & _).
    apply (callee_entry_sound voff outs ins _ _ Li Lo Bf Bi e a s0 G B).
  Qed.

  (* the state after the call is inside the combination of the continuations of the selected
     summaries *)
  Lemma chk_call_sound cov fn outs g ins e e' a s0 s1 b :
    istmt_wfb p voff fn (ICall outs g ins) = true -> genv e a ->
    bind_ins (f_ins (get_fn p g)) ins a s0 ->
    (forall x, In x (f_ins (get_fn p g)) -> s1 x = s0 x) ->
    (forall k, b k = assign_outs a outs (f_outs (get_fn p g)) s1 k) ->
    (forall sm, In sm S -> s_fn sm = g -> genv (s_pre sm) s0 -> genv (s_post sm) s1) ->
    (exists x, f_exit (get_fn p g) = Some x) ->
    chk_call p voff S cov outs g ins e = Some e' -> genv e' b.
  Proof.
    intros W G B Fr Hb IH [x Hx] C. pose proof (chk_call_entry _ _ _ _ _ _ _ W G B) as GE.
    destruct (call_wf _ _ _ _ W) as (Lg & Li & Lo & NDo & Bi & Bo).
    destruct (fn_wf g Lg) as (NDf & Bf & _).
    unfold chk_call in C. rewrite (genv_not_bot _ _ G) in C.
    match type of C with (if ?c then _ else _) = _ => destruct c; [|discriminate] end.
    rewrite Hx in C.
    set (ms := filter (fun sm => Nat.eqb (s_fn sm) g &&
               e_leq (callee_entry voff outs ins (f_ins (get_fn p g)) (f_outs (get_fn p g)) e) (s_pre sm)) S) in *.
    assert (K : forall sm, In sm ms ->
                genv (if e_is_bot (e_meet (callee_entry voff outs ins (f_ins (get_fn p g)) (f_outs (get_fn p g)) e)
                                          (e_project (s_post sm) (f_ins (get_fn p g))))
                      then EBot
                      else cont voff outs ins (f_ins (get_fn p g)) (f_outs (get_fn p g)) e
                                (e_project (s_post sm) (f_ins (get_fn p g) ++ f_outs (get_fn p g)))) b).
    { intros sm I. apply filter_In in I. destruct I as [I C2]. apply andb_true_iff in C2.
      destruct C2 as [C2 C3]. apply Nat.eqb_eq in C2.
      assert (G1 : genv (s_post sm) s1) by (apply IH; auto; eapply e_leq_sound; eauto).
      assert (GM : genv (e_meet (callee_entry voff outs ins (f_ins (get_fn p g)) (f_outs (get_fn p g)) e)
                                (e_project (s_post sm) (f_ins (get_fn p g)))) s0).
      { apply e_meet_sound; auto. apply (e_project_sound _ _ s1); auto.
        intros k0 I0. symmetry. apply Fr. exact I0. }
      rewrite (genv_not_bot _ _ GM).
      apply (cont_sound voff outs ins _ _ NDf Li Lo NDo Bf Bi Bo e (s_post sm) a s1 b G G1); auto.
      intros f y J. rewrite Fr by (eapply in_combine_l; eauto).
      apply (Forall2_combine _ _ _ _ _ B J). }
    destruct ms as [|m r]; [discriminate|]. inversion C; subst e'. clear C.
    apply fold_meet_sound.
    - apply K. left. reflexivity.
    - intros sm I. apply K. right. exact I.
  Qed.

  Lemma chk_block_app cov l1 : forall l2 e e'',
    chk_block p voff S cov (l1 ++ l2) e = Some e'' ->
    exists e', chk_block p voff S cov l1 e = Some e' /\ chk_block p voff S cov l2 e' = Some e''.
  Proof.
    induction l1 as [|st r IH]; simpl; intros l2 e e'' H.
    - exists e. auto.
    - destruct (chk_stmt p voff S cov st e) as [e1|]; [|discriminate]. apply IH. exact H.
  Qed.

  (* consequences of cert_ok *)
  Lemma cert_block cov ct n : cert_ok p voff S cov ct = true -> n < fn_nblocks (get_fn p (ct_fn ct)) ->
    exists e', chk_block p voff S cov (fn_block (get_fn p (ct_fn ct)) n) (ct_tpre ct n) = Some e' /\
               e_leq e' (ct_tpost ct n) = true.
  Proof.
    intros C L. unfold cert_ok in C.
    apply andb_true_iff in C. destruct C as [C _]. apply andb_true_iff in C. destruct C as [_ C].
    rewrite forallb_forall in C. specialize (C n).
    assert (J : In n (seq 0 (fn_nblocks (get_fn p (ct_fn ct))))) by (apply in_seq; lia).
    specialize (C J). destruct (chk_block p voff S cov _ _) as [e'|]; [|discriminate]. exists e'. auto.
  Qed.

  Lemma cert_edge cov ct a b : cert_ok p voff S cov ct = true -> In (a, b) (f_edges (get_fn p (ct_fn ct))) ->
    e_leq (ct_tpost ct a) (ct_tpre ct b) = true.
  Proof.
    intros C J. unfold cert_ok in C.
    apply andb_true_iff in C. destruct C as [_ C]. rewrite forallb_forall in C. apply (C _ J).
  Qed.

  Lemma cert_entry cov ct : cert_ok p voff S cov ct = true ->
    ct_fn ct < length p /\ e_leq (ct_pre ct) (ct_tpre ct 0) = true.
  Proof.
    intros C. unfold cert_ok in C.
    apply andb_true_iff in C. destruct C as [C _]. apply andb_true_iff in C. destruct C as [C _].
    apply andb_true_iff in C. destruct C as [C1 C2]. apply Nat.ltb_lt in C1. auto.
  Qed.

  (* summaries and blocks: induction on executions *)
  Definition P_stmt (st : istmt) (a b : store) : Prop :=
    forall cov fn, istmt_wfb p voff fn st = true ->
    forall e e', genv e a -> chk_stmt p voff S cov st e = Some e' -> genv e' b.
  Definition P_block (bl : iblock) (a b : store) : Prop :=
    forall cov fn, (forall st, In st bl -> istmt_wfb p voff fn st = true) ->
    forall e e', genv e a -> chk_block p voff S cov bl e = Some e' -> genv e' b.
  Definition P_from (g n : nat) (a c : store) : Prop :=
    g < length p -> n < fn_nblocks (get_fn p g) ->
    forall ct, In ct scs -> ct_fn ct = g -> genv (ct_tpre ct n) a ->
    exists x, f_exit (get_fn p g) = Some x /\ genv (ct_tpost ct x) c.
  Definition P_fun (g : nat) (s0 s1 : store) : Prop :=
    g < length p -> forall sm, In sm S -> s_fn sm = g -> genv (s_pre sm) s0 -> genv (s_post sm) s1.

  Lemma exec_sound :
    (forall st a b, exec_stmt p st a b -> P_stmt st a b) /\
    (forall bl a b, exec_block p bl a b -> P_block bl a b) /\
    (forall g n a c, exec_from p g n a c -> P_from g n a c) /\
    (forall g s0 s1, exec_fun p g s0 s1 -> P_fun g s0 s1).
  Proof.
    apply exec_mutind.
    - (* base statement *)
      intros s a b H cov fn W e e' G C. simpl in C. inversion C; subst e'.
      simpl in W. apply andb_true_iff in W. destruct W as [W _].
      eapply tr_stmt_sound; eauto. apply stmt_wfb_sound. exact W.
    - (* call *)
      intros outs g ins a s0 s1 b B X IH Hb cov fn W e e' G C. simpl in C.
      destruct (call_wf _ _ _ _ W) as (Lg & _).
      refine (chk_call_sound cov fn outs g ins e e' a s0 s1 b W G B _ Hb _ _ C).
      + intros x I. eapply exec_fun_frame; eauto.
      + intros sm I F Gp. apply (IH Lg sm I F Gp).
      + eapply exec_fun_exit; eauto.
    - intros a cov fn W e e' G C. simpl in C. inversion C; subst. exact G.
    - intros s r a m b X IHs Y IHr cov fn W e e' G C. simpl in C.
      destruct (chk_stmt p voff S cov s e) as [e1|] eqn:C1; [|discriminate].
      eapply IHr; eauto.
      + intros st I. apply W. right. exact I.
      + eapply IHs; eauto. apply W. left. reflexivity.
    - (* return at the end of the exit block *)
      intros g n a b E X IH Lg Ln ct I F G. subst g.
      destruct (cert_block None ct n (scs_ok ct I) Ln) as (e' & C & L).
      destruct (fn_wf (ct_fn ct) Lg) as (_ & _ & _ & _ & Wb).
      exists n. split; auto. eapply e_leq_sound; [exact L|].
      eapply (IH None (get_fn p (ct_fn ct))); eauto.
    - (* step to a successor block *)
      intros g n m a b c X IH E Y IHf Lg Ln ct I F G. subst g.
      destruct (cert_block None ct n (scs_ok ct I) Ln) as (e' & C & L).
      destruct (fn_wf (ct_fn ct) Lg) as (_ & _ & _ & We & Wb).
      apply IHf; auto.
      + apply (We _ _ E).
      + eapply e_leq_sound; [apply (cert_edge None ct n m (scs_ok ct I) E)|].
        eapply e_leq_sound; [exact L|]. eapply (IH None (get_fn p (ct_fn ct))); eauto.
    - (* function *)
      intros g s0 s1 X IH Lg sm I F G.
      destruct (summs_ok sm I) as (ct & J & OK). unfold summ_ok in OK.
      apply andb_true_iff in OK. destruct OK as [OK O3]. apply andb_true_iff in OK. destruct OK as [O1 O2].
      apply Nat.eqb_eq in O1. rewrite F in O1, O3.
      destruct (cert_entry None ct (scs_ok ct J)) as [_ L0].
      destruct (fn_wf g Lg) as (_ & _ & N0 & _).
      destruct (IH Lg N0 ct J O1) as (x & E & Gx).
      { eapply e_leq_sound; eauto. eapply e_leq_sound; eauto. }
      rewrite E in O3. eapply e_leq_sound; eauto.
      apply (e_project_sound _ _ s1); auto.
  Qed.

  (* reachability: the contexts rcs cover the executions *)
  Variable rcs : list cert.
  Hypothesis rcs_ok : forall ct, In ct rcs -> cert_ok p voff S (Some rcs) ct = true.
  Variable entries : list nat.
  Variable Init : store -> Prop.
  Variable init : env.
  Hypothesis init_s : forall s, Init s -> genv init s.
  Hypothesis roots_ok : forall f, In f entries ->
    exists ct, In ct rcs /\ ct_fn ct = f /\ e_leq init (ct_pre ct) = true.

  Definition Q_pre (f n : nat) (s : store) : Prop :=
    f < length p /\ n < fn_nblocks (get_fn p f) /\
    exists ct, In ct rcs /\ ct_fn ct = f /\ genv (ct_tpre ct n) s.
  Definition Q_post (f n : nat) (s : store) : Prop :=
    f < length p /\ n < fn_nblocks (get_fn p f) /\
    exists ct, In ct rcs /\ ct_fn ct = f /\ genv (ct_tpost ct n) s.

  Lemma reach_sound :
    (forall f n s, IRPre p entries Init f n s -> Q_pre f n s) /\
    (forall f n s, IRPost p entries Init f n s -> Q_post f n s).
  Proof.
    destruct exec_sound as (_ & XB & _ & _).
    apply IR_mutind.
    - intros f s I J. destruct (roots_ok f I) as (ct & K & F & L).
      destruct (cert_entry _ ct (rcs_ok ct K)) as [Lf L0]. rewrite F in Lf.
      destruct (fn_wf f Lf) as (_ & _ & N0 & _).
      split; auto. split; auto. exists ct. repeat split; auto.
      eapply e_leq_sound; eauto. eapply e_leq_sound; eauto.
    - intros f q n s E _ (Lf & Lq & ct & K & F & G).
      destruct (fn_wf f Lf) as (_ & _ & _ & We & _). destruct (We _ _ E) as [_ Ln].
      split; auto. split; auto. exists ct. repeat split; auto. subst f.
      eapply e_leq_sound; [apply (cert_edge _ ct q n (rcs_ok ct K) E)|exact G].
    - intros f n s l1 outs g ins l2 m s0 _ (Lf & Ln & ct & K & F & G) EB X B. subst f.
      destruct (cert_block _ ct n (rcs_ok ct K) Ln) as (e' & C & _). rewrite EB in C.
      destruct (chk_block_app _ _ _ _ _ C) as (e1 & C1 & C2).
      destruct (fn_wf (ct_fn ct) Lf) as (_ & _ & _ & _ & Wb).
      assert (W1 : forall st, In st l1 -> istmt_wfb p voff (get_fn p (ct_fn ct)) st = true).
      { intros st I. apply (Wb n). rewrite EB. apply in_or_app. left. exact I. }
      assert (Wc : istmt_wfb p voff (get_fn p (ct_fn ct)) (ICall outs g ins) = true).
      { apply (Wb n). rewrite EB. apply in_or_app. right. left. reflexivity. }
      pose proof (XB _ _ _ X _ _ W1 _ _ G C1) as G1.
      pose proof (chk_call_entry _ _ _ _ _ _ _ Wc G1 B) as GE.
      destruct (call_wf _ _ _ _ Wc) as (Lg & _).
      simpl in C2. destruct (chk_call p voff S (Some rcs) outs g ins e1) as [e2|] eqn:CC; [|discriminate].
      unfold chk_call in CC. rewrite (genv_not_bot _ _ G1) in CC.
      match type of CC with (if ?c then _ else _) = _ => destruct c eqn:COV; [|discriminate] end.
      apply existsb_exists in COV. destruct COV as (ct0 & J & M).
      apply andb_true_iff in M. destruct M as [M1 M2]. apply Nat.eqb_eq in M1.
      destruct (cert_entry _ ct0 (rcs_ok ct0 J)) as [_ L0].
      destruct (fn_wf g Lg) as (_ & _ & N0 & _).
      split; auto. split; auto. exists ct0. repeat split; auto.
      eapply e_leq_sound; eauto. eapply e_leq_sound; eauto.
    - intros f n s s' _ (Lf & Ln & ct & K & F & G) X. subst f.
      destruct (cert_block _ ct n (rcs_ok ct K) Ln) as (e' & C & L).
      destruct (fn_wf (ct_fn ct) Lf) as (_ & _ & _ & _ & Wb).
      split; auto. split; auto. exists ct. repeat split; auto.
      eapply e_leq_sound; [exact L|]. eapply (XB _ _ _ X _ (get_fn p (ct_fn ct))); eauto.
  Qed.
End CheckSound.

Theorem ig_check_sound p voff entries init tpre tpost rcerts scerts :
  ig_check p voff entries init tpre tpost rcerts scerts = true ->
  forall Init : store -> Prop, (forall s, Init s -> genv init s) ->
  (forall f n s, IRPre p entries Init f n s -> genv (tpre f n) s) /\
  (forall f n s, IRPost p entries Init f n s -> genv (tpost f n) s) /\
  (forall sm, In sm (map fst scerts) ->
     forall s0 s1, genv (s_pre sm) s0 -> exec_fun p (s_fn sm) s0 s1 -> genv (s_post sm) s1).
Proof.
  unfold ig_check. intros H Init HI.
  apply andb_true_iff in H. destruct H as [H HT].
  apply andb_true_iff in H. destruct H as [H HR].
  apply andb_true_iff in H. destruct H as [H HS].
  apply andb_true_iff in H. destruct H as [H HC2].
  apply andb_true_iff in H. destruct H as [WF HC].
  set (S := map fst scerts) in *. set (scs := map snd scerts) in *.
  rewrite forallb_forall in HC, HC2, HS, HR, HT.
  assert (summs : forall sm, In sm S -> exists ct, In ct scs /\ summ_ok p sm ct = true).
  { intros sm I. unfold S in I. apply in_map_iff in I. destruct I as ([sm' ct] & E & I). simpl in E. subst sm'.
    exists ct. split.
    - unfold scs. apply in_map_iff. exists (sm, ct). auto.
    - apply (HS _ I). }
  assert (rootsok : forall f, In f entries -> exists ct, In ct rcerts /\ ct_fn ct = f /\ e_leq init (ct_pre ct) = true).
  { intros f I. specialize (HR _ I). apply existsb_exists in HR. destruct HR as (ct & J & K).
    apply andb_true_iff in K. destruct K as [K1 K2]. apply Nat.eqb_eq in K1.
    exists ct. repeat split; auto. }
  destruct (reach_sound p voff WF S scs HC summs rcerts HC2 entries Init init HI rootsok) as [R1 R2].
  destruct (exec_sound p voff WF S scs HC summs) as (_ & _ & _ & XF).
  assert (TB : forall ct n, In ct rcerts -> n < fn_nblocks (get_fn p (ct_fn ct)) ->
               e_leq (ct_tpre ct n) (tpre (ct_fn ct) n) = true /\ e_leq (ct_tpost ct n) (tpost (ct_fn ct) n) = true).
  { intros ct n I L. specialize (HT _ I). rewrite forallb_forall in HT.
    assert (J : In n (seq 0 (fn_nblocks (get_fn p (ct_fn ct))))) by (apply in_seq; lia).
    specialize (HT _ J). apply andb_true_iff in HT. exact HT. }
  split; [|split].
  - intros f n s R. destruct (R1 _ _ _ R) as (_ & Ln & ct & I & F & G). subst f.
    eapply e_leq_sound; [apply (TB ct n I Ln)|exact G].
  - intros f n s R. destruct (R2 _ _ _ R) as (_ & Ln & ct & I & F & G). subst f.
    eapply e_leq_sound; [apply (TB ct n I Ln)|exact G].
  - intros sm I s0 s1 G X. destruct (summs sm I) as (ct & J & OK).
    assert (L : s_fn sm < length p).
    { unfold summ_ok in OK. apply andb_true_iff in OK. destruct OK as [OK _].
      apply andb_true_iff in OK. destruct OK as [O1 _]. apply Nat.eqb_eq in O1. rewrite <- O1.
      apply (cert_entry p voff S None ct (HC ct J)). }
    apply (XF _ _ _ X L sm I eq_refl G).
Qed.

Theorem td_check_sound p voff entries init tpre tpost roots scerts :
  td_check p voff entries init tpre tpost roots scerts = true ->
  forall Init : store -> Prop, (forall s, Init s -> genv init s) ->
  (forall f n s, IRPre p entries Init f n s -> genv (tpre f n) s) /\
  (forall f n s, IRPost p entries Init f n s -> genv (tpost f n) s) /\
  (forall sm, In sm (map fst scerts) ->
     forall s0 s1, genv (s_pre sm) s0 -> exec_fun p (s_fn sm) s0 s1 -> genv (s_post sm) s1).
Proof. unfold td_check. apply ig_check_sound. Qed.

Theorem td_validate_sound p voff entries init tpre tpost S delay desc efuel wtos :
  td_validate p voff entries init tpre tpost S delay desc efuel wtos = true ->
  forall Init : store -> Prop, (forall s, Init s -> genv init s) ->
  (forall f n s, IRPre p entries Init f n s -> genv (tpre f n) s) /\
  (forall f n s, IRPost p entries Init f n s -> genv (tpost f n) s) /\
  (forall sm, In sm S ->
     forall s0 s1, genv (s_pre sm) s0 -> exec_fun p (s_fn sm) s0 s1 -> genv (s_post sm) s1).
Proof.
  unfold td_validate. intros H Init HI.
  destruct (td_check_sound _ _ _ _ _ _ _ _ H Init HI) as (A & B & C).
  split; auto. split; auto. intros sm I. apply C.
  rewrite map_map. cbn [fst]. rewrite map_id. apply in_or_app. left. exact I.
Qed.

Theorem td_bottom_never_entered p voff entries init tpre tpost S delay desc efuel wtos :
  td_validate p voff entries init tpre tpost S delay desc efuel wtos = true ->
  forall Init : store -> Prop, (forall s, Init s -> genv init s) ->
  forall f n, e_is_bot (tpre f n) = true -> forall s, ~ IRPre p entries Init f n s.
Proof.
  intros H Init HI f n B s R. destruct (td_validate_sound _ _ _ _ _ _ _ _ _ _ _ H Init HI) as (A & _).
  eapply e_is_bot_sound; eauto.
Qed.

(* ------------------------------------------------------------------ joined calling contexts (known finding)
   default_context_sensitivity_policy::add joins the two oldest calling contexts when there are
   more than max_call_contexts: (pre1 | pre2, post1 | post2) is stored and reused as a summary,
   but it is not one.  The model mirrors the code as it is; here is an input on which the
   stored summary is wrong (replayed on the implementation by the check). *)
Definition gammab (i : itv) (x : Z) : bool := ble (lb i) (Fin x) && ble (Fin x) (ub i).
Definition menv (e : env) (s : store) : bool :=
  match e with EBot => false | EMap m => forallb (fun k => gammab (get m k) (s k)) (keys m) end.

Lemma menv_true e s : menv e s = true -> genv e s.
Proof.
  destruct e as [|m]; simpl; [discriminate|]. intros H k. rewrite forallb_forall in H.
  destruct (in_dec N.eq_dec k (keys m)) as [I|NI].
  - specialize (H _ I). unfold gammab in H. apply andb_true_iff in H. exact H.
  - rewrite get_not_key by exact NI. apply Scalar.ItvSound.gamma_top.
Qed.

Lemma menv_false e s : menv e s = false -> ~ genv e s.
Proof.
  destruct e as [|m]; simpl; auto. intros H G.
  assert (X : forallb (fun k => gammab (get m k) (s k)) (keys m) = true).
  { apply forallb_forall. intros k _. unfold gammab. apply andb_true_iff. apply G. }
  congruence.
Qed.

Definition jc_prog : iprog :=
  [mkFunc [] [] [[IBase (SAssign 2%N (mkLE [] 0%Z)); ICall [3%N] 1 [2%N];
                  IBase (SAssign 2%N (mkLE [] 2%Z)); ICall [3%N] 1 [2%N];
                  IBase (SAssign 2%N (mkLE [] 7%Z)); ICall [3%N] 1 [2%N];
                  IBase (SAssign 2%N (mkLE [] 1%Z)); ICall [3%N] 1 [2%N]]] [] (Some 0);
   mkFunc [0%N] [1%N]
          [[IBase (SSelect 1%N (mkLC EQ (mkLE [(1%Z, 0%N)] (-1)%Z)) (mkLE [] 100%Z) (mkLE [(1%Z, 0%N)] 0%Z))]]
          [] (Some 0)].

Theorem joined_contexts_refuted :
  exists w0 w1 rs sm s0 s1,
    Fix.Wto.build (fn_graph (get_fn jc_prog 0)) 0 = Some w0 /\
    Fix.Wto.build (fn_graph (get_fn jc_prog 1)) 0 = Some w1 /\
    cg_recset jc_prog = Some rs /\
    let wtos := fun f => if Nat.eqb f 0 then w0 else w1 in
    (* max_call_contexts = 1 *)
    let g := td_run jc_prog (prog_voff jc_prog) (Some 1) true 2 2 100 wtos rs 5 (cg_entries jc_prog) e_top in
    g_err g = false /\ In sm (g_summaries jc_prog g) /\
    genv (s_pre sm) s0 /\ exec_fun jc_prog (s_fn sm) s0 s1 /\ ~ genv (s_post sm) s1.
Proof.
  set (s0 := fun k : var => if N.eqb k 0 then 1%Z else 0%Z).
  eexists. eexists. eexists. eexists. exists s0. exists (upd s0 1%N 100%Z).
  split; [vm_compute; reflexivity|]. split; [vm_compute; reflexivity|]. split; [vm_compute; reflexivity|].
  cbv zeta. split; [vm_compute; reflexivity|].
  split; [vm_compute; left; reflexivity|].
  split; [apply menv_true; vm_compute; reflexivity|].
  split.
  - constructor. apply XF_exit; [reflexivity|].
    eapply XB_cons; [|apply XB_nil]. apply XS_base. reflexivity.
  - apply menv_false. vm_compute. reflexivity.
Qed.
