(* CrawlerCdg.v — property C18: what the control-dependence graph [cdg_of] of the
   assertion-crawler model (Crawler.v) computes, in terms of the runner loop of
   graph_algo_impl::dominance on the reversed graph.

   cdg.hpp: control_dep_graph inverts the post-dominance frontier; post_dominance returns
   WITHOUT computing anything when the CFG has no exit (`if (!g.has_exit()) return;`), so the
   graph is then empty; otherwise, for every block n and every successor s of n, the runner
   climbs the immediate post-dominators from s until it meets ipdom(n) (or n, or a block
   without immediate post-dominator) and every block r it visits gets n in its frontier,
   i.e. r is control dependent on n.

   The statement C18_crawler_control_statement of Props/Properties_C18.v omits the has_exit
   guard: it is false for a CFG without exit ([cdg_statement_refuted]); with the guard it is
   an equivalence ([cdg_of_runner], [cdg_of_runner_exit], [cdg_of_no_exit]). *)
From Coq Require Import ZArith NArith List Bool.
From CrabV Require Import Ir.Syntax Ana.CfgSem Ana.Crawler.
Import ListNotations.

Lemma In_fold_union {A} (f : A -> vset) r : forall l,
  In r (fold_right (fun s acc => union (f s) acc) [] l) <-> exists s, In s l /\ In r (f s).
Proof.
  induction l as [|a l IH]; cbn [fold_right].
  - split; [intros []|intros (s & [] & _)].
  - rewrite union_In, IH. split.
    + intros [H|(s & I & H)]; [exists a|exists s]; cbn [In]; auto.
    + intros (s & [<-|I] & H); [left; exact H|right; exists s; auto].
Qed.

Lemma lookup_map_In {A} (f : label -> A) n : forall ls,
  In n ls -> lookup n (map (fun l => (l, f l)) ls) = Some (f n).
Proof.
  induction ls as [|a ls IH]; cbn [map lookup In]; [intros []|].
  intros H. destruct (N.eqb_spec n a) as [->|NE]; [reflexivity|].
  destruct H as [E|H]; [congruence|exact (IH H)].
Qed.
Lemma lookup_map_not_In {A} (f : label -> A) n : forall ls,
  ~ In n ls -> lookup n (map (fun l => (l, f l)) ls) = None.
Proof.
  intros ls H. apply lookup_None. rewrite map_map. cbn [fst]. rewrite map_id. exact H.
Qed.

Lemma succs_not_label P n : ~ In n (labels P) -> succs P n = [].
Proof.
  intros H. unfold succs, get_block. apply lookup_None in H. rewrite H. reflexivity.
Qed.

(* the runner expression of the statement *)
Definition runner_children (P : cfg) (n r : label) : Prop :=
  exists s, In s (succs P n) /\
    In r (runner_walk (pdoms P) n (ipdom (pdoms P) n) (S (length (c_blocks P))) (Some s)).

(* no exit: cdg.hpp computes nothing *)
Theorem cdg_of_no_exit P n : c_exit P = None -> cdg_get (cdg_of P) n = [].
Proof. intros E. unfold cdg_of. rewrite E. reflexivity. Qed.

(* with an exit: the statement, for every n (a block or not) and every r *)
Theorem cdg_of_runner_exit P n r :
  c_exit P <> None -> (In r (cdg_get (cdg_of P) n) <-> runner_children P n r).
Proof.
  intros E. unfold cdg_of, runner_children. destruct (c_exit P) as [e|]; [clear E|congruence].
  cbv zeta. unfold cdg_get.
  destruct (in_dec N.eq_dec n (labels P)) as [I|NI].
  - rewrite (lookup_map_In (cdg_children P (pdoms P)) n _ I). unfold cdg_children.
    apply In_fold_union.
  - rewrite (lookup_map_not_In (cdg_children P (pdoms P)) n _ NI), (succs_not_label P n NI).
    split; [intros []|intros (s & [] & _)].
Qed.

(* the exact relationship *)
Theorem cdg_of_runner P n r :
  In r (cdg_get (cdg_of P) n) <-> c_exit P <> None /\ runner_children P n r.
Proof.
  destruct (c_exit P) as [e|] eqn:E.
  - assert (X : c_exit P <> None) by congruence.
    rewrite (cdg_of_runner_exit P n r X). split; [intros H; split; [congruence|exact H]|intros [_ H]; exact H].
  - rewrite (cdg_of_no_exit P n E). split; [intros []|intros [H _]; congruence].
Qed.

(* the statement without the guard fails on a CFG without exit: block 0 -> block 1, no exit;
   the runner started at the successor 1 of block 0 visits 1, the model (as cdg.hpp) has an
   empty graph *)
Definition noexit_cfg : cfg :=
  mkCfg 0%N None
        [(0%N, mkBlock [] [] [1%N]); (1%N, mkBlock [] [0%N] [1%N])] [].

Theorem cdg_statement_refuted :
  ~ (forall P n r, In r (cdg_get (cdg_of P) n) <->
       exists s, In s (succs P n) /\
         In r (runner_walk (pdoms P) n (ipdom (pdoms P) n) (S (length (c_blocks P))) (Some s))).
Proof.
  intros H. destruct (H noexit_cfg 0%N 1%N) as [_ H2].
  assert (X : In 1%N (cdg_get (cdg_of noexit_cfg) 0%N)).
  { apply H2. exists 1%N. vm_compute. auto. }
  vm_compute in X. exact X.
Qed.

(* the guarded statement is not vacuous: a diamond with exit 3, where the branches 1 and 2
   are control dependent on block 0 and the join 3 is not *)
Definition diamond_cfg : cfg :=
  mkCfg 0%N (Some 3%N)
        [(0%N, mkBlock [] [] [1%N; 2%N]); (1%N, mkBlock [] [0%N] [3%N]);
         (2%N, mkBlock [] [0%N] [3%N]); (3%N, mkBlock [] [1%N; 2%N] [])] [].
Example diamond_cdg :
  c_exit diamond_cfg <> None /\
  cdg_of diamond_cfg = [(0%N, [1%N; 2%N]); (1%N, []); (2%N, []); (3%N, [])].
Proof. split; [discriminate|vm_compute; reflexivity]. Qed.
