(* FwdItvSound.v — property C01 for the forward-analyzer model: tables accepted by the
   verified checker over-approximate every concrete execution of the CFG; a bottom
   invariant means the block is never entered. *)
From Coq Require Import ZArith List Bool Arith Lia.
From CrabV Require Import Base.ZInf Scalar.Itv Ir.Syntax Ir.Cfg Dom.ItvEnv Dom.ItvEnvSound Dom.ItvDomain
     Fix.Wto Fix.Engine Fix.EngineCheck Ana.Transformer Ana.FwdItv.
Import ListNotations.

Section Sound.
  Variable p : prog.
  Variable entry : nat.
  Variable use_asm : bool.
  Variable asm : nat -> option env.
  Variable Init : store -> Prop.
  Variable init : env.
  Hypothesis init_s : forall s, Init s -> genv init s.
  Variables pre post : nat -> env.

  Definition ReachPre := RPre env store genv (fun n => bstep (p_block p n)) (p_preds p) entry use_asm asm Init.
  Definition ReachPost := RPost env store genv (fun n => bstep (p_block p n)) (p_preds p) entry use_asm asm Init.

  Lemma blocks_wf : forallb (fun b => forallb stmt_wfb b) (p_blocks p) = true ->
    forall n, block_wf (p_block p n).
  Proof.
    intros H n s I. rewrite forallb_forall in H. unfold p_block in I.
    destruct (nth_in_or_default n (p_blocks p) []) as [J|E].
    - specialize (H _ J). rewrite forallb_forall in H. apply stmt_wfb_sound. apply H. exact I.
    - rewrite E in I. destruct I.
  Qed.

  Theorem fwd_check_sound :
    fwd_check p entry use_asm asm init pre post = true ->
    (forall n s, ReachPre n s -> genv (pre n) s) /\ (forall n s, ReachPost n s -> genv (post n) s).
  Proof.
    unfold fwd_check. intros H.
    apply andb_true_iff in H. destruct H as [H OK].
    apply andb_true_iff in H. destruct H as [H EN].
    apply andb_true_iff in H. destruct H as [WF ED].
    assert (S := inductive_sound env store genv itv_ops
              (fun a b s H => e_join_sound a b s (or_introl H))
              (fun a b s H => e_join_sound a b s (or_intror H))
              e_meet_sound
              (fun a b s L G => e_leq_sound a b s L G)
              (fun n e => tr_block (p_block p n) e) (fun n => bstep (p_block p n))
              (fun n a s s' G B => tr_block_sound (p_block p n) a s s' (blocks_wf WF n) G B)
              (p_preds p) entry use_asm asm Init init init_s (seq 0 (length (p_blocks p)))).
    assert (NC : In entry (seq 0 (length (p_blocks p))) /\
                 forall n q, In q (p_preds p n) -> In n (seq 0 (length (p_blocks p)))).
    { split.
      - apply in_seq. apply Nat.ltb_lt in EN. lia.
      - intros n q I. unfold p_preds in I. apply in_map_iff in I. destruct I as ([a b] & E & I).
        apply filter_In in I. destruct I as [I F]. simpl in *. apply Nat.eqb_eq in F. subst.
        rewrite forallb_forall in ED. specialize (ED _ I). simpl in ED.
        apply andb_true_iff in ED. destruct ED as [_ E2]. apply Nat.ltb_lt in E2.
        apply in_seq. lia. }
    specialize (S NC pre post OK). destruct S as [S1 S2].
    split; intros n s R; [apply S1|apply S2]; exact R.
  Qed.

  Corollary bottom_block_never_entered :
    fwd_check p entry use_asm asm init pre post = true ->
    forall n, e_is_bot (pre n) = true -> forall s, ~ ReachPre n s.
  Proof.
    intros H n B s R. destruct (fwd_check_sound H) as [S _].
    eapply e_is_bot_sound; eauto.
  Qed.
End Sound.
