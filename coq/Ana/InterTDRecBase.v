(* InterTDRecBase.v — auxiliary definitions for Ana/InterTDRecSound.v: the fixpoint table, the order on global states, the stratified collecting semantics of a function body and the coverage operator (greatest set of covered function entries relative to a set of promised ones). *)
From Coq Require Import ZArith NArith List Bool Arith Lia Relations.
From CrabV Require Import Base.ZInf Scalar.Itv Ir.Syntax Ir.Cfg Dom.ItvEnv Dom.ItvEnvSound Dom.ItvDomain
     Dom.ItvDomainSound Fix.Wto Fix.WtoCheck Fix.WtoSound Fix.WtoRoot Fix.Engine Fix.EngineCheck Fix.EngineRel
     Fix.EngineFS Ana.Transformer Ana.FwdItv Ana.FwdItvEngineSound Ana.InterSyntax Ana.InterSem Ana.InterSemIdx
     Ana.InterTD Ana.InterTDSound Ana.InterEngineSound Ana.InterTDModelSound Ana.InterTDRec.
Import ListNotations.

(* ------------------------------------------------------------------ the fixpoint table *)
Definition keys (t : fixtab) : list nat := map fst t.

Lemma fix_find_some f t v : fix_find f t = Some v -> In f (keys t).
Proof.
  unfold fix_find. destruct (find _ t) as [q|] eqn:F; [|discriminate]. intros _.
  apply find_some in F. destruct F as [I E]. apply Nat.eqb_eq in E. subst f.
  unfold keys. apply in_map. exact I.
Qed.
Lemma fix_find_none f t : fix_find f t = None <-> ~ In f (keys t).
Proof.
  unfold fix_find, keys. split.
  - destruct (find _ t) as [q|] eqn:F; [discriminate|]. intros _ I.
    apply in_map_iff in I. destruct I as (q & E & I).
    pose proof (find_none _ _ F q I) as N. cbv beta in N. rewrite E, Nat.eqb_refl in N. discriminate.
  - intros N. destruct (find _ t) as [q|] eqn:F; [|reflexivity]. exfalso. apply N.
    apply find_some in F. destruct F as [I E]. apply Nat.eqb_eq in E. subst f. apply in_map. exact I.
Qed.
Lemma fix_find_in f t : In f (keys t) -> exists v, fix_find f t = Some v.
Proof.
  intros I. destruct (fix_find f t) as [v|] eqn:E; [eauto|]. apply fix_find_none in E. contradiction.
Qed.
Lemma fix_mem_spec f t : fix_mem f t = true <-> In f (keys t).
Proof.
  unfold fix_mem. split.
  - destruct (fix_find f t) eqn:E; [|discriminate]. intros _. eapply fix_find_some; eauto.
  - intros I. destruct (fix_find_in _ _ I) as [v ->]. reflexivity.
Qed.
Lemma keys_set f v t : keys (fix_set f v t) = keys t.
Proof.
  unfold keys, fix_set. rewrite map_map. apply map_ext_in. intros q _.
  destruct (Nat.eqb_spec (fst q) f) as [->|]; reflexivity.
Qed.
Lemma fix_find_set_same f v t : In f (keys t) -> fix_find f (fix_set f v t) = Some v.
Proof.
  unfold fix_find, fix_set, keys. induction t as [|q t IH]; cbn [map In find]; [intros []|].
  intros I. destruct (Nat.eqb_spec (fst q) f) as [E|N].
  - cbn [fst]. rewrite Nat.eqb_refl. reflexivity.
  - destruct (Nat.eqb_spec (fst q) f); [contradiction|]. apply IH. destruct I as [I|I]; [contradiction|exact I].
Qed.
Lemma fix_find_set_other f v t h : h <> f -> fix_find h (fix_set f v t) = fix_find h t.
Proof.
  intros N. unfold fix_find, fix_set. induction t as [|q t IH]; cbn [map find]; [reflexivity|].
  destruct (Nat.eqb_spec (fst q) f) as [E|E].
  - cbn [fst]. destruct (Nat.eqb_spec f h); [congruence|].
    destruct (Nat.eqb_spec (fst q) h); [congruence|]. exact IH.
  - destruct (Nat.eqb (fst q) h); [reflexivity|exact IH].
Qed.
Lemma keys_app t f v : keys (t ++ [(f, v)]) = keys t ++ [f].
Proof. unfold keys. rewrite map_app. reflexivity. Qed.
Lemma fix_find_app_same t f v : ~ In f (keys t) -> fix_find f (t ++ [(f, v)]) = Some v.
Proof.
  intros N. unfold fix_find. induction t as [|q t IH]; cbn [app find fst].
  - rewrite Nat.eqb_refl. reflexivity.
  - destruct (Nat.eqb_spec (fst q) f) as [E|E].
    + exfalso. apply N. left. exact E.
    + apply IH. intros I. apply N. right. exact I.
Qed.
Lemma fix_find_app_other t f v h : h <> f -> fix_find h (t ++ [(f, v)]) = fix_find h t.
Proof.
  intros N. unfold fix_find. induction t as [|q t IH]; cbn [app find fst].
  - destruct (Nat.eqb_spec f h); [congruence|reflexivity].
  - destruct (Nat.eqb (fst q) h); [reflexivity|exact IH].
Qed.
Lemma keys_erase f t : keys (fix_erase f t) = filter (fun k => negb (Nat.eqb k f)) (keys t).
Proof.
  unfold keys, fix_erase. induction t as [|q t IH]; cbn [filter map]; [reflexivity|].
  destruct (Nat.eqb (fst q) f); cbn [negb map]; [exact IH|f_equal; exact IH].
Qed.
Lemma filter_notin (l : list nat) f : ~ In f l -> filter (fun k => negb (Nat.eqb k f)) l = l.
Proof.
  induction l as [|a l IH]; cbn [filter]; [reflexivity|]. intros N.
  destruct (Nat.eqb_spec a f) as [E|E]; [exfalso; apply N; left; exact E|].
  cbn [negb]. f_equal. apply IH. intros I. apply N. right. exact I.
Qed.
Lemma keys_erase_last f t K : keys t = K ++ [f] -> ~ In f K -> keys (fix_erase f t) = K.
Proof.
  intros E N. rewrite keys_erase, E, filter_app. cbn [filter]. rewrite Nat.eqb_refl. cbn [negb].
  rewrite app_nil_r. apply filter_notin. exact N.
Qed.
Lemma fix_find_erase_other f t h : h <> f -> fix_find h (fix_erase f t) = fix_find h t.
Proof.
  intros N. unfold fix_find, fix_erase. induction t as [|q t IH]; cbn [filter find]; [reflexivity|].
  destruct (Nat.eqb_spec (fst q) f) as [E|E]; cbn [negb find].
  - destruct (Nat.eqb_spec (fst q) h); [congruence|]. exact IH.
  - destruct (Nat.eqb (fst q) h); [reflexivity|exact IH].
Qed.
Lemma fix_empty_keys t : fix_empty t = true <-> keys t = [].
Proof. destruct t; cbn; split; intros; (reflexivity || discriminate). Qed.

(* ------------------------------------------------------------------ projections, order on global states *)
Definition stk (g : rgst) : list nat := g_stack (r_g g).
Definition fx (g : rgst) : fixtab := r_fix g.
Definition rcc (g : rgst) : nat -> list ctx := g_cc (r_g g).
Definition rerr (g : rgst) : bool := g_err (r_g g).

Record rstep (g g' : rgst) : Prop := mkRS {
  rs_base : gstep (r_g g) (r_g g');
  rs_keys : keys (fx g') = keys (fx g);
  rs_fix : forall h E X, fix_find h (fx g) = Some (E, X) ->
             exists E', fix_find h (fx g') = Some (E', X) /\ forall s, genv E s -> genv E' s }.

Lemma rstep_refl g : rstep g g.
Proof. constructor; [apply gstep_refl|reflexivity|]. intros h E X H. exists E. auto. Qed.
Lemma rstep_trans a b c : rstep a b -> rstep b c -> rstep a c.
Proof.
  intros [A1 A2 A3] [B1 B2 B3]. constructor; [eapply gstep_trans; eauto|congruence|].
  intros h E X H. destruct (A3 h E X H) as (E' & H' & S1). destruct (B3 h E' X H') as (E'' & H'' & S2).
  exists E''. split; auto.
Qed.
Lemma rstep_stk g g' : rstep g g' -> stk g' = stk g.
Proof. intros S. exact (gs_stack _ _ (rs_base _ _ S)). Qed.
Lemma rstep_err g g' : rstep g g' -> rerr g' = false -> rerr g = false.
Proof. intros S. exact (gstep_fin _ _ (rs_base _ _ S)). Qed.
Lemma rstep_lift (h : gst -> gst) g : (forall g0, gstep g0 (h g0)) -> rstep g (r_lift h g).
Proof.
  intros H. constructor; cbn; [apply H|reflexivity|]. intros k E X F. exists E. auto.
Qed.

(* ------------------------------------------------------------------ collecting semantics: monotonicity *)
Lemma RP_mono (A State : Type) (gamma : A -> State -> Prop) (b b' : nat -> State -> State -> Prop)
      (preds : nat -> list nat) (entry : nat) (Init Init' : State -> Prop) :
  (forall n s s', b n s s' -> b' n s s') -> (forall s, Init s -> Init' s) ->
  (forall n s, RPre A State gamma b preds entry false (fun _ => None) Init n s ->
               RPre A State gamma b' preds entry false (fun _ => None) Init' n s) /\
  (forall n s, RPost A State gamma b preds entry false (fun _ => None) Init n s ->
               RPost A State gamma b' preds entry false (fun _ => None) Init' n s).
Proof.
  intros HB HI.
  destruct (R_mutind A State gamma b preds entry false (fun _ => None) Init
              (fun n s _ => RPre A State gamma b' preds entry false (fun _ => None) Init' n s)
              (fun n s _ => RPost A State gamma b' preds entry false (fun _ => None) Init' n s)) as [H1 H2].
  - intros s I a. apply RP_init; [apply HI; exact I|exact a].
  - intros n q s I _ R a. eapply RP_edge; eauto.
  - intros n s s' _ R B. eapply RPo; eauto.
  - split; intros n s R; [exact (H1 n s R)|exact (H2 n s R)].
Qed.

Section Cov.
  Variable p : iprog.
  Variable n : nat.                    (* the level: calls are interpreted by xfun p n *)

  Definition bsn (f blk : nat) : store -> store -> Prop := gblock p (xfun p n) (fn_block (get_fn p f) blk).
  Definition IPren (f : nat) (S0 : store -> Prop) : nat -> store -> Prop :=
    RPre env store genv (bsn f) (fn_preds (get_fn p f)) 0 false (fun _ : nat => @None env) S0.
  Definition IPostn (f : nat) (S0 : store -> Prop) : nat -> store -> Prop :=
    RPost env store genv (bsn f) (fn_preds (get_fn p f)) 0 false (fun _ : nat => @None env) S0.

  Lemma IPren_init f (S0 : store -> Prop) s : S0 s -> IPren f S0 0 s.
  Proof. intros H. apply RP_init; [exact H|exact I]. Qed.
  Lemma IPren_edge f S0 q blk s : In (q, blk) (f_edges (get_fn p f)) -> IPostn f S0 q s -> IPren f S0 blk s.
  Proof. intros E H. apply RP_edge with q; [apply fn_preds_edge; exact E|exact H|exact I]. Qed.
  Lemma IPostn_step f S0 blk s s' : IPren f S0 blk s -> bsn f blk s s' -> IPostn f S0 blk s'.
  Proof. intros H B. apply RPo with s; assumption. Qed.
  Lemma IPn_mono f (S0 S0' : store -> Prop) : (forall s, S0 s -> S0' s) ->
    (forall blk s, IPren f S0 blk s -> IPren f S0' blk s) /\ (forall blk s, IPostn f S0 blk s -> IPostn f S0' blk s).
  Proof. intros H. apply RP_mono; auto. Qed.

  Lemma gfrom_intra S0 g blk a b : gfrom p (xfun p n) g blk a b -> IPren g S0 blk a ->
    exists x, f_exit (get_fn p g) = Some x /\ IPostn g S0 x b.
  Proof.
    induction 1 as [g k a b E B | g k m a b c B I F IH]; intros R.
    - exists k. split; [exact E|]. eapply IPostn_step; eauto.
    - apply IH. eapply IPren_edge; eauto. eapply IPostn_step; eauto.
  Qed.

  Definition CallsCovn (cov : nat -> store -> Prop) (f blk : nat) (s : store) : Prop :=
    forall l1 outs g0 ins l2 mid s0,
      fn_block (get_fn p f) blk = l1 ++ ICall outs g0 ins :: l2 ->
      gblock p (xfun p n) l1 s mid -> bind_ins (f_ins (get_fn p g0)) ins mid s0 -> cov g0 s0.

  Definition CtxCovn (tp tq : nat -> nat -> env) (cov : nat -> store -> Prop) (f : nat) (S0 : store -> Prop) : Prop :=
    (forall blk s, IPren f S0 blk s -> genv (tp f blk) s /\ CallsCovn cov f blk s) /\
    (forall blk s, IPostn f S0 blk s -> genv (tq f blk) s).

  Lemma CtxCovn_mono (tp tq tp' tq' : nat -> nat -> env) (cov cov' : nat -> store -> Prop) f (S0 S0' : store -> Prop) :
    (forall blk s, genv (tp f blk) s -> genv (tp' f blk) s) ->
    (forall blk s, genv (tq f blk) s -> genv (tq' f blk) s) ->
    (forall g0 s0, cov g0 s0 -> cov' g0 s0) -> (forall s, S0' s -> S0 s) ->
    CtxCovn tp tq cov f S0 -> CtxCovn tp' tq' cov' f S0'.
  Proof.
    intros H1 H2 H3 H4 [A B]. destruct (IPn_mono f S0' S0 H4) as [M1 M2]. split.
    - intros blk s R. destruct (A blk s (M1 _ _ R)) as [X Y]. split; [apply H1, X|].
      intros l1 outs g0 ins l2 mid s0 E1 E2 E3. apply H3. eapply Y; eauto.
    - intros blk s R. apply H2, B, M2, R.
  Qed.

  (* the coverage operator: C is closed relative to the promised entries P when the tables contain
     the states reached from every entry of C and the callee entries reached from them are in C or
     promised; GG P is the greatest such set *)
  Section Op.
    Variables tp tq : nat -> nat -> env.
    Definition Cl (C P : nat -> store -> Prop) : Prop :=
      forall f s0, C f s0 -> CtxCovn tp tq (fun h s => C h s \/ P h s) f (eq s0).
    Definition GG (P : nat -> store -> Prop) (f : nat) (s0 : store) : Prop :=
      exists C, Cl C P /\ C f s0.

    Lemma GG_cl P : Cl (GG P) P.
    Proof.
      intros f s0 (C & HC & I). eapply CtxCovn_mono; [| | | |exact (HC f s0 I)]; auto.
      intros g0 s1 [X|X]; [left; exists C; split; assumption|right; exact X].
    Qed.
    Lemma GG_intro P f (S : store -> Prop) :
      (forall s0, S s0 -> CtxCovn tp tq (fun h s => (GG P h s \/ (h = f /\ S s)) \/ P h s) f (eq s0)) ->
      forall s0, S s0 -> GG P f s0.
    Proof.
      intros H s0 I. exists (fun h s => GG P h s \/ (h = f /\ S s)). split; [|right; split; [reflexivity|exact I]].
      intros h s [X|[-> X]].
      - eapply CtxCovn_mono; [| | | |exact (GG_cl P h s X)]; auto.
        intros g0 s1 [Y|Y]; [left; left; exact Y|right; exact Y].
      - apply H. exact X.
    Qed.
    Lemma GG_cut (P Q : nat -> store -> Prop) :
      (forall f s, Q f s -> GG (fun h s' => P h s' \/ Q h s') f s) ->
      forall f s, GG (fun h s' => P h s' \/ Q h s') f s -> GG P f s.
    Proof.
      intros HQ f s I. exists (GG (fun h s' => P h s' \/ Q h s')). split; [|exact I].
      intros h s1 X. eapply CtxCovn_mono; [| | | |exact (GG_cl _ h s1 X)]; auto.
      intros g0 s2 [Y|[Y|Y]]; [left; exact Y|right; exact Y|left; apply HQ; exact Y].
    Qed.
  End Op.

  Lemma GG_mono (tp tq tp' tq' : nat -> nat -> env) (P P' : nat -> store -> Prop) :
    (forall f blk s, genv (tp f blk) s -> genv (tp' f blk) s) ->
    (forall f blk s, genv (tq f blk) s -> genv (tq' f blk) s) ->
    (forall h s, P h s -> P' h s) ->
    forall f s, GG tp tq P f s -> GG tp' tq' P' f s.
  Proof.
    intros H1 H2 H3 f s (C & HC & I). exists C. split; [|exact I].
    intros h s1 X. eapply CtxCovn_mono; [| | | |exact (HC h s1 X)]; auto.
    intros g0 s2 [Y|Y]; [left; exact Y|right; apply H3; exact Y].
  Qed.
End Cov.

(* lower levels *)
Lemma IPn_level p n m f S0 : n <= m ->
  (forall blk s, IPren p n f S0 blk s -> IPren p m f S0 blk s) /\
  (forall blk s, IPostn p n f S0 blk s -> IPostn p m f S0 blk s).
Proof.
  intros L. apply RP_mono; auto. intros blk s s'. unfold bsn. apply gblock_mono. apply xfun_le. exact L.
Qed.

(* ------------------------------------------------------------------ the engine writes the pre-invariant of a
   block only when it visits the component of that block *)
Section SFrame.
  Variables A G : Type.
  Variable OP : aops A.
  Variable analyze : nat -> A -> G -> A * G.
  Variables preds nest : nat -> list nat.
  Variables entry delay descending fuel : nat.
  Notation visit := (svisit A G OP analyze preds nest entry delay descending fuel).
  Notation visit_all := (svisit_all A G OP analyze preds nest entry delay descending fuel).

  Definition PFrame (C : list nat) (v : sest A G -> option (sest A G)) : Prop :=
    forall st st', v st = Some st' -> forall m, ~ In m C -> se_pre A G st' m = se_pre A G st m.

  Lemma tset_other' (t : nat -> A) k v m : m <> k -> tset A t k v m = t m.
  Proof. intros N. unfold tset. destruct (Nat.eqb_spec m k); [contradiction|reflexivity]. Qed.

  Section Cyc.
    Variable vbody : sest A G -> option (sest A G).
    Variable C : list nat.
    Variable h : nat.
    Variable entry_pre : option A.
    Hypothesis VB : PFrame C vbody.

    Lemma inc_frame : forall f i p0 st p' st',
      sinc_loop A G OP analyze preds delay vbody h entry_pre f i p0 st = Some (p', st') ->
      forall m, m <> h -> ~ In m C -> se_pre A G st' m = se_pre A G st m.
    Proof.
      induction f as [|f IH]; intros i p0 st p' st' H m Nh NC; [discriminate|].
      cbn [sinc_loop] in H.
      destruct (vbody _) as [st2|] eqn:V; [|discriminate].
      pose proof (VB _ _ V m NC) as F2. cbn [se_pre] in F2. rewrite tset_other' in F2 by exact Nh.
      destruct (o_leq A OP _ p0).
      - inversion H; subst p' st'. cbn [se_pre]. rewrite tset_other' by exact Nh. exact F2.
      - rewrite (IH _ _ _ _ _ H m Nh NC). exact F2.
    Qed.
    Lemma dec_frame : forall f i p0 st st',
      sdec_loop A G OP analyze preds descending vbody h entry_pre f i p0 st = Some st' ->
      forall m, m <> h -> ~ In m C -> se_pre A G st' m = se_pre A G st m.
    Proof.
      induction f as [|f IH]; intros i p0 st st' H m Nh NC; [discriminate|].
      cbn [sdec_loop] in H.
      destruct (vbody _) as [st2|] eqn:V; [|discriminate].
      pose proof (VB _ _ V m NC) as F2. cbn [se_pre] in F2.
      destruct (o_leq A OP p0 _).
      { inversion H; subst st'. exact F2. }
      destruct (descending <? i).
      { inversion H; subst st'. exact F2. }
      rewrite (IH _ _ _ _ H m Nh NC). cbn [se_pre]. rewrite tset_other' by exact Nh. exact F2.
    Qed.
    Lemma cyc_frame pre0 : PFrame (h :: C) (cyc_core A G OP analyze preds delay descending fuel vbody h entry_pre pre0).
    Proof.
      intros st st' H m NM. unfold cyc_core in H.
      assert (Nh : m <> h) by (intros ->; apply NM; left; reflexivity).
      assert (NC : ~ In m C) by (intros X; apply NM; right; exact X).
      destruct (sinc_loop A G OP analyze preds delay vbody h entry_pre fuel 1 pre0 st) as [[q st1]|] eqn:IL; [|discriminate].
      pose proof (inc_frame _ _ _ _ _ _ IL m Nh NC) as F1.
      destruct (Nat.eqb descending 0).
      - inversion H; subst st'. exact F1.
      - rewrite (dec_frame _ _ _ _ _ H m Nh NC). exact F1.
    Qed.
  End Cyc.

  Lemma list_frame : forall l, Forall (fun c => PFrame (cnodes c) (visit c)) l -> PFrame (flat l) (visit_all l).
  Proof.
    induction l as [|c r IH]; intros FA st st' V m NM.
    - cbn in V. inversion V; subst. reflexivity.
    - inversion FA as [|? ? Hc Hr]; subst. cbn [svisit_all] in V. cbn [flat] in NM.
      destruct (visit c st) as [s1|] eqn:E1; [|discriminate].
      rewrite (IH Hr _ _ V m) by (intros X; apply NM, in_or_app; right; exact X).
      apply (Hc _ _ E1). intros X. apply NM, in_or_app. left. exact X.
  Qed.
  Lemma comp_frame : forall c, PFrame (cnodes c) (visit c).
  Proof.
    induction c as [k|h body IH] using comp_ind'.
    - intros st st' V m NM. cbn [svisit] in V. inversion V; subst st'. unfold svisit_vertex.
      destruct (if (se_skip A G st && Nat.eqb k entry)%bool then false else se_skip A G st); cbn [se_pre]; [reflexivity|].
      apply tset_other'. intros ->. apply NM. left. reflexivity.
    - intros st st' V m NM. rewrite visit_cycle_eq in V. cbv zeta in V. rewrite cnodes_cycle in NM.
      destruct (se_skip A G st && negb (se_skip A G st && comp_member entry (Cycle h body)))%bool.
      + inversion V; subst. reflexivity.
      + apply (cyc_frame _ (flat body) h _ (list_frame body IH) _ _ _ V m) in NM. cbn [se_pre] in NM. exact NM.
  Qed.
  Lemma visit_all_frame l : PFrame (flat l) (visit_all l).
  Proof. apply list_frame. apply Forall_forall. intros c _. apply comp_frame. Qed.

  (* the entry block is a vertex: its pre-invariant is the initial value *)
  Lemma srun_entry_pre r init g e : ~ In entry (flat r) ->
    srun A G OP analyze preds nest entry delay descending fuel (Vertex entry :: r) init g = Some e ->
    se_pre A G e entry = init.
  Proof.
    intros NI RUN. unfold srun in RUN. cbn [svisit_all svisit] in RUN.
    rewrite (visit_all_frame r _ _ RUN entry NI). unfold svisit_vertex. cbn [se_skip se_pre se_g].
    rewrite Nat.eqb_refl. cbn [andb se_pre]. unfold tset. rewrite Nat.eqb_refl. reflexivity.
  Qed.
End SFrame.
