(* CrawlerSound.v — soundness of the assertion crawler model for data dependences.

   Paths: [spath P l rest pi] says that the statement sequence pi can be traversed in the CFG
   from the program point "block l, remaining statements rest" (falling through the end of a
   block into any successor).  [run_path pi hv s] executes such a sequence on store s as pure
   data flow: assume / assert do not filter (so every graph path is covered, feasible or not),
   havoc takes its values from the list hv, division by zero and `unreachable` have no result.

   Theorem: if the sequence pi ++ [assert(c) a] can be traversed from the entry of block l and pi
   contains no `unreachable`, then assertion a is listed at l, and two stores that agree on the
   variables listed for a give, along pi with the same havoc values, the same value of c.
   Hence every variable whose value at the entry of l can flow into the condition is listed.
   Control dependences only add variables (the proof uses nothing else about them). *)
From Coq Require Import ZArith List Bool Lia.
From CrabV Require Import Ir.Syntax Ana.CfgSem Ana.Crawler.
Import ListNotations.

(* ------------------------------------------------------------------ paths and data-only execution *)
Inductive spath (P : cfg) : label -> list stmt -> list stmt -> Prop :=
| sp_nil l rest : spath P l rest []
| sp_stmt l st rest pi : spath P l rest pi -> spath P l (st :: rest) (st :: pi)
| sp_goto l l' b' pi : In l' (succs P l) -> get_block P l' = Some b' ->
                       spath P l' (b_stmts b') pi -> spath P l [] pi.

Definition run_stmt (st : stmt) (hv : list Z) (s : store) : option (store * list Z) :=
  match st with
  | SAssign x e => Some (upd s x (eval_le e s), hv)
  | SArith op x y z => match arith_sem op (s y) (operand_val z s) with
                       | Some v => Some (upd s x v, hv) | None => None end
  | SBit op x y z => match bit_sem op (s y) (operand_val z s) with
                     | Some v => Some (upd s x v, hv) | None => None end
  | SAssume _ | SAssert _ _ => Some (s, hv)
  | SHavoc x => match hv with v :: r => Some (upd s x v, r) | [] => None end
  | SSelect x c e1 e2 => Some (upd s x (if satb c s then eval_le e1 s else eval_le e2 s), hv)
  | SUnreach => None
  end.

Fixpoint run_path (pi : list stmt) (hv : list Z) (s : store) : option store :=
  match pi with
  | [] => Some s
  | st :: r => match run_stmt st hv s with
               | Some (s', hv') => run_path r hv' s'
               | None => None
               end
  end.

(* ------------------------------------------------------------------ fact maps *)
Definition incl_set (V W : vset) : Prop := forall x, In x V -> In x W.
Definition fle (A B : fmap) : Prop :=
  forall a V, lookup a A = Some V -> exists W, lookup a B = Some W /\ incl_set V W.

Lemma fle_refl A : fle A A.
Proof. intros a V H. exists V. split; auto. intros x; auto. Qed.
Lemma fle_trans A B C : fle A B -> fle B C -> fle A C.
Proof.
  intros H1 H2 a V H. destruct (H1 _ _ H) as [W [HW I1]]. destruct (H2 _ _ HW) as [U [HU I2]].
  exists U. split; auto. intros x Hx. auto.
Qed.

Lemma lookup_fadd_same a v m :
  lookup a (fadd a v m) = Some (match lookup a m with Some w => union v w | None => v end).
Proof.
  induction m as [|[k w] r IH]; simpl.
  - rewrite N.eqb_refl. auto.
  - destruct (N.eqb_spec a k); simpl.
    + subst. rewrite N.eqb_refl. auto.
    + destruct (N.eqb_spec a k); [contradiction|]. exact IH.
Qed.
Lemma lookup_fadd_other a b v m : a <> b -> lookup b (fadd a v m) = lookup b m.
Proof.
  intros Hab. induction m as [|[k w] r IH]; simpl.
  - destruct (N.eqb_spec b a); [congruence|auto].
  - destruct (N.eqb_spec a k); simpl.
    + subst. destruct (N.eqb_spec b k); [congruence|auto].
    + destruct (N.eqb_spec b k); auto.
Qed.

Lemma fle_fadd a v m : fle m (fadd a v m).
Proof.
  intros b V H. destruct (N.eq_dec a b) as [->|Hab].
  - rewrite lookup_fadd_same, H. eexists. split; [reflexivity|]. intros x Hx. apply union_In; auto.
  - rewrite lookup_fadd_other by auto. exists V. split; auto. intros x; auto.
Qed.

Lemma fle_fjoin_r A B : fle B (fjoin A B).
Proof.
  induction A as [|[k v] A IH]; simpl; [apply fle_refl|].
  eapply fle_trans; [exact IH|apply fle_fadd].
Qed.
Lemma fle_fjoin_l A B : fle A (fjoin A B).
Proof.
  induction A as [|[k v] A IH]; simpl.
  - intros a V H. discriminate.
  - intros a V H. simpl in H. destruct (N.eqb_spec a k).
    + inversion H; subst. rewrite lookup_fadd_same.
      eexists. split; [reflexivity|]. intros x Hx.
      destruct (lookup k (fjoin A B)); auto. apply union_In; auto.
    + destruct (IH _ _ H) as [W [HW I]]. rewrite lookup_fadd_other by auto. eauto.
Qed.

Lemma fleq_fle A B : fleq A B = true -> fle A B.
Proof.
  unfold fleq. rewrite forallb_forall. intros H a V E.
  apply lookup_In in E. specialize (H _ E). simpl in H.
  destruct (lookup a B) as [w|]; [|discriminate]. exists w. split; auto.
  unfold incl_set. apply subset_spec. exact H.
Qed.

Lemma lookup_map_key (g : N * vset -> N * vset) (a : N) (m : list (N * vset)) :
  (forall kv, fst (g kv) = fst kv) ->
  lookup a (map g m) = match lookup a m with Some v => Some (snd (g (a, v))) | None => None end.
Proof.
  intros Hg. induction m as [|[k w] r IH]; [reflexivity|].
  cbn [map lookup]. pose proof (Hg (k, w)) as E.
  destruct (g (k, w)) as [k' w'] eqn:G. simpl in E. subst k'.
  destruct (N.eqb_spec a k) as [e|e]; [|exact IH]. subst a. cbv beta iota. rewrite G. reflexivity.
Qed.

Lemma lookup_map_vals f a m :
  lookup a (map_vals f m) = match lookup a m with Some v => Some (f v) | None => None end.
Proof.
  unfold map_vals. rewrite (lookup_map_key (fun kv => (fst kv, f (snd kv)))); auto.
Qed.

Lemma crawl_out_ge P m l l' : In l' (succs P l) -> fle (cin_of m l') (crawl_out P m l).
Proof.
  unfold crawl_out. induction (succs P l) as [|a r IH]; simpl; [tauto|].
  intros [->|H].
  - apply fle_fjoin_l.
  - eapply fle_trans; [apply IH; auto|apply fle_fjoin_r].
Qed.

(* ------------------------------------------------------------------ set tests *)
Lemma intersects_spec A B : intersects A B = true <-> exists x, In x A /\ In x B.
Proof.
  unfold intersects. rewrite negb_true_iff. split.
  - intros H. destruct (inter A B) as [|x r] eqn:E; [discriminate|].
    exists x. apply inter_In. rewrite E. simpl; auto.
  - intros [x Hx]. apply inter_In in Hx. destruct (inter A B); [contradiction|auto].
Qed.
Lemma intersects_false A B : intersects A B = false -> forall x, In x A -> ~ In x B.
Proof.
  intros H x Ha Hb. assert (intersects A B = true) by (apply intersects_spec; eauto). congruence.
Qed.

Lemma data_deps_ge_nodef u v : incl_set v (data_deps u [] v).
Proof.
  unfold data_deps. intros x Hx.
  assert (E : forall w, intersects w [] = false).
  { intros w. destruct (intersects w []) eqn:I; auto. apply intersects_spec in I.
    destruct I as [y [_ []]]. }
  rewrite E. destruct (is_empty [] && negb (is_empty u) && intersects u v); auto.
  apply union_In; auto.
Qed.

(* with a single definition x: the set before the statement *)
Lemma data_deps_def u x v :
  data_deps u [x] v = if intersects v [x] then union (diff v [x]) u else v.
Proof. unfold data_deps. simpl. reflexivity. Qed.

Lemma ctrl_deps_ge cx prevs u m a V :
  lookup a m = Some V -> exists W, lookup a (ctrl_deps cx prevs u m) = Some W /\ incl_set V W.
Proof.
  unfold ctrl_deps. revert m V. induction prevs as [|p r IH]; simpl; intros m V H.
  - exists V. split; auto. intros x; auto.
  - destruct (is_empty (cdg_get (x_cdg cx) p)); [apply IH; auto|].
    match goal with |- context [fold_left _ r (map ?g m)] => set (G := g) end.
    assert (HG : forall kv, fst (G kv) = fst kv).
    { intros kv. unfold G. destruct (x_ablk cx (fst kv)); auto. destruct (mem _ _); auto. }
    assert (E : exists V', lookup a (map G m) = Some V' /\ incl_set V V').
    { rewrite (lookup_map_key G a m HG), H. eexists. split; [reflexivity|].
      unfold G. simpl. destruct (x_ablk cx a); [|intros x; auto].
      destruct (mem _ _); simpl; [|intros x; auto]. intros x Hx. apply union_In; auto. }
    destruct E as [V' [E1 E2]]. destruct (IH _ _ E1) as [W [HW I]].
    exists W. split; auto. intros x Hx. auto.
Qed.

(* ------------------------------------------------------------------ one statement *)
Lemma agree_upd_notin V s1 s2 x v1 v2 :
  ~ In x V -> agree V s1 s2 -> agree V (upd s1 x v1) (upd s2 x v2).
Proof.
  intros Hx A y Hy. unfold upd. destruct (N.eqb_spec y x); [subst; contradiction|auto].
Qed.

Lemma agree_union_l A B s1 s2 : agree (union A B) s1 s2 -> agree A s1 s2.
Proof. intros H x Hx. apply H. apply union_In; auto. Qed.
Lemma agree_union_r A B s1 s2 : agree (union A B) s1 s2 -> agree B s1 s2.
Proof. intros H x Hx. apply H. apply union_In; auto. Qed.

(* the value assigned by a defining statement depends on its uses only *)
Definition assigned (st : stmt) (hv : list Z) (s : store) : option (var * Z * list Z) :=
  match st with
  | SAssign x e => Some (x, eval_le e s, hv)
  | SArith op x y z => match arith_sem op (s y) (operand_val z s) with
                       | Some v => Some (x, v, hv) | None => None end
  | SBit op x y z => match bit_sem op (s y) (operand_val z s) with
                     | Some v => Some (x, v, hv) | None => None end
  | SSelect x c e1 e2 => Some (x, if satb c s then eval_le e1 s else eval_le e2 s, hv)
  | _ => None
  end.

Definition is_def_stmt (st : stmt) : bool :=
  match st with SAssign _ _ | SArith _ _ _ _ | SBit _ _ _ _ | SSelect _ _ _ _ => true | _ => false end.

Lemma run_def_stmt st hv s :
  is_def_stmt st = true ->
  run_stmt st hv s = match assigned st hv s with Some (x, v, h) => Some (upd s x v, h) | None => None end.
Proof.
  destruct st; simpl; try discriminate; intros _; auto.
  - destruct (arith_sem _ _ _); auto.
  - destruct (bit_sem _ _ _); auto.
Qed.

Lemma assigned_agree st hv s1 s2 :
  is_def_stmt st = true -> agree (uses st) s1 s2 -> assigned st hv s1 = assigned st hv s2.
Proof.
  destruct st; simpl; try discriminate; intros _ A.
  - rewrite (eval_le_agree e s1 s2 A). auto.
  - assert (E1 : s1 y = s2 y) by (apply A; simpl; auto).
    assert (E2 : operand_val z s1 = operand_val z s2).
    { apply operand_val_agree. intros w Hw. apply A. simpl; auto. }
    rewrite E1, E2. auto.
  - assert (E1 : s1 y = s2 y) by (apply A; simpl; auto).
    assert (E2 : operand_val z s1 = operand_val z s2).
    { apply operand_val_agree. intros w Hw. apply A. simpl; auto. }
    rewrite E1, E2. auto.
  - assert (A1 : agree (lc_vars c) s1 s2) by (intros w Hw; apply A; apply in_or_app; auto).
    assert (A2 : agree (le_vars e1) s1 s2) by (intros w Hw; apply A; apply in_or_app; right; apply in_or_app; auto).
    assert (A3 : agree (le_vars e2) s1 s2) by (intros w Hw; apply A; apply in_or_app; right; apply in_or_app; auto).
    rewrite (satb_agree c s1 s2 A1), (eval_le_agree e1 s1 s2 A2), (eval_le_agree e2 s1 s2 A3). auto.
Qed.

Lemma assigned_var st hv s x v h : assigned st hv s = Some (x, v, h) -> defs st = [x] /\ h = hv.
Proof.
  destruct st; simpl; try discriminate.
  - intros H; inversion H; auto.
  - destruct (arith_sem _ _ _); [|discriminate]. intros H; inversion H; auto.
  - destruct (bit_sem _ _ _); [|discriminate]. intros H; inversion H; auto.
  - intros H; inversion H; auto.
Qed.

Definition step_ok (st : stmt) (V V1 : vset) : Prop :=
  forall s1 s2 hv s1' s2' h1 h2,
    agree V s1 s2 -> run_stmt st hv s1 = Some (s1', h1) -> run_stmt st hv s2 = Some (s2', h2) ->
    agree V1 s1' s2' /\ h1 = h2.

Lemma crawl_stmt_step cx prevs st m a V1 :
  st <> SUnreach -> lookup a m = Some V1 ->
  exists V, lookup a (crawl_stmt cx prevs st m) = Some V /\ step_ok st V V1.
Proof.
  intros NU H.
  assert (DEF : is_def_stmt st = true ->
                exists V, lookup a (map_vals (data_deps (uses st) (defs st)) m) = Some V /\ step_ok st V V1).
  { intros D. rewrite lookup_map_vals, H. eexists. split; [reflexivity|].
    intros s1 s2 hv s1' s2' h1 h2 A R1 R2.
    rewrite (run_def_stmt st hv s1 D) in R1. rewrite (run_def_stmt st hv s2 D) in R2.
    destruct (assigned st hv s1) as [[[x v] h]|] eqn:A1; [|discriminate].
    destruct (assigned st hv s2) as [[[x2 v2] h']|] eqn:A2; [|discriminate].
    inversion R1; subst; clear R1. inversion R2; subst; clear R2.
    destruct (assigned_var _ _ _ _ _ _ A1) as [Dx ->]. destruct (assigned_var _ _ _ _ _ _ A2) as [Dx2 ->].
    rewrite Dx in Dx2. inversion Dx2; subst x2.
    split; auto. rewrite Dx, data_deps_def in A.
    match type of A with agree (if ?c then _ else _) _ _ => destruct c eqn:I end.
    - pose proof (assigned_agree st hv s1 s2 D (agree_union_r _ _ _ _ A)) as E.
      rewrite A1, A2 in E. inversion E; subst. apply agree_upd. apply (agree_union_l _ _ _ _ A).
    - apply agree_upd_notin; auto. intros Hx.
      apply (intersects_false _ _ I x Hx). simpl; auto. }
  destruct st; try (apply DEF; reflexivity).
  - (* assume *)
    simpl. assert (E : lookup a (map_vals (data_deps (lc_vars c) []) m) = Some (data_deps (lc_vars c) [] V1)).
    { rewrite lookup_map_vals, H. auto. }
    destruct (ctrl_deps_ge cx prevs (lc_vars c) _ _ _ E) as [W [HW I]].
    exists W. split; auto.
    intros s1 s2 hv s1' s2' h1 h2 A R1 R2. simpl in R1, R2. inversion R1; inversion R2; subst.
    split; auto. intros x Hx. apply A. apply I. apply data_deps_ge_nodef. exact Hx.
  - (* assert *)
    simpl. destruct (fle_fadd id (lc_vars c) m _ _ H) as [W [HW I]].
    exists W. split; auto.
    intros s1 s2 hv s1' s2' h1 h2 A R1 R2. simpl in R1, R2. inversion R1; inversion R2; subst.
    split; auto. intros y Hy. apply A. apply I. exact Hy.
  - (* havoc *)
    simpl. rewrite lookup_map_vals, H. eexists. split; [reflexivity|].
    intros s1 s2 hv s1' s2' h1 h2 A R1 R2. simpl in R1, R2.
    destruct hv as [|v r]; [discriminate|]. inversion R1; inversion R2; subst.
    split; auto. unfold remove_deps in A. destruct (intersects V1 [x]) eqn:I.
    + apply agree_upd. exact A.
    + apply agree_upd_notin; auto. intros Hx. apply (intersects_false _ _ I x Hx). simpl; auto.
  - (* unreachable *)
    congruence.
Qed.

(* ------------------------------------------------------------------ paths *)
Definition cpost (P : cfg) (cx : ctx) (m : cmap) : Prop :=
  forall l b, get_block P l = Some b ->
              fle (crawl_stmts cx (b_prev b) (b_stmts b) (crawl_out P m l)) (cin_of m l).

Definition relevant (V : vset) (pi : list stmt) (c : lincst) : Prop :=
  forall s1 s2 hv s1' s2',
    agree V s1 s2 -> run_path pi hv s1 = Some s1' -> run_path pi hv s2 = Some s2' ->
    eval_le (lc_exp c) s1' = eval_le (lc_exp c) s2'.

Lemma relevant_mono V W pi c : incl_set V W -> relevant V pi c -> relevant W pi c.
Proof.
  intros I R s1 s2 hv s1' s2' A. apply R. intros x Hx. apply A. apply I. exact Hx.
Qed.

Lemma crawl_path P cx m :
  cpost P cx m ->
  forall l rest pi', spath P l rest pi' ->
  forall pi c a, pi' = pi ++ [SAssert c a] -> ~ In SUnreach pi ->
  exists V, lookup a (crawl_stmts cx (preds P l) rest (crawl_out P m l)) = Some V /\ relevant V pi c.
Proof.
  intros HP l rest pi' SP. induction SP as [l rest | l st rest pi0 SP IH | l l' b' pi0 Hl Hb SP IH];
    intros pi c a E NU.
  - destruct pi; discriminate.
  - destruct pi as [|st' pi1]; simpl in E; inversion E; subst.
    + (* the assertion itself *)
      simpl. rewrite lookup_fadd_same. eexists. split; [reflexivity|].
      intros s1 s2 hv s1' s2' A R1 R2. simpl in R1, R2. inversion R1; inversion R2; subst.
      apply eval_le_agree. intros x Hx. apply A.
      destruct (lookup a _); [apply union_In; left|]; exact Hx.
    + destruct (IH pi1 c a eq_refl) as [V1 [H1 R1]].
      { intros X. apply NU. simpl; auto. }
      assert (N1 : st' <> SUnreach) by (intros ->; apply NU; simpl; auto).
      simpl. destruct (crawl_stmt_step cx (preds P l) st' _ a V1 N1 H1) as [V [HV OK]].
      exists V. split; auto.
      intros s1 s2 hv s1' s2' A X1 X2. simpl in X1, X2.
      destruct (run_stmt st' hv s1) as [[t1 h1]|] eqn:E1; [|discriminate].
      destruct (run_stmt st' hv s2) as [[t2 h2]|] eqn:E2; [|discriminate].
      destruct (OK _ _ _ _ _ _ _ A E1 E2) as [A' ->]. eapply R1; eauto.
  - destruct (IH pi c a E NU) as [V1 [H1 R1]].
    assert (EP : preds P l' = b_prev b') by (unfold preds; rewrite Hb; auto).
    rewrite EP in H1.
    destruct (HP _ _ Hb _ _ H1) as [W1 [HW1 I1]].
    destruct (crawl_out_ge P m l l' Hl _ _ HW1) as [W [HW I2]].
    simpl. exists W. split; auto.
    apply (relevant_mono V1); auto. intros x Hx. auto.
Qed.

Lemma csolve_post P cx fuel m0 m : csolve P cx fuel m0 = Some m -> cpost P cx m.
Proof.
  revert m0. induction fuel as [|f IH]; simpl; intros m0; [discriminate|].
  destruct (cleq (crawl_step P cx m0) m0) eqn:E; [|apply IH].
  intros H; inversion H; subst. intros l b Hb.
  apply fleq_fle. unfold cleq, crawl_step in E. rewrite forallb_forall in E.
  apply lookup_In in Hb.
  specialize (E (l, crawl_stmts cx (b_prev b) (b_stmts b) (crawl_out P m l))).
  apply E. apply (in_map (fun lb => (fst lb, crawl_stmts cx (b_prev (snd lb)) (b_stmts (snd lb)) (crawl_out P m (fst lb)))) _ _ Hb).
Qed.

(* Every assertion reachable from the entry of block l is listed at l, with (at least) the
   variables on which the value of its condition depends along the path. *)
Theorem crawler_sound P control nvars m l b pi c a :
  crawler P control nvars = Some m ->
  get_block P l = Some b ->
  spath P l (b_stmts b) (pi ++ [SAssert c a]) -> ~ In SUnreach pi ->
  exists V, lookup a (cin_of m l) = Some V /\ relevant V pi c.
Proof.
  intros HC Hb SP NU. apply csolve_post in HC.
  destruct (crawl_path P _ m HC _ _ _ SP pi c a eq_refl NU) as [V1 [H1 R1]].
  assert (EP : preds P l = b_prev b) by (unfold preds; rewrite Hb; auto).
  rewrite EP in H1. destruct (HC _ _ Hb _ _ H1) as [W [HW I]].
  exists W. split; auto. apply (relevant_mono V1); auto.
Qed.

(* the syntactic reading: a variable whose entry value changes the condition is listed *)
Corollary crawler_lists_flowing_variable P control nvars m l b pi c a V x s v hv s1 s2 :
  crawler P control nvars = Some m -> get_block P l = Some b ->
  spath P l (b_stmts b) (pi ++ [SAssert c a]) -> ~ In SUnreach pi ->
  lookup a (cin_of m l) = Some V ->
  run_path pi hv s = Some s1 -> run_path pi hv (upd s x v) = Some s2 ->
  eval_le (lc_exp c) s1 <> eval_le (lc_exp c) s2 -> In x V.
Proof.
  intros HC Hb SP NU HV R1 R2 NE.
  destruct (crawler_sound _ _ _ _ _ _ _ _ _ HC Hb SP NU) as [W [HW R]].
  rewrite HV in HW. inversion HW; subst W.
  destruct (mem x V) eqn:M; [apply mem_In; auto|]. exfalso. apply NE.
  apply (R s (upd s x v) hv s1 s2); auto.
  intros y Hy. unfold upd. destruct (N.eqb_spec y x); auto. subst.
  apply mem_false in M. contradiction.
Qed.

(* ------------------------------------------------------------------ non-vacuity *)
(* b0: havoc z; goto b1.   b1: x := y + 1; assert(x <= 0) [id 7]; goto b0 *)
Definition ex_cfg : cfg :=
  mkCfg 0%N None
        [(0%N, mkBlock [SHavoc 2%N] [1%N] [1%N]);
         (1%N, mkBlock [SAssign 0%N (mkLE [(1%Z, 1%N)] 1%Z); SAssert (mkLC INEQ (mkLE [(1%Z, 0%N)] 0%Z)) 7%N] [0%N] [0%N])]
        [].

Example ex_crawler_defined : exists m, crawler ex_cfg true 3 = Some m /\
  cin_of m 0%N = [(7%N, [1%N])] /\ cin_of m 1%N = [(7%N, [1%N])].
Proof. eexists. split; [vm_compute; reflexivity|]. vm_compute. auto. Qed.

Example ex_spath : spath ex_cfg 0%N (stmts_of ex_cfg 0%N)
  ([SHavoc 2%N; SAssign 0%N (mkLE [(1%Z, 1%N)] 1%Z)] ++ [SAssert (mkLC INEQ (mkLE [(1%Z, 0%N)] 0%Z)) 7%N]).
Proof.
  vm_compute stmts_of. simpl app. apply sp_stmt.
  eapply (sp_goto ex_cfg 0%N 1%N); [vm_compute; auto|vm_compute; reflexivity|].
  simpl b_stmts. apply sp_stmt. apply sp_stmt. apply sp_nil.
Qed.
