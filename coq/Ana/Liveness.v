(* Liveness.v — model of analysis/dataflow/liveness.hpp over fixpoint/killgen_fixpoint_iterator.hpp
   (after fixes transforms-1 and transforms-2).

   * killgen: the kill / gen sets of a block exactly as init_fixpoint builds them, scanning the
     block backwards: a definition is added to kill and removed from gen, then the uses are added
     to gen; an `unreachable` statement resets both sets (the statements after it are never
     executed) and marks the block.
   * analyze: in = (out \ kill) U gen; for a marked block in = gen.
   * the backward dataflow solution: live-out(b) = (outputs if b is the exit block) U the
     live-in sets of the successors.  run_bwd_fixpo iterates a monotone system from the empty
     sets, accumulating by union, until nothing changes: its result is the least solution.  The
     model iterates (Jacobi) from the empty sets to a validated post-fixpoint (least: proved
     in LivenessSound.v).
   * live_and_dead_analysis: get(b) = live-out(b); dead_exit(b) = (use U def of b) \ live-out(b),
     and the empty set when live-out(b) is empty (exec() skips such blocks). *)
From Coq Require Import ZArith List Bool.
From CrabV Require Import Ir.Syntax Ana.CfgSem.
Import ListNotations.

Fixpoint killgen (ss : list stmt) : bool * vset * vset :=
  match ss with
  | [] => (false, [], [])
  | st :: r =>
    let '(u, k, g) := killgen r in
    if is_unreach st then (true, [], [])
    else (u, union (defs st) k, union (uses st) (diff g (defs st)))
  end.

Definition analyze (ss : list stmt) (out : vset) : vset :=
  let '(u, k, g) := killgen ss in
  if u then g else union g (diff out k).

Definition lmap := list (label * vset).
Definition in_of (m : lmap) (l : label) : vset :=
  match lookup l m with Some s => s | None => [] end.

Definition big_union (f : label -> vset) (ls : list label) : vset :=
  fold_right (fun l acc => union (f l) acc) [] ls.

(* entry() of liveness_analysis_operations at the exit block, merged with the in-sets of the successors *)
Definition live_out (P : cfg) (m : lmap) (l : label) : vset :=
  union (if is_exit P l then c_outs P else []) (big_union (in_of m) (succs P l)).

Definition step_in (P : cfg) (m : lmap) : lmap :=
  map (fun lb => (fst lb, analyze (b_stmts (snd lb)) (live_out P m (fst lb)))) (c_blocks P).

Definition leq_map (A B : lmap) : bool :=
  forallb (fun ls => subset (snd ls) (in_of B (fst ls))) A.

Fixpoint solve (P : cfg) (fuel : nat) (m : lmap) : option lmap :=
  match fuel with
  | O => None
  | S f => let m' := step_in P m in
           if leq_map m' m then Some m else solve P f m'
  end.

Definition bottom_map (P : cfg) : lmap := map (fun lb => (fst lb, [])) (c_blocks P).

Definition stmt_vars (s : stmt) : vset := union (uses s) (defs s).
(* basic_block::live(): every variable used or defined in the block *)
Definition block_live (ss : list stmt) : vset :=
  fold_right (fun s acc => union (stmt_vars s) acc) [] ss.
Definition all_vars (P : cfg) : vset :=
  fold_right (fun lb acc => union (block_live (b_stmts (snd lb))) acc) (union (c_outs P) []) (c_blocks P).

Definition fuel_for (P : cfg) : nat := S (S (length (c_blocks P) * S (length (all_vars P)))).

(* the in-sets of the least solution *)
Definition liveness (P : cfg) : option lmap := solve P (fuel_for P) (bottom_map P).

(* liveness_analysis::get / live_and_dead_analysis::get *)
Definition live_get (P : cfg) (m : lmap) (l : label) : vset := live_out P m l.

(* live_and_dead_analysis::dead_exit *)
Definition dead_exit (P : cfg) (m : lmap) (l : label) : vset :=
  let lo := live_out P m l in
  if is_empty lo then [] else diff (block_live (stmts_of P l)) lo.
