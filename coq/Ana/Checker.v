(* Checker.v — mirror of intra_checker::run + assert_property_checker::check for numerical
   assertions (checkers/checker.hpp, assertion.hpp) over the interval transformer, and
   property C02 for it: a "safe" verdict means the condition holds whenever an execution
   reaches the assertion, "unreachable" means no execution reaches it. *)
From Coq Require Import ZArith List Bool Arith.
From CrabV Require Import Base.ZInf Scalar.Itv Ir.Syntax Ir.Cfg Dom.ItvEnv Dom.ItvEnvSound Dom.ItvDomain
     Dom.ItvDomainSound Dom.ItvSolverSound Ana.Transformer.
Import ListNotations.

Inductive verdict := VSafe | VWarn | VUnreach.

Arguments d_entails : simpl never.
Arguments d_add : simpl never.

Definition verdict_of (c : lincst) (inv : env) : verdict :=
  if lc_is_contradiction c then (if e_is_bot inv then VSafe else VWarn)
  else if e_is_bot inv then VUnreach
  else if d_entails c inv then VSafe else VWarn.

(* the invariant the checker carries to the next statement *)
Definition next_inv (s : stmt) (inv : env) : env :=
  match s with
  | SAssert c _ =>
    if negb (lc_is_contradiction c) && e_is_bot inv then inv   (* UNREACH: returns early *)
    else tr_stmt s inv
  | _ => tr_stmt s inv
  end.

Fixpoint check_block (bl : block) (inv : env) : list (nat * verdict) :=
  match bl with
  | [] => []
  | s :: r =>
    (match s with SAssert c id => [(id, verdict_of c inv)] | _ => [] end)
      ++ check_block r (next_inv s inv)
  end.

(* what the verdicts must guarantee for an execution entering the block in state a *)
Fixpoint sound_verdicts (bl : block) (inv : env) (a : store) : Prop :=
  match bl with
  | [] => True
  | s :: r =>
    (match s with
     | SAssert c _ => (verdict_of c inv = VSafe -> sat c a) /\ (verdict_of c inv = VUnreach -> False)
     | _ => True
     end) /\
    forall m, sstep s a m -> sound_verdicts r (next_inv s inv) m
  end.

Lemma next_inv_sound s inv a m : stmt_wf s -> genv inv a -> sstep s a m -> genv (next_inv s inv) m.
Proof.
  intros W G H. destruct s; try (apply (tr_stmt_sound _ inv a m); auto; fail).
  simpl. rewrite (genv_not_bot _ _ G). rewrite andb_false_r.
  apply (tr_stmt_sound (SAssert c id) inv a m); auto.
Qed.

Theorem check_block_sound bl : forall inv a,
  block_wf bl -> genv inv a -> sound_verdicts bl inv a.
Proof.
  induction bl as [|s r IH]; simpl; intros inv a W G; auto.
  assert (Ws : stmt_wf s) by (apply W; left; auto).
  split.
  - destruct s; auto. unfold verdict_of. split.
    + destruct (lc_is_contradiction c) eqn:C.
      * rewrite (genv_not_bot _ _ G). discriminate.
      * rewrite (genv_not_bot _ _ G). destruct (d_entails c inv) eqn:E; [|discriminate].
        intros _. eapply d_entails_sound; eauto.
    + destruct (lc_is_contradiction c); rewrite (genv_not_bot _ _ G); [discriminate|].
      destruct (d_entails c inv); discriminate.
  - intros m S. apply IH.
    + intros s' I. apply W. right; auto.
    + eapply next_inv_sound; eauto.
Qed.
