(* InterTDModelSound.v — property C09 for the MODEL of the top-down inter-procedural analyzer
   (Ana/InterTD.v, td_run), directly and without the certificate checker: whenever the model
   returns without having run out of fuel anywhere (g_err = false), with max_call_contexts
   unbounded,
     - the context-insensitive tables contain every state with which an execution started at
       an entry function enters / leaves a block, in any frame of the call stack;
     - every stored (precondition, postcondition) summary relates the inputs and outputs of
       every concrete call whose inputs satisfy the precondition.
   For every well-formed program and call graph (direct and mutual recursion included: the
   recursive calls are replaced by top, analyze_recursive_functions = false), every
   exact_summary_reuse, widening delay, number of descending iterations, engine fuel and depth
   fuel, provided
     - the ordering of each CFG is the one computed by the model of wto.hpp from block 0;
     - the recursive set contains every function reachable from an entry that lies on a call
       graph cycle (Ana/InterTDRecset.v: the model's cg_recset does)
   (an entry function of the recursive set is analysed from top: fixes/inter-6).
   The proof instantiates Ana/InterEngineSound.v for the body of each function, by induction on
   the depth fuel; the invariant of the global state says that every stored calling context is
   a summary and that its tables cover the intra-procedural executions from its precondition,
   the callee entries reached from them being covered by a stored context, by a function
   of the recursive set whose analysis is running (it started from top), or by a finished
   entry function. *)
From Coq Require Import ZArith NArith List Bool Arith Lia Relations.
From CrabV Require Import Base.ZInf Scalar.Itv Ir.Syntax Ir.Cfg Dom.ItvEnv Dom.ItvEnvSound Dom.ItvDomain
     Dom.ItvDomainSound Fix.Wto Fix.WtoCheck Fix.WtoSound Fix.WtoRoot Fix.Engine Fix.EngineCheck Fix.EngineRel
     Fix.EngineFS Ana.Transformer Ana.FwdItv Ana.FwdItvEngineSound Ana.InterSyntax Ana.InterSem Ana.InterTD
     Ana.InterTDSound Ana.InterEngineSound.
Import ListNotations.

(* ------------------------------------------------------------------ the CFG of a function *)
Lemma fn_preds_edge : forall fn n q, In q (fn_preds fn n) <-> In (q, n) (f_edges fn).
Proof.
  intros fn n q. unfold fn_preds. rewrite in_map_iff. split.
  - intros [[a b] [E I]]. apply filter_In in I. destruct I as [I F]. cbn [fst snd] in *.
    apply Nat.eqb_eq in F. subst. exact I.
  - intros I. exists (q, n). split; [reflexivity|]. apply filter_In. split; [exact I|].
    cbn [snd]. apply Nat.eqb_refl.
Qed.
Lemma fn_succs_edge : forall fn q n, In n (fn_succs fn q) <-> In (q, n) (f_edges fn).
Proof.
  intros fn q n. unfold fn_succs. rewrite dedup_In, in_map_iff. split.
  - intros [[a b] [E I]]. apply filter_In in I. destruct I as [I F]. cbn [fst snd] in *.
    apply Nat.eqb_eq in F. subst. exact I.
  - intros I. exists (q, n). split; [reflexivity|]. apply filter_In. split; [exact I|].
    cbn [fst]. apply Nat.eqb_refl.
Qed.
Lemma fn_graph_succs : forall fn q, q < fn_nblocks fn -> succs (fn_graph fn) q = fn_succs fn q.
Proof.
  intros fn q L. unfold succs, fn_graph.
  rewrite (nth_indep _ [] (fn_succs fn 0)) by (rewrite map_length, seq_length; exact L).
  rewrite map_nth, seq_nth by exact L. reflexivity.
Qed.

Lemma nmem_spec x l : nmem x l = true <-> In x l.
Proof.
  unfold nmem. rewrite existsb_exists. split.
  - intros (y & I & E). apply Nat.eqb_eq in E. subst. exact I.
  - intros I. exists x. split; auto. apply Nat.eqb_refl.
Qed.

Lemma is_subsumed_leq c d x : is_subsumed c d x = true -> e_leq d (c_pre c) = true.
Proof.
  unfold is_subsumed. destruct (c_exact c && x); auto.
  intros H. apply andb_true_iff in H. tauto.
Qed.

(* ------------------------------------------------------------------ the call graph *)
Definition cg_edge (p : iprog) (f g : nat) : Prop :=
  exists n outs ins, In (ICall outs g ins) (fn_block (get_fn p f) n).
Definition cg_path (p : iprog) : nat -> nat -> Prop := clos_trans nat (cg_edge p).
Definition cg_reach (p : iprog) (entries : list nat) (f : nat) : Prop :=
  exists e, In e entries /\ clos_refl_trans nat (cg_edge p) e f.

(* ------------------------------------------------------------------ order on global states *)
Record gstep (g g' : gst) : Prop := mkGS {
  gs_err : g_err g = true -> g_err g' = true;
  gs_cc : forall f c, In c (g_cc g f) -> In c (g_cc g' f);
  gs_pre : forall f n s, genv (g_pre g f n) s -> genv (g_pre g' f n) s;
  gs_post : forall f n s, genv (g_post g f n) s -> genv (g_post g' f n) s;
  gs_stack : g_stack g' = g_stack g }.

Lemma gstep_refl g : gstep g g.
Proof. constructor; auto. Qed.
Lemma gstep_trans a b c : gstep a b -> gstep b c -> gstep a c.
Proof.
  intros [A1 A2 A3 A4 A5] [B1 B2 B3 B4 B5]. constructor; auto. congruence.
Qed.
Lemma gstep_fin g g' : gstep g g' -> g_err g' = false -> g_err g = false.
Proof.
  intros S F. destruct (g_err g) eqn:E; auto. rewrite (gs_err _ _ S E) in F. discriminate.
Qed.

Lemma pop_add_step g f g2 c : gstep (push f g) g2 -> gstep g (add_ctx None (pop g2) f c).
Proof.
  intros [A1 A2 A3 A4 A5]. constructor; cbn.
  - exact A1.
  - intros f0 c0 I. apply (A2 f0 c0) in I. unfold fupd.
    destruct (Nat.eqb_spec f0 f) as [->|N]; auto. apply in_or_app. left. exact I.
  - exact A3.
  - exact A4.
  - rewrite A5. cbn. apply removelast_last.
Qed.

Section Model.
  Variable p : iprog.
  Variable voff : N.
  Hypothesis WF : iprog_wfb p voff = true.
  Variable exact_reuse : bool.
  Variables delay desc efuel : nat.
  Variable wtos : nat -> wto.
  Variable recset : list nat.
  Hypothesis WTO : forall f, f < length p -> build (fn_graph (get_fn p f)) 0 = Some (wtos f).
  (* the functions that the analysis can reach *)
  Variable Reach : nat -> Prop.
  Hypothesis Reach_edge : forall f g, Reach f -> cg_edge p f g -> Reach g.
  Hypothesis REC : forall f, Reach f -> cg_path p f f -> In f recset.

  (* ---------------------------------------------------------------- intra-procedural collecting semantics *)
  Definition bstepf (f n : nat) : store -> store -> Prop := exec_block p (fn_block (get_fn p f) n).
  Definition IPre (f : nat) (S0 : store -> Prop) : nat -> store -> Prop :=
    RPre env store genv (bstepf f) (fn_preds (get_fn p f)) 0 false (fun _ : nat => @None env) S0.
  Definition IPost (f : nat) (S0 : store -> Prop) : nat -> store -> Prop :=
    RPost env store genv (bstepf f) (fn_preds (get_fn p f)) 0 false (fun _ : nat => @None env) S0.

  Lemma IPre_init f (S0 : store -> Prop) s : S0 s -> IPre f S0 0 s.
  Proof. intros H. apply RP_init; [exact H|exact I]. Qed.
  Lemma IPre_edge f S0 q n s : In (q, n) (f_edges (get_fn p f)) -> IPost f S0 q s -> IPre f S0 n s.
  Proof. intros E H. apply RP_edge with q; [apply fn_preds_edge; exact E|exact H|exact I]. Qed.
  Lemma IPost_step f S0 n s s' : IPre f S0 n s -> exec_block p (fn_block (get_fn p f) n) s s' -> IPost f S0 n s'.
  Proof. intros H B. apply RPo with s; assumption. Qed.

  Lemma exec_from_intra S0 g n a b : exec_from p g n a b -> IPre g S0 n a ->
    exists x, f_exit (get_fn p g) = Some x /\ IPost g S0 x b.
  Proof.
    induction 1 as [g n a b E B | g n m a b c B I F IH]; intros R.
    - exists n. split; [exact E|]. eapply IPost_step; eauto.
    - apply IH. eapply IPre_edge; eauto. eapply IPost_step; eauto.
  Qed.

  (* ---------------------------------------------------------------- the invariant of the global state *)
  Section Inv.
    Variable Root : nat -> store -> Prop.     (* finished entry functions and their entry states *)

    Definition CovBy (cc : nat -> list ctx) (K : list nat) (g0 : nat) (s0 : store) : Prop :=
      (exists c, In c (cc g0) /\ genv (c_pre c) s0) \/ (In g0 K /\ In g0 recset) \/ Root g0 s0.

    Definition CallsCov (cov : nat -> store -> Prop) (f n : nat) (s : store) : Prop :=
      forall l1 outs g0 ins l2 mid s0,
        fn_block (get_fn p f) n = l1 ++ ICall outs g0 ins :: l2 ->
        exec_block p l1 s mid -> bind_ins (f_ins (get_fn p g0)) ins mid s0 -> cov g0 s0.

    Definition CtxCov (tp tq : nat -> nat -> env) (cov : nat -> store -> Prop) (f : nat) (S0 : store -> Prop) : Prop :=
      (forall n s, IPre f S0 n s -> genv (tp f n) s /\ CallsCov cov f n s) /\
      (forall n s, IPost f S0 n s -> genv (tq f n) s).

    Definition SummOK (f : nat) (c : ctx) : Prop :=
      exists sum, c_post c = e_project sum (fn_formals (get_fn p f)) /\
                  forall s0 s1, genv (c_pre c) s0 -> exec_fun p f s0 s1 -> genv sum s1.

    Definition gcov (g : gst) : nat -> store -> Prop := CovBy (g_cc g) (g_stack g).
    Definition gctx (g : gst) (f : nat) (S0 : store -> Prop) : Prop :=
      CtxCov (g_pre g) (g_post g) (gcov g) f S0.
    Definition GI (g : gst) : Prop :=
      forall f c, In c (g_cc g f) -> f < length p /\ SummOK f c /\ gctx g f (genv (c_pre c)).
  End Inv.

  Lemma CovBy_mono (R R' : nat -> store -> Prop) (cc cc' : nat -> list ctx) K K' g0 s0 :
    (forall c, In c (cc g0) -> In c (cc' g0)) -> (In g0 K -> In g0 K') -> (R g0 s0 -> R' g0 s0) ->
    CovBy R cc K g0 s0 -> CovBy R' cc' K' g0 s0.
  Proof.
    intros H1 H2 H3 [(c & I & Gc)|[[I J]|H]].
    - left. exists c. split; auto.
    - right. left. split; auto.
    - right. right. auto.
  Qed.

  Lemma CtxCov_mono (tp tq tp' tq' : nat -> nat -> env) (cov cov' : nat -> store -> Prop) f S0 :
    (forall n s, genv (tp f n) s -> genv (tp' f n) s) ->
    (forall n s, genv (tq f n) s -> genv (tq' f n) s) ->
    (forall g0 s0, cov g0 s0 -> cov' g0 s0) ->
    CtxCov tp tq cov f S0 -> CtxCov tp' tq' cov' f S0.
  Proof.
    intros H1 H2 H3 [A B]. split.
    - intros n s R. destruct (A n s R) as [X Y]. split; [apply H1, X|].
      intros l1 outs g0 ins l2 mid s0 E1 E2 E3. apply H3. eapply Y; eauto.
    - intros n s R. apply H2, B, R.
  Qed.

  Lemma gcov_step R g g' g0 s0 : gstep g g' -> gcov R g g0 s0 -> gcov R g' g0 s0.
  Proof.
    intros S. unfold gcov. rewrite (gs_stack _ _ S). apply CovBy_mono; auto.
    intros c. apply (gs_cc _ _ S).
  Qed.

  Lemma gctx_step R g g' f S0 : gstep g g' -> gctx R g f S0 -> gctx R g' f S0.
  Proof.
    intros S. apply CtxCov_mono.
    - intros n s. apply (gs_pre _ _ S).
    - intros n s. apply (gs_post _ _ S).
    - intros g0 s0. apply gcov_step, S.
  Qed.

  (* the stack is a call chain that ends at the function under analysis *)
  Definition StackInv (K : list nat) (f : nat) : Prop :=
    Reach f /\ forall h, In h K -> h = f \/ cg_path p h f.

  Lemma StackInv_push K f g : StackInv K f -> cg_edge p f g -> StackInv (K ++ [g]) g.
  Proof.
    intros [R H] E. split; [eapply Reach_edge; eauto|].
    intros h I. apply in_app_or in I. destruct I as [I|[<-|[]]]; [|left; reflexivity].
    right. destruct (H h I) as [->|P].
    - apply t_step. exact E.
    - eapply t_trans; [exact P|apply t_step; exact E].
  Qed.

  Lemma StackInv_hit K f g : StackInv K f -> cg_edge p f g -> In g K -> In g recset.
  Proof.
    intros [R H] E I. apply REC; [eapply Reach_edge; eauto|].
    destruct (H g I) as [->|P].
    - apply t_step. exact E.
    - eapply t_trans; [exact P|apply t_step; exact E].
  Qed.

  (* ---------------------------------------------------------------- specification of analyze_function *)
  Section Spec.
    Variable Root : nat -> store -> Prop.

    Definition td_spec (td : nat -> env -> gst -> (nat -> env) * (nat -> env) * gst) : Prop :=
      forall f entry g,
        gstep g (snd (td f entry g)) /\
        (g_err (snd (td f entry g)) = false -> GI Root g -> f < length p -> StackInv (g_stack g) f ->
         GI Root (snd (td f entry g)) /\
         gctx Root (snd (td f entry g)) f (genv entry) /\
         (forall s0 s1 x, genv entry s0 -> exec_fun p f s0 s1 -> f_exit (get_fn p f) = Some x ->
                          genv (snd (fst (td f entry g)) x) s1)).

    Variable td : nat -> env -> gst -> (nat -> env) * (nat -> env) * gst.
    Hypothesis TD : td_spec td.

    Notation trc := (tr_call p voff None exact_reuse recset td).

    Lemma tr_call_step outs f ins e g : gstep g (snd (trc outs f ins e g)).
    Proof.
      unfold tr_call. destruct (e_is_bot e); [apply gstep_refl|].
      destruct (find _ _); [apply gstep_refl|].
      destruct (nmem f (g_stack g)); [apply gstep_refl|].
      cbn [snd]. apply pop_add_step. apply TD.
    Qed.

    Lemma tr_call_sound fcur outs f ins e g :
      istmt_wfb p voff (get_fn p fcur) (ICall outs f ins) = true -> cg_edge p fcur f ->
      g_err (snd (trc outs f ins e g)) = false -> GI Root g -> StackInv (g_stack g) fcur ->
      GI Root (snd (trc outs f ins e g)) /\
      forall a, genv e a ->
        (forall s0, bind_ins (f_ins (get_fn p f)) ins a s0 -> gcov Root (snd (trc outs f ins e g)) f s0) /\
        (forall b, exec_stmt p (ICall outs f ins) a b -> genv (fst (trc outs f ins e g)) b).
    Proof.
      intros W CE FN GI0 SI.
      destruct (call_wf _ _ _ _ _ _ W) as (Lf & Li & Lo & NDo & Bi & Bo).
      destruct (fn_wf p voff WF f Lf) as (NDf & Bf & _).
      set (fi := f_ins (get_fn p f)) in *. set (fo := f_outs (get_fn p f)) in *.
      set (ce := if nmem f recset then e_top else callee_entry voff outs ins fi fo e).
      assert (CEs : forall a s0, genv e a -> bind_ins fi ins a s0 -> genv ce s0).
      { intros a s0 Ga B. unfold ce. destruct (nmem f recset); [apply genv_top|].
        eapply (chk_call_entry p voff WF); eauto. }
      assert (EX : forall sum a b, genv e a -> exec_stmt p (ICall outs f ins) a b ->
                     (forall s0 s1, bind_ins fi ins a s0 -> exec_fun p f s0 s1 -> genv sum s1) ->
                     genv (cont voff outs ins fi fo e (e_project sum (fi ++ fo))) b).
      { intros sum a b Ga X HS. inversion X as [|outs' g' ins' a' s0 s1 b' B XF Hb]; subst.
        apply (cont_sound voff outs ins fi fo NDf Li Lo NDo Bf Bi Bo e sum a s1 b Ga).
        - eapply HS; eauto.
        - intros f0 y J. rewrite (exec_fun_frame p voff WF f s0 s1 XF Lf) by (eapply in_combine_l; eauto).
          apply (Forall2_combine _ _ _ _ _ B J).
        - exact Hb. }
      unfold tr_call in *. fold fi fo ce in FN |- *.
      destruct (e_is_bot e) eqn:EB.
      { split; [exact GI0|]. intros a Ga. rewrite (genv_not_bot _ _ Ga) in EB. discriminate. }
      destruct (find (fun c => is_subsumed c ce exact_reuse) (g_cc g f)) as [c|] eqn:FD.
      { apply find_some in FD. destruct FD as [IC SUB]. apply is_subsumed_leq in SUB.
        cbn [fst snd]. split; [exact GI0|]. intros a Ga.
        destruct (GI0 f c IC) as (_ & (sum & EQ & SS) & _). split.
        - intros s0 B. left. exists c. split; [exact IC|]. eapply e_leq_sound; [exact SUB|]. eapply CEs; eauto.
        - intros b X. rewrite EQ. apply (EX sum a b Ga X). intros s0 s1 B XF.
          apply (SS s0 s1); [|exact XF]. eapply e_leq_sound; [exact SUB|]. eapply CEs; eauto. }
      destruct (nmem f (g_stack g)) eqn:NM.
      { apply nmem_spec in NM. cbn [fst snd]. split; [exact GI0|]. intros a Ga. split.
        - intros s0 B. right. left. split; [exact NM|]. eapply StackInv_hit; eauto.
        - intros b X. apply (EX e_top a b Ga X). intros. apply genv_top. }
      (* the callee is analysed *)
      destruct (TD f ce (push f g)) as [ST SP].
      set (r := td f ce (push f g)) in *. cbn [fst snd] in *.
      set (cexit := match f_exit (get_fn p f) with Some x => snd (fst r) x | None => EBot end) in *.
      set (cnew := mkCtx ce (e_project cexit (fi ++ fo)) true) in *.
      assert (FN2 : g_err (snd r) = false) by exact FN.
      assert (GIp : GI Root (push f g)).
      { intros f' c IC. destruct (GI0 f' c IC) as (L' & SO & CC). split; [exact L'|]. split; [exact SO|].
        revert CC. apply CtxCov_mono; auto. intros g0 s0. apply CovBy_mono; auto.
        cbn. intros I. apply in_or_app. left. exact I. }
      destruct (SP FN2 GIp Lf (StackInv_push _ _ _ SI CE)) as (GI2 & CC2 & EXIT).
      assert (STK : g_stack (snd r) = g_stack g ++ [f]) by (rewrite (gs_stack _ _ ST); reflexivity).
      assert (DIS : forall g0 s0, gcov Root (snd r) g0 s0 -> gcov Root (add_ctx None (pop (snd r)) f cnew) g0 s0).
      { intros g0 s0 [(c & I & Gc)|[[I J]|H]].
        - left. exists c. split; [|exact Gc]. cbn. unfold fupd.
          destruct (Nat.eqb_spec g0 f) as [->|N]; auto. apply in_or_app. left. exact I.
        - rewrite STK in I. apply in_app_or in I. destruct I as [I|[<-|[]]].
          + right. left. split; [|exact J]. cbn. rewrite STK. rewrite removelast_last. exact I.
          + left. exists cnew. split.
            * cbn. unfold fupd. rewrite Nat.eqb_refl. apply in_or_app. right. left. reflexivity.
            * cbn [c_pre cnew]. unfold ce. apply nmem_spec in J. rewrite J. apply genv_top.
        - right. right. exact H. }
      assert (SNEW : SummOK f cnew).
      { exists cexit. split; [reflexivity|]. intros s0 s1 G0 XF.
        destruct (exec_fun_exit p f s0 s1 XF) as [x Ex]. unfold cexit. rewrite Ex.
        apply (EXIT s0 s1 x G0 XF Ex). }
      split.
      - intros f' c IC. cbn in IC. unfold fupd in IC.
        assert (OLD : In c (g_cc (snd r) f') -> f' < length p /\ SummOK f' c /\
                      gctx Root (add_ctx None (pop (snd r)) f cnew) f' (genv (c_pre c))).
        { intros IC'. destruct (GI2 f' c IC') as (L' & SO & CC). split; [exact L'|]. split; [exact SO|].
          revert CC. apply CtxCov_mono; auto. }
        destruct (Nat.eqb_spec f' f) as [->|N]; [|exact (OLD IC)].
        apply in_app_or in IC. destruct IC as [IC|[<-|[]]]; [exact (OLD IC)|].
        split; [exact Lf|]. split; [exact SNEW|]. revert CC2. apply CtxCov_mono; auto.
      - intros a Ga. split.
        + intros s0 B. left. exists cnew. split.
          * cbn. unfold fupd. rewrite Nat.eqb_refl. apply in_or_app. right. left. reflexivity.
          * eapply CEs; eauto.
        + intros b X. apply (EX cexit a b Ga X). intros s0 s1 B XF.
          destruct (exec_fun_exit p f s0 s1 XF) as [x Ex]. unfold cexit. rewrite Ex.
          apply (EXIT s0 s1 x); auto. eapply CEs; eauto.
    Qed.

    (* ---------------------------------------------------------------- blocks *)
    Lemma tr_istmt_step st e g : gstep g (snd (tr_istmt trc st e g)).
    Proof. destruct st as [s|outs f ins]; cbn [tr_istmt snd]; [apply gstep_refl|apply tr_call_step]. Qed.

    Lemma tr_iblock_step : forall bl e g, gstep g (snd (tr_iblock trc bl e g)).
    Proof.
      induction bl as [|st r IH]; intros e g; cbn [tr_iblock]; [apply gstep_refl|].
      eapply gstep_trans; [apply tr_istmt_step|apply IH].
    Qed.

    Definition stmt_ok (fcur : nat) (st : istmt) : Prop :=
      istmt_wfb p voff (get_fn p fcur) st = true /\
      forall outs f ins, st = ICall outs f ins -> cg_edge p fcur f.

    Lemma tr_istmt_sound fcur st e g : stmt_ok fcur st ->
      g_err (snd (tr_istmt trc st e g)) = false -> GI Root g -> StackInv (g_stack g) fcur ->
      GI Root (snd (tr_istmt trc st e g)) /\
      forall a, genv e a ->
        (forall outs f ins s0, st = ICall outs f ins -> bind_ins (f_ins (get_fn p f)) ins a s0 ->
                               gcov Root (snd (tr_istmt trc st e g)) f s0) /\
        (forall b, exec_stmt p st a b -> genv (fst (tr_istmt trc st e g)) b).
    Proof.
      intros [W CE] FN GI0 SI. destruct st as [s|outs f ins]; cbn [tr_istmt fst snd] in *.
      - split; [exact GI0|]. intros a Ga. split; [intros; discriminate|].
        intros b X. inversion X; subst. cbn in W. apply andb_true_iff in W. destruct W as [W _].
        eapply tr_stmt_sound; eauto. apply stmt_wfb_sound. exact W.
      - destruct (tr_call_sound fcur outs f ins e g W (CE _ _ _ eq_refl) FN GI0 SI) as [GI1 H].
        split; [exact GI1|]. intros a Ga. destruct (H a Ga) as [H1 H2]. split; [|exact H2].
        intros outs' f' ins' s0 E. inversion E; subst. apply H1.
    Qed.

    Lemma tr_iblock_sound fcur : forall bl e g, (forall st, In st bl -> stmt_ok fcur st) ->
      g_err (snd (tr_iblock trc bl e g)) = false -> GI Root g -> StackInv (g_stack g) fcur ->
      GI Root (snd (tr_iblock trc bl e g)) /\
      forall a, genv e a ->
        (forall l1 outs g0 ins l2 mid s0, bl = l1 ++ ICall outs g0 ins :: l2 -> exec_block p l1 a mid ->
           bind_ins (f_ins (get_fn p g0)) ins mid s0 -> gcov Root (snd (tr_iblock trc bl e g)) g0 s0) /\
        (forall b, exec_block p bl a b -> genv (fst (tr_iblock trc bl e g)) b).
    Proof.
      induction bl as [|st r IH]; intros e g OK FN GI0 SI; cbn [tr_iblock] in *.
      - split; [exact GI0|]. intros a Ga. split.
        + intros l1 outs g0 ins l2 mid s0 E. destruct l1; discriminate.
        + intros b X. inversion X; subst. exact Ga.
      - set (q := tr_istmt trc st e g) in *.
        pose proof (tr_iblock_step r (fst q) (snd q)) as STr.
        pose proof (tr_istmt_step st e g) as STq. fold q in STq.
        destruct (tr_istmt_sound fcur st e g (OK st (or_introl eq_refl)) (gstep_fin _ _ STr FN) GI0 SI) as [GI1 HS].
        fold q in GI1, HS.
        assert (SI1 : StackInv (g_stack (snd q)) fcur) by (rewrite (gs_stack _ _ STq); exact SI).
        destruct (IH (fst q) (snd q) (fun st' I => OK st' (or_intror I)) FN GI1 SI1) as [GI2 HB].
        split; [exact GI2|]. intros a Ga. destruct (HS a Ga) as [HS1 HS2]. split.
        + intros l1 outs g0 ins l2 mid s0 E XB B. destruct l1 as [|st' l1'].
          * cbn [app] in E. inversion E; subst. inversion XB; subst.
            apply (gcov_step _ _ _ _ _ STr). eapply HS1; eauto.
          * cbn [app] in E. inversion E; subst. inversion XB as [|? ? ? m ? XS XR]; subst.
            destruct (HB m (HS2 m XS)) as [HB1 _]. eapply HB1; eauto.
        + intros b X. inversion X as [|? ? ? m ? XS XR]; subst.
          destruct (HB m (HS2 m XS)) as [_ HB2]. apply HB2. exact XR.
    Qed.
  End Spec.

  (* ---------------------------------------------------------------- analyze_function *)
  Lemma wto_ok f : f < length p ->
    NoDup (flat (wtos f)) /\
    (forall n q, In q (fn_preds (get_fn p f) n) -> In q (flat (wtos f)) ->
                 In n (flat (wtos f)) /\ lok (wtos f) q n) /\
    starts_with 0 (wtos f).
  Proof.
    intros L. pose proof (WTO f L) as BU. pose proof (build_WF _ _ _ BU) as W.
    split; [exact (wf_nodup _ _ _ _ _ W)|]. split; [|exact (build_starts_with _ _ _ BU)].
    intros n q I J.
    pose proof (proj1 (wf_reach _ _ _ _ _ W q) J) as RP.
    apply fn_preds_edge in I.
    destruct (fn_wf p voff WF f L) as (_ & _ & _ & We & _). destruct (We _ _ I) as [Lq _].
    assert (HS : In n (succs (fn_graph (get_fn p f)) q)).
    { rewrite fn_graph_succs by exact Lq. apply fn_succs_edge. exact I. }
    split.
    - apply (wf_reach _ _ _ _ _ W). apply reach_step with q; assumption.
    - exact (wf_edge _ _ _ _ _ W q n RP HS).
  Qed.

  Lemma set_err_step g : gstep g (set_err g).
  Proof. constructor; cbn; auto. Qed.
  Lemma join_tables_step f tp tq g : gstep g (join_tables f tp tq g).
  Proof.
    constructor; cbn; auto; intros f0 n s Gs; unfold fupd;
      destruct (Nat.eqb_spec f0 f) as [->|N]; auto; apply e_join_sound; left; exact Gs.
  Qed.

  Notation tdf := (td_fun p voff None exact_reuse delay desc efuel wtos recset).

  Lemma td_fun_spec Root : forall d, td_spec Root (tdf d).
  Proof.
    induction d as [|d IH]; intros f entry g.
    - cbn [td_fun fst snd]. split; [apply set_err_step|]. intros FN. cbn in FN. discriminate.
    - cbn [td_fun].
      set (an := fun (n : nat) (e : env) (g : gst) =>
                   tr_iblock (tr_call p voff None exact_reuse recset (tdf d)) (fn_block (get_fn p f) n) e g).
      destruct (srun env gst itv_ops an (fn_preds (get_fn p f)) (nest_of (wtos f)) 0 delay desc efuel
                     (wtos f) entry g) as [st|] eqn:RUN.
      2: { cbn [fst snd]. split; [apply set_err_step|]. intros FN. cbn in FN. discriminate. }
      cbn [fst snd].
      assert (AST : forall n a g1, gstep g1 (snd (an n a g1))).
      { intros n a g1. apply (tr_iblock_step Root _ IH). }
      pose proof (srun_step env gst itv_ops an gstep gstep_refl gstep_trans AST _ _ _ _ _ _ _ _ _ _ RUN) as ST.
      split; [eapply gstep_trans; [exact ST|apply join_tables_step]|].
      intros FN GI0 Lf SI.
      assert (FN' : g_err (se_g env gst st) = false) by exact FN.
      destruct (wto_ok f Lf) as (WN & WE & WS).
      destruct (fn_wf p voff WF f Lf) as (_ & _ & _ & _ & Wb).
      assert (EFM : forall (n : nat) (s : store) (g1 g2 : gst), gstep g1 g2 ->
                CallsCov (gcov Root g1) f n s -> CallsCov (gcov Root g2) f n s).
      { intros n s g1 g2 S12 H l1 outs g0 ins l2 mid s0 E XB B.
        eapply gcov_step; [exact S12|]. eapply H; eauto. }
      assert (ANS : forall (n : nat) (a : env) (g1 : gst),
                g_err (snd (an n a g1)) = false ->
                GI Root g1 /\ StackInv (g_stack g1) f ->
                (GI Root (snd (an n a g1)) /\ StackInv (g_stack (snd (an n a g1))) f) /\
                forall s, genv a s ->
                  CallsCov (gcov Root (snd (an n a g1))) f n s /\
                  forall s', bstepf f n s s' -> genv (fst (an n a g1)) s').
      { intros n a g1 FN1 [G1 S1].
        assert (OKB : forall st0, In st0 (fn_block (get_fn p f) n) -> stmt_ok f st0).
        { intros st0 I0. split; [exact (Wb n st0 I0)|]. intros outs f' ins ->. exists n, outs, ins. exact I0. }
        destruct (tr_iblock_sound Root _ IH f (fn_block (get_fn p f) n) a g1 OKB FN1 G1 S1) as [G2 H].
        split; [split; [exact G2|rewrite (gs_stack _ _ (AST n a g1)); exact S1]|].
        intros s Gs. destruct (H s Gs) as [H1 H2]. split; [|exact H2].
        intros l1 outs g0 ins l2 mid s0 E XB B. eapply H1; eauto. }
      destruct (srun_sound env gst store genv itv_ops
                  (fun a b s H => e_join_sound a b s (or_introl H))
                  (fun a b s H => e_join_sound a b s (or_intror H))
                  e_meet_sound e_narrow_sound
                  (fun a b s L Gs => e_leq_sound a b s L Gs)
                  an (bstepf f) gstep gstep_refl gstep_trans AST
                  (fun g1 => g_err g1 = false) gstep_fin
                  (fun g1 => GI Root g1 /\ StackInv (g_stack g1) f)
                  (fun n s g1 => CallsCov (gcov Root g1) f n s) EFM ANS
                  (fn_preds (get_fn p f)) (nest_of (wtos f)) 0 delay desc (genv entry) efuel entry
                  (fun s H => H) (wtos f) WN WE WS g st RUN FN' (conj GI0 SI))
        as (_ & [GI1 SI1] & HP & HQ).
      split; [|split].
      + intros f' c IC. destruct (GI1 f' c IC) as (L' & SO & CC). split; [exact L'|]. split; [exact SO|].
        revert CC. apply gctx_step. apply join_tables_step.
      + split.
        * intros n s R. destruct (HP n s R) as [X Y]. split.
          -- cbn. unfold fupd. rewrite Nat.eqb_refl. apply e_join_sound. right. exact X.
          -- revert Y. apply EFM. apply join_tables_step.
        * intros n s R. cbn. unfold fupd. rewrite Nat.eqb_refl. apply e_join_sound. right. apply HQ, R.
      + intros s0 s1 x G0 XF EX. inversion XF as [? ? ? XFR]; subst.
        destruct (exec_from_intra (genv entry) f 0 s0 s1 XFR (IPre_init f _ s0 G0)) as (x' & EX' & R).
        rewrite EX in EX'. inversion EX'; subst x'. apply HQ. exact R.
  Qed.

  (* ---------------------------------------------------------------- run(init) *)
  (* the value from which an entry function is analysed *)
  Definition entry_of (init : env) (f : nat) : env := if nmem f recset then e_top else init.

  Lemma entry_of_init init f s : genv init s -> genv (entry_of init f) s.
  Proof. unfold entry_of. destruct (nmem f recset); [intros _; apply genv_top|auto]. Qed.

  Definition RootOf (done : list nat) (init : env) : nat -> store -> Prop :=
    fun g0 s0 => In g0 done /\ genv (entry_of init g0) s0.

  Definition run_inv (init : env) (done : list nat) (g : gst) : Prop :=
    g_stack g = [] /\ GI (RootOf done init) g /\
    forall f, In f done -> f < length p /\ gctx (RootOf done init) g f (genv (entry_of init f)).

  Notation runf depth init :=
    (fun g f => pop (snd (tdf depth f (if nmem f recset then e_top else init) (push f g)))).

  Lemma run_one depth init done g f :
    run_inv init done g -> f < length p -> Reach f ->
    g_err (runf depth init g f) = false -> run_inv init (f :: done) (runf depth init g f).
  Proof.
    intros (SK & GI0 & RC) Lf Rf FN. cbv beta in *. fold (entry_of init f) in *.
    destruct (td_fun_spec (RootOf done init) depth f (entry_of init f) (push f g)) as [ST SP].
    set (r := tdf depth f (entry_of init f) (push f g)) in *.
    assert (FN2 : g_err (snd r) = false) by exact FN.
    assert (GIp : GI (RootOf done init) (push f g)).
    { intros f' c IC. destruct (GI0 f' c IC) as (L' & SO & CC). split; [exact L'|]. split; [exact SO|].
      revert CC. apply CtxCov_mono; auto. intros g0 s0. apply CovBy_mono; auto.
      cbn. intros I. apply in_or_app. left. exact I. }
    assert (SIp : StackInv (g_stack (push f g)) f).
    { cbn. rewrite SK. split; [exact Rf|]. intros h [<-|[]]. left. reflexivity. }
    destruct (SP FN2 GIp Lf SIp) as (GI2 & CC2 & _).
    assert (STK : g_stack (snd r) = [f]).
    { rewrite (gs_stack _ _ ST). cbn. rewrite SK. reflexivity. }
    assert (DIS : forall g0 s0, gcov (RootOf done init) (snd r) g0 s0 ->
                                gcov (RootOf (f :: done) init) (pop (snd r)) g0 s0).
    { intros g0 s0 [(c & I & Gc)|[[I J]|[I J]]].
      - left. exists c. split; auto.
      - rewrite STK in I. destruct I as [<-|[]]. right. right. split; [left; reflexivity|].
        unfold entry_of. apply nmem_spec in J. rewrite J. apply genv_top.
      - right. right. split; [right; exact I|exact J]. }
    split; [cbn; rewrite STK; reflexivity|]. split.
    - intros f' c IC. destruct (GI2 f' c IC) as (L' & SO & CC). split; [exact L'|]. split; [exact SO|].
      revert CC. apply CtxCov_mono; auto.
    - intros f' [<-|I].
      + split; [exact Lf|]. revert CC2. apply CtxCov_mono; auto.
      + destruct (RC f' I) as [L' CC]. split; [exact L'|]. revert CC. apply CtxCov_mono.
        * intros n s H. apply (gs_pre _ _ ST f' n s). exact H.
        * intros n s H. apply (gs_post _ _ ST f' n s). exact H.
        * intros g0 s0 [(c & I' & Gc)|[[I' J]|[I' J]]].
          -- left. exists c. split; [apply (gs_cc _ _ ST g0 c); exact I'|exact Gc].
          -- rewrite SK in I'. destruct I'.
          -- right. right. split; [right; exact I'|exact J].
  Qed.

  Lemma run_err depth init : forall l g, g_err g = true -> g_err (fold_left (runf depth init) l g) = true.
  Proof.
    induction l as [|f l IH]; intros g E; cbn [fold_left]; [exact E|].
    apply IH. destruct (td_fun_spec (fun _ _ => False) depth f (entry_of init f) (push f g)) as [ST _].
    apply (gs_err _ _ ST). exact E.
  Qed.

  Lemma run_all depth init : forall l done g,
    run_inv init done g ->
    (forall f, In f l -> f < length p /\ Reach f) ->
    g_err (fold_left (runf depth init) l g) = false ->
    run_inv init (rev l ++ done) (fold_left (runf depth init) l g).
  Proof.
    induction l as [|f l IH]; intros done g INV H FN; cbn [fold_left rev app] in *; [exact INV|].
    assert (FN1 : g_err (runf depth init g f) = false).
    { destruct (g_err (runf depth init g f)) eqn:E; auto.
      rewrite (run_err depth init l _ E) in FN. discriminate. }
    rewrite <- app_assoc. cbn [app].
    destruct (H f (or_introl eq_refl)) as (Lf & Rf).
    apply IH; [apply run_one; auto| |exact FN].
    intros f' I. apply H. right. exact I.
  Qed.

  Theorem td_run_sound_gen depth entries init :
    (forall f, In f entries -> f < length p /\ Reach f) ->
    let g := td_run p voff None exact_reuse delay desc efuel wtos recset depth entries init in
    g_err g = false ->
    forall Init : store -> Prop, (forall s, Init s -> genv init s) ->
    (forall f n s, IRPre p entries Init f n s -> genv (g_pre g f n) s) /\
    (forall f n s, IRPost p entries Init f n s -> genv (g_post g f n) s) /\
    (forall sm, In sm (g_summaries p g) ->
       forall s0 s1, genv (s_pre sm) s0 -> exec_fun p (s_fn sm) s0 s1 -> genv (s_post sm) s1).
  Proof.
    intros HE g FN Init HI.
    assert (INV0 : run_inv init [] g0).
    { split; [reflexivity|]. split; [intros f c []|intros f []]. }
    pose proof (run_all depth init entries [] g0 INV0 HE FN) as INV.
    change (run_inv init (rev entries ++ []) g) in INV. destruct INV as (SK & GIf & RC).
    set (R := RootOf (rev entries ++ []) init) in *.
    assert (RCE : forall f, In f entries -> gctx R g f (genv (entry_of init f))).
    { intros f I. apply RC. apply in_or_app. left. apply in_rev in I. exact I. }
    destruct (IR_mutind p entries Init
                (fun f n s => exists S0, gctx R g f S0 /\ IPre f S0 n s)
                (fun f n s => exists S0, gctx R g f S0 /\ IPost f S0 n s)) as [QA QB].
    - intros f s I J. exists (genv (entry_of init f)). split; [apply RCE, I|apply IPre_init, entry_of_init, HI, J].
    - intros f q n s E _ (S0 & CC & R0). exists S0. split; [exact CC|]. eapply IPre_edge; eauto.
    - intros f n s l1 outs g1 ins l2 m s0 _ (S0 & CC & R0) EB X B.
      destruct CC as [CA _]. destruct (CA n s R0) as [_ CV].
      destruct (CV l1 outs g1 ins l2 m s0 EB X B) as [(c & I & Gc)|[[I J]|[I J]]].
      + destruct (GIf g1 c I) as (_ & _ & CC'). exists (genv (c_pre c)). split; [exact CC'|apply IPre_init, Gc].
      + rewrite SK in I. destruct I.
      + exists (genv (entry_of init g1)). split; [apply RC, I|apply IPre_init, J].
    - intros f n s s' _ (S0 & CC & R0) X. exists S0. split; [exact CC|]. eapply IPost_step; eauto.
    - split; [|split].
      + intros f n s X. destruct (QA f n s X) as (S0 & [CA _] & R0). apply (CA n s R0).
      + intros f n s X. destruct (QB f n s X) as (S0 & [_ CB] & R0). apply (CB n s R0).
      + intros sm I s0 s1 G0 XF. unfold g_summaries in I. apply in_flat_map in I.
        destruct I as (f & _ & I). apply in_map_iff in I. destruct I as (c & <- & IC).
        cbn [s_fn s_pre s_post] in *.
        destruct (GIf f c IC) as (_ & (sum & EQ & SS) & _). rewrite EQ.
        apply (e_project_sound _ _ s1); [apply (SS s0 s1); auto|auto].
  Qed.
End Model.

(* ------------------------------------------------------------------ the theorem *)
Theorem td_model_sound p voff exact_reuse delay desc efuel wtos recset depth entries init :
  iprog_wfb p voff = true ->
  (forall f, f < length p -> build (fn_graph (get_fn p f)) 0 = Some (wtos f)) ->
  (forall f, In f entries -> f < length p) ->
  (forall f, cg_reach p entries f -> cg_path p f f -> In f recset) ->
  let g := td_run p voff None exact_reuse delay desc efuel wtos recset depth entries init in
  g_err g = false ->
  forall Init : store -> Prop, (forall s, Init s -> genv init s) ->
  (forall f n s, IRPre p entries Init f n s -> genv (g_pre g f n) s) /\
  (forall f n s, IRPost p entries Init f n s -> genv (g_post g f n) s) /\
  (forall sm, In sm (g_summaries p g) ->
     forall s0 s1, genv (s_pre sm) s0 -> exec_fun p (s_fn sm) s0 s1 -> genv (s_post sm) s1).
Proof.
  intros WF WTO HL REC.
  apply (td_run_sound_gen p voff WF exact_reuse delay desc efuel wtos recset WTO (cg_reach p entries)).
  - intros f g (e & I & P) E. exists e. split; [exact I|].
    eapply rt_trans; [exact P|apply rt_step; exact E].
  - exact REC.
  - intros f I. split; [apply HL, I|].
    exists f. split; [exact I|apply rt_refl].
Qed.
