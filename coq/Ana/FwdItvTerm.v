(* FwdItvTerm.v — every run of the forward interval analyzer model terminates (property C05
   for the engine): for every program, weak topological order, entry block, widening delay,
   number of descending iterations and assumption map there is a fuel for which [fwd_run]
   answers, and more fuel never changes the answer.

   Hypothesis: the initial value and the assumptions satisfy the representation invariant
   [env_ok] of separate_domain (no key bound to the bottom interval); every value built
   with the operations of the domain from top or bottom does (lemmas below).

   Also: the same engine with widening with thresholds (one threshold set per cycle head,
   each of the shape that thresholds::add maintains). *)
From Coq Require Import ZArith NArith List Bool Arith Lia.
From CrabV Require Import Base.ZInf Scalar.Itv Ir.Syntax Ir.Cfg Dom.ItvEnv Dom.ItvEnvSound Dom.ItvSolver
     Dom.ItvDomain Dom.ItvEnvWiden Fix.Wto Fix.Engine Fix.EngineFS Fix.EngineTerm Fix.Thresholds Fix.ThresholdsSound
     Ana.Transformer Ana.FwdItv.
Import ListNotations.

(* ------------------------------------------------------------------ the solver keeps the invariant *)
Lemma s_refine_ok v i st st' : map_ok (s_map st) -> s_refine v i st = Some st' -> map_ok (s_map st').
Proof.
  intros OK. unfold s_refine.
  destruct (is_bot (imeet (get (s_map st) v) i)) eqn:B; [discriminate|].
  destruct (negb (ieq _ _)); intros H; inversion H; subst; [|exact OK].
  cbn [s_map]. apply map_ok_put; assumption.
Qed.

Lemma propagate_term_ok cst c pivot st st' :
  map_ok (s_map st) -> propagate_term cst c pivot st = Some st' -> map_ok (s_map st').
Proof.
  intros OK. unfold propagate_term.
  destruct (compute_residual cst pivot st) as [res ops].
  set (st1 := mkS (s_map st) (s_refined st) ops).
  assert (OK1 : map_ok (s_map st1)) by exact OK.
  clearbody st1. cbv zeta.
  destruct (lc_kind cst);
    first
      [ apply s_refine_ok; exact OK1
      | destruct (0 <? c)%Z; apply s_refine_ok; exact OK1
      | intros H; inversion H; subst; exact OK1
      | idtac ].
  match goal with |- context [is_bot ?nw] => destruct (is_bot nw) eqn:B end; [discriminate|].
  destruct (negb (ieq _ _)); intros H; inversion H; subst; cbn [s_map]; [|exact OK1].
  apply map_ok_put; assumption.
Qed.

Lemma propagate_terms_ok cst ts : forall st st',
  map_ok (s_map st) -> propagate_terms cst ts st = Some st' -> map_ok (s_map st').
Proof.
  induction ts as [|[c v] r IH]; cbn [propagate_terms]; intros st st' OK H.
  - inversion H; subst; exact OK.
  - destruct (propagate_term cst c v st) as [st1|] eqn:E; [|discriminate H].
    apply (IH st1); [exact (propagate_term_ok _ _ _ _ _ OK E)|exact H].
Qed.

Lemma propagate_ok cst st st' : map_ok (s_map st) -> propagate cst st = Some st' -> map_ok (s_map st').
Proof. apply propagate_terms_ok. Qed.

Lemma propagate_all_ok cs : forall st st',
  map_ok (s_map st) -> propagate_all cs st = Some st' -> map_ok (s_map st').
Proof.
  induction cs as [|c r IH]; cbn [propagate_all]; intros st st' OK H.
  - inversion H; subst; exact OK.
  - destruct (propagate c st) as [st1|] eqn:E; [|discriminate H].
    apply (IH st1); [exact (propagate_ok _ _ _ OK E)|exact H].
Qed.

Lemma small_loop_ok table mc : forall fuel cycle st st',
  map_ok (s_map st) -> small_loop fuel table cycle mc st = Some st' -> map_ok (s_map st').
Proof.
  induction fuel as [|f IH]; cbn [small_loop]; intros cycle st st' OK H.
  - inversion H; subst; exact OK.
  - destruct (propagate_all table _) as [st1|] eqn:E; [|discriminate H].
    assert (OK1 : map_ok (s_map st1)) by (eapply propagate_all_ok; [|exact E]; exact OK).
    destruct (s_refined st1); [inversion H; subst; exact OK1|].
    destruct (_ <=? mc)%N; [exact (IH _ _ _ OK1 H)|inversion H; subst; exact OK1].
Qed.

Lemma propagate_idx_ok table idx : forall st st',
  map_ok (s_map st) -> propagate_idx table idx st = Some st' -> map_ok (s_map st').
Proof.
  induction idx as [|i r IH]; cbn [propagate_idx]; intros st st' OK H.
  - inversion H; subst; exact OK.
  - destruct (nth_error table i) as [c|]; [|exact (IH _ _ OK H)].
    destruct (propagate c st) as [st1|] eqn:E; [|discriminate H].
    apply (IH st1); [exact (propagate_ok _ _ _ OK E)|exact H].
Qed.

Lemma process_vars_ok table vs : forall st st',
  map_ok (s_map st) -> process_vars table vs st = Some st' -> map_ok (s_map st').
Proof.
  induction vs as [|v r IH]; cbn [process_vars]; intros st st' OK H.
  - inversion H; subst; exact OK.
  - destruct (propagate_idx table _ st) as [st1|] eqn:E; [|discriminate H].
    apply (IH st1); [exact (propagate_idx_ok _ _ _ _ OK E)|exact H].
Qed.

Lemma large_loop_ok table mo : forall fuel st st',
  map_ok (s_map st) -> large_loop fuel table mo st = Some st' -> map_ok (s_map st').
Proof.
  induction fuel as [|f IH]; cbn [large_loop]; intros st st' OK H.
  - inversion H; subst; exact OK.
  - destruct (process_vars table _ _) as [st1|] eqn:E; [|discriminate H].
    assert (OK1 : map_ok (s_map st1)) by (eapply process_vars_ok; [|exact E]; exact OK).
    destruct (s_refined st1); [inversion H; subst; exact OK1|].
    destruct (_ <=? mo)%N; [exact (IH _ _ OK1 H)|inversion H; subst; exact OK1].
Qed.

Lemma solve_ok cs mc m m' : map_ok m -> solve cs mc m = Some m' -> map_ok m'.
Proof.
  intros OK. unfold solve.
  destruct (p_contra _); [discriminate|]. cbv zeta.
  match goal with |- context [if ?c then _ else _] => destruct c end.
  - destruct (propagate_all _ _) as [st1|] eqn:E; [|discriminate].
    assert (OK1 : map_ok (s_map st1)) by (eapply propagate_all_ok; [|exact E]; exact OK).
    destruct (large_loop _ _ _ st1) as [st2|] eqn:E2; [|discriminate].
    intros H; inversion H; subst. exact (large_loop_ok _ _ _ _ _ OK1 E2).
  - destruct (small_loop _ _ _ _ _) as [st2|] eqn:E2; [|discriminate].
    intros H; inversion H; subst. eapply small_loop_ok; [|exact E2]; exact OK.
Qed.

(* ------------------------------------------------------------------ the transformer keeps it *)
Lemma d_add_ok cs e : env_ok e -> env_ok (d_add cs e).
Proof.
  destruct e as [|m]; unfold d_add; [auto|]. intros OK. cbv zeta.
  destruct (solve _ _ m) as [m'|] eqn:E; [|exact I]. exact (solve_ok _ _ _ _ OK E).
Qed.

Lemma d_assign_ok x ex e : env_ok e -> env_ok (d_assign x ex e).
Proof. intros OK. unfold d_assign. destruct (le_get_variable ex); apply env_ok_set; exact OK. Qed.

Lemma d_select_ok x c e1 e2 e : env_ok e -> env_ok (d_select x c e1 e2 e).
Proof.
  intros OK. unfold d_select. destruct (e_is_bot e); [exact OK|].
  destruct (e_is_bot (d_add [c] e)); [apply d_assign_ok; exact OK|].
  destruct (e_is_bot (d_add [lc_negate c] e)); [apply d_assign_ok; exact OK|].
  apply env_ok_set; exact OK.
Qed.

Lemma tr_stmt_ok s e : env_ok e -> env_ok (tr_stmt s e).
Proof.
  intros OK. destruct s; cbn [tr_stmt].
  - apply d_assign_ok; exact OK.
  - apply env_ok_set; exact OK.
  - apply env_ok_set; exact OK.
  - apply d_add_ok; exact OK.
  - apply d_add_ok; exact OK.
  - apply env_ok_forget; exact OK.
  - apply d_select_ok; exact OK.
  - exact I.
Qed.

Lemma tr_block_ok b : forall e, env_ok e -> env_ok (tr_block b e).
Proof.
  unfold tr_block. induction b as [|s r IH]; cbn [fold_left]; intros e OK; [exact OK|].
  apply IH. apply tr_stmt_ok; exact OK.
Qed.

(* ------------------------------------------------------------------ termination of fwd_run *)
Theorem fwd_run_fuel_mono p w entry delay desc use_asm asm init fuel fuel' e :
  fwd_run p w entry delay desc use_asm asm fuel init = Some e -> fuel <= fuel' ->
  fwd_run p w entry delay desc use_asm asm fuel' init = Some e.
Proof. unfold fwd_run. apply run_mono. Qed.

Theorem fwd_run_terminates p w entry delay desc use_asm asm init :
  env_ok init -> (forall n a, use_asm = true -> asm n = Some a -> env_ok a) ->
  exists fuel e, fwd_run p w entry delay desc use_asm asm fuel init = Some e.
Proof.
  intros OKi OKa. unfold fwd_run.
  apply (run_total env itv_ops (fun n e => tr_block (p_block p n) e) (p_preds p) (nest_of w) entry
                   delay desc use_asm asm init env_ok) with (R := fun _ => e_lt).
  - exact I.
  - exact env_ok_join.
  - exact env_ok_meet.
  - intros h. exact env_ok_widen.
  - exact env_ok_narrow.
  - intros n a. apply tr_block_ok.
  - exact OKa.
  - exact OKi.
  - intros h. exact e_lt_wf.
  - intros h. exact e_widen_progress.
Qed.

(* every table entry of the answer satisfies the invariant *)
Theorem fwd_run_ok p w entry delay desc use_asm asm init fuel e :
  env_ok init -> (forall n a, use_asm = true -> asm n = Some a -> env_ok a) ->
  fwd_run p w entry delay desc use_asm asm fuel init = Some e ->
  forall n, env_ok (e_pre env e n) /\ env_ok (e_post env e n).
Proof.
  intros OKi OKa H.
  assert (S : SInv env env_ok e).
  { unfold fwd_run in H. revert H.
    apply (run_inv env itv_ops (fun n e => tr_block (p_block p n) e) (p_preds p) (nest_of w) entry
                   delay desc use_asm asm init env_ok).
    - exact I.
    - exact env_ok_join.
    - exact env_ok_meet.
    - intros h. exact env_ok_widen.
    - exact env_ok_narrow.
    - intros n a. apply tr_block_ok.
    - exact OKa.
    - exact OKi. }
  destruct S as [P Q]. intros n. split; [apply P|apply Q].
Qed.

(* consequence: the answer does not depend on the fuel *)
Corollary fwd_run_deterministic p w entry delay desc use_asm asm init f1 f2 e1 e2 :
  fwd_run p w entry delay desc use_asm asm f1 init = Some e1 ->
  fwd_run p w entry delay desc use_asm asm f2 init = Some e2 -> e1 = e2.
Proof.
  intros H1 H2.
  pose proof (fwd_run_fuel_mono _ _ _ _ _ _ _ _ _ (Nat.max f1 f2) _ H1 (Nat.le_max_l _ _)) as A.
  pose proof (fwd_run_fuel_mono _ _ _ _ _ _ _ _ _ (Nat.max f1 f2) _ H2 (Nat.le_max_r _ _)) as B.
  congruence.
Qed.

(* ------------------------------------------------------------------ with thresholds *)
Definition itv_ops_thr (t : nat -> thr) : aops env :=
  mkOps env EBot e_top e_join e_meet
        (fun h => e_widen_thr (thr_prev (t h)) (thr_next (t h))) e_narrow e_leq.

Definition fwd_run_thr (t : nat -> thr) (p : prog) (w : wto) (entry delay desc : nat) (use_asm : bool)
           (asm : nat -> option env) (fuel : nat) (init : env) : option (est env) :=
  run env (itv_ops_thr t) (fun n e => tr_block (p_block p n) e) (p_preds p) (nest_of w) entry
      delay desc use_asm asm init fuel w.

Theorem fwd_run_thr_fuel_mono t p w entry delay desc use_asm asm init fuel fuel' e :
  fwd_run_thr t p w entry delay desc use_asm asm fuel init = Some e -> fuel <= fuel' ->
  fwd_run_thr t p w entry delay desc use_asm asm fuel' init = Some e.
Proof. unfold fwd_run_thr. apply run_mono. Qed.

Theorem fwd_run_thr_terminates t p w entry delay desc use_asm asm init :
  (forall h, wf_thr (t h)) ->
  env_ok init -> (forall n a, use_asm = true -> asm n = Some a -> env_ok a) ->
  exists fuel e, fwd_run_thr t p w entry delay desc use_asm asm fuel init = Some e.
Proof.
  intros WT OKi OKa. unfold fwd_run_thr.
  apply (run_total env (itv_ops_thr t) (fun n e => tr_block (p_block p n) e) (p_preds p) (nest_of w) entry
                   delay desc use_asm asm init env_ok) with (R := fun h => e_lt_thr (t h)).
  - exact I.
  - exact env_ok_join.
  - exact env_ok_meet.
  - intros h. apply env_ok_widen_thr.
  - exact env_ok_narrow.
  - intros n a. apply tr_block_ok.
  - exact OKa.
  - exact OKi.
  - intros h. apply e_lt_thr_wf.
  - intros h. apply e_widen_thr_progress. apply WT.
Qed.

(* ------------------------------------------------------------------ example: the loop
     bb0: i := 0            bb1 (head): assume true     bb2: assume i <= 9; i := i + 1
     bb3: assume i >= 10    edges 0->1, 1->2, 2->1, 1->3 *)
Definition ex_i : var := 0%N.
Definition ex_prog : prog :=
  mkProg [ [SAssign ex_i (mkLE [] 0)];
           [];
           [SAssume (mkLC INEQ (mkLE [(1%Z, ex_i)] (-9))); SArith OpAdd ex_i ex_i (OCst 1)];
           [SAssume (mkLC INEQ (mkLE [((-1)%Z, ex_i)] 10))] ]
         [(0, 1); (1, 2); (2, 1); (1, 3)].
Definition ex_wto : wto := [Vertex 0; Cycle 1 [Vertex 2]; Vertex 3].

Example fwd_run_example :
  env_ok e_top /\
  (exists e, fwd_run ex_prog ex_wto 0 1 2 false (fun _ => None) 3 e_top = Some e /\
             e_at (e_post env e 3) ex_i = mkI (Fin 10) (Fin 10) /\
             e_at (e_pre env e 1) ex_i = mkI (Fin 0) (Fin 10)) /\
  fwd_run ex_prog ex_wto 0 1 2 false (fun _ => None) 2 e_top = None.
Proof.
  split; [exact env_ok_top|]. split; [|vm_compute; reflexivity].
  eexists. split; [vm_compute; reflexivity|]. split; vm_compute; reflexivity.
Qed.
