(* LinExpr.v — mirror model of ikos::linear_expression<z_number, VariableName>
   (include/crab/types/linear_constraints.hpp).
   The C++ keeps a boost flat_map<variable_t, Number> (sorted by variable index, the
   order of crab::variable::operator<) plus a constant.  The model is the association
   list of that map in iteration order: (variable index, coefficient), strictly
   increasing indices, no zero coefficient (the invariant is stated in LinExprSound.v).
   No proofs here. *)
From Coq Require Import ZArith Bool List.
Import ListNotations.
Local Open Scope Z_scope.

Definition var := Z.                       (* variable index *)
Definition terms := list (var * Z).        (* (variable, coefficient) *)
Record linexpr : Type := mkLE { lterms : terms; lcst : Z }.

(* void add(variable_t x, Number n):
     it = _map->find(x);
     if found:  r = it->second + n;  if (r == 0) erase(it) else it->second = r;
     else if (n != 0) insert(x, n) *)
Fixpoint add_term (x : var) (n : Z) (l : terms) : terms :=
  match l with
  | [] => if n =? 0 then [] else [(x, n)]
  | (y, c) :: t =>
    if x <? y then (if n =? 0 then l else (x, n) :: l)
    else if x =? y then (let r := c + n in if r =? 0 then t else (y, r) :: t)
    else (y, c) :: add_term x n t
  end.

(* constructors *)
Definition le_zero : linexpr := mkLE [] 0.                    (* linear_expression() *)
Definition le_const (n : Z) : linexpr := mkLE [] n.           (* linear_expression(Number) *)
Definition le_var (x : var) : linexpr := mkLE [(x, 1)] 0.     (* linear_expression(variable_t) *)
(* linear_expression(Number n, variable_t x), also  n * x : a zero coefficient is not
   stored (repaired behaviour, see fixes/numlin-1) *)
Definition le_term (n : Z) (x : var) : linexpr :=
  mkLE (if n =? 0 then [] else [(x, n)]) 0.

(* observers *)
Definition le_is_constant (e : linexpr) : bool := match lterms e with [] => true | _ => false end.
Definition le_constant (e : linexpr) : Z := lcst e.
Definition le_size (e : linexpr) : Z := Z.of_nat (length (lterms e)).
Fixpoint lookup (x : var) (l : terms) : Z :=
  match l with
  | [] => 0
  | (y, c) :: t => if x =? y then c else lookup x t
  end.
Definition le_coef (e : linexpr) (x : var) : Z := lookup x (lterms e).   (* operator[] *)
Definition le_variables (e : linexpr) : list var := map fst (lterms e).

(* arithmetic *)
Definition le_addk (e : linexpr) (n : Z) : linexpr := mkLE (lterms e) (lcst e + n).
Definition le_subk (e : linexpr) (n : Z) : linexpr := le_addk e (- n).
Definition le_addv (e : linexpr) (x : var) : linexpr := mkLE (add_term x 1 (lterms e)) (lcst e).
Definition le_subv (e : linexpr) (x : var) : linexpr := mkLE (add_term x (-1) (lterms e)) (lcst e).
(* r( *this->_map, _cst + e._cst); for (it in e._map) r.add(it->first, it->second) *)
Definition le_add (e1 e2 : linexpr) : linexpr :=
  mkLE (fold_left (fun acc t => add_term (fst t) (snd t) acc) (lterms e2) (lterms e1))
       (lcst e1 + lcst e2).
Definition le_sub (e1 e2 : linexpr) : linexpr :=
  mkLE (fold_left (fun acc t => add_term (fst t) (- snd t) acc) (lterms e2) (lterms e1))
       (lcst e1 - lcst e2).
(* operator*(Number n): if (n == 0) return linear_expression_t();
   else for each term: c = n * it->second; if (c != 0) map->insert(it->first, c) *)
Fixpoint scale_terms (n : Z) (l : terms) : terms :=
  match l with
  | [] => []
  | (y, c) :: t => let c' := n * c in
                   if c' =? 0 then scale_terms n t else (y, c') :: scale_terms n t
  end.
Definition le_scale (n : Z) (e : linexpr) : linexpr :=
  if n =? 0 then le_zero else mkLE (scale_terms n (lterms e)) (n * lcst e).
Definition le_neg (e : linexpr) : linexpr := le_scale (-1) e.

(* rename(map): new_exp = cst; for v in variables():
     new_exp = new_exp + this->operator[](v) * (map.find(v) ? map[v] : v) *)
Fixpoint map_find (x : var) (m : list (var * var)) : option var :=
  match m with
  | [] => None
  | (a, b) :: t => if x =? a then Some b else map_find x t
  end.
Definition rename_var (m : list (var * var)) (x : var) : var :=
  match map_find x m with Some y => y | None => x end.
Definition le_rename (m : list (var * var)) (e : linexpr) : linexpr :=
  fold_left (fun acc v => le_add acc (le_term (le_coef e v) (rename_var m v)))
            (le_variables e) (le_const (lcst e)).

(* get_variable(): the expression is exactly 1*x *)
Definition le_get_variable (e : linexpr) : option var :=
  if le_is_constant e then None
  else if (le_constant e =? 0) && (le_size e =? 1) then
    match lterms e with
    | (x, c) :: _ => if c =? 1 then Some x else None
    | [] => None
    end
  else None.

(* syntactic equality: bool equal(const linear_expression_t &o) *)
Fixpoint terms_eqb (l1 l2 : terms) : bool :=
  match l1, l2 with
  | [], _ => true           (* the C++ loop stops at the end of *this (sizes are equal) *)
  | (x, c) :: t1, (y, d) :: t2 => if negb (c =? d) || negb (x =? y) then false else terms_eqb t1 t2
  | _ :: _, [] => false
  end.
Definition le_equal (e1 e2 : linexpr) : bool :=
  if le_is_constant e1 then
    (if negb (le_is_constant e2) then false else le_constant e1 =? le_constant e2)
  else if negb (le_constant e1 =? le_constant e2) then false
  else if negb (le_size e1 =? le_size e2) then false
  else terms_eqb (lterms e1) (lterms e2).

(* lexicographical_compare *)
Definition term_lt (p1 p2 : var * Z) : bool :=
  (fst p1 <? fst p2) || ((fst p1 =? fst p2) && (snd p1 <? snd p2)).
Fixpoint terms_lex (l1 l2 : terms) : bool :=
  match l1, l2 with
  | p1 :: t1, p2 :: t2 => if term_lt p1 p2 then true else if term_lt p2 p1 then false
                          else terms_lex t1 t2
  | [], _ :: _ => true
  | _, [] => false
  end.
Definition le_lex (e1 e2 : linexpr) : bool :=
  if le_constant e1 <? le_constant e2 then true
  else if le_constant e2 <? le_constant e1 then false
  else terms_lex (lterms e1) (lterms e2).

(* is_well_typed(): all variables have the type of the first one.
   A type is (kind, bitwidth); variable_type::operator== compares the bitwidth only
   for INT_TYPE (kind 1) and REG_INT_TYPE (kind 9). *)
Definition vtype := (Z * Z)%type.
Definition type_eqb (t o : vtype) : bool :=
  if (fst t =? 1) || (fst t =? 9) then (fst t =? fst o) && (snd t =? snd o)
  else fst t =? fst o.
Definition le_is_well_typed (ty : var -> vtype) (e : linexpr) : bool :=
  match le_variables e with
  | [] => true
  | v0 :: rest => forallb (fun v => type_eqb (ty v) (ty v0)) rest
  end.

(* meaning *)
Fixpoint eval_terms (s : var -> Z) (l : terms) : Z :=
  match l with
  | [] => 0
  | (x, c) :: t => c * s x + eval_terms s t
  end.
Definition eval (s : var -> Z) (e : linexpr) : Z := eval_terms s (lterms e) + lcst e.
