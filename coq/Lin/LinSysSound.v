(* LinSysSound.v — constraint systems: += adds exactly one constraint (up to
   syntactic duplicates), normalize() preserves the solution set, is_false is sound. *)
From Coq Require Import ZArith Bool List Lia PeanoNat.
From CrabV Require Import Lin.LinExpr Lin.LinExprSound Lin.LinCst Lin.LinCstSound Lin.LinSys.
Import ListNotations.
Local Open Scope Z_scope.

(* ---------------------------------------------------------------- += *)
Lemma in_sys_add s c x : In x (sys_add s c) <-> (In x s \/ x = c).
Proof.
  unfold sys_add. destruct (existsb (fun c1 => lc_equal c1 c) s) eqn:E.
  - split; [auto|]. intros [H| ->]; auto.
    apply existsb_exists in E. destruct E as (c1 & Hin & Heq). apply lc_equal_iff in Heq. subst; auto.
  - rewrite in_app_iff. cbn [In]. split; [intros [H|[H|[]]]; auto | intros [H| ->]; auto].
Qed.

Theorem sys_add_sat s c v : sat_all v (sys_add s c) <-> (sat_all v s /\ sat v c).
Proof.
  unfold sat_all. split.
  - intros H. split; [intros x Hx | ]; apply H; apply in_sys_add; auto.
  - intros [H1 H2] x Hx. apply in_sys_add in Hx. destruct Hx as [Hx| ->]; auto.
Qed.

Lemma in_sys_add_sys s2 : forall s x, In x (sys_add_sys s s2) <-> (In x s \/ In x s2).
Proof.
  unfold sys_add_sys. induction s2 as [|c t IH]; intros s x; cbn [fold_left In]; [tauto|].
  rewrite IH, in_sys_add. intuition (subst; auto).
Qed.

Theorem sys_add_sys_sat s s2 v : sat_all v (sys_add_sys s s2) <-> (sat_all v s /\ sat_all v s2).
Proof.
  unfold sat_all. split.
  - intros H. split; intros x Hx; apply H; apply in_sys_add_sys; auto.
  - intros [H1 H2] x Hx. apply in_sys_add_sys in Hx. destruct Hx; auto.
Qed.

Theorem sys_plus_sat a b v : sat_all v (sys_plus a b) <-> (sat_all v a /\ sat_all v b).
Proof.
  unfold sys_plus. rewrite !sys_add_sys_sat. unfold sat_all at 1. cbn [In]. tauto.
Qed.

Theorem sys_of_list_sat cs v : sat_all v (sys_of_list cs) <-> (forall c, In c cs -> sat v c).
Proof. unfold sys_of_list. rewrite sys_add_sys_sat. unfold sat_all. cbn [In]. firstorder. Qed.

(* no syntactic duplicates *)
Lemma nodup_snoc (A : Type) (l : list A) (x : A) : NoDup l -> ~ In x l -> NoDup (l ++ [x]).
Proof.
  induction l as [|y t IH]; intros Hn Hx; cbn [app].
  - constructor; [intros []|constructor].
  - inversion Hn; subst. constructor.
    + rewrite in_app_iff. cbn [In]. intros [H|[H|[]]]; [auto|]. subst. apply Hx. left; auto.
    + apply IH; auto. intros H. apply Hx. right; auto.
Qed.
Lemma sys_add_nodup s c : NoDup s -> NoDup (sys_add s c).
Proof.
  intros H. unfold sys_add. destruct (existsb _ s) eqn:E; auto.
  apply nodup_snoc; auto. intros Hin.
  assert (existsb (fun c1 => lc_equal c1 c) s = true); [|congruence].
  apply existsb_exists. exists c. split; auto. apply lc_equal_iff. reflexivity.
Qed.
Theorem sys_of_list_nodup cs : NoDup (sys_of_list cs).
Proof.
  unfold sys_of_list, sys_add_sys. assert (H : NoDup (@nil lincst)) by constructor. revert H.
  generalize (@nil lincst) as s. induction cs as [|c t IH]; intros s H; cbn [fold_left]; auto.
  apply IH. apply sys_add_nodup; auto.
Qed.

(* ---------------------------------------------------------------- is_false / is_true *)
Theorem sys_is_false_sound s : sys_is_false s = true -> forall v, ~ sat_all v s.
Proof.
  unfold sys_is_false. destruct s as [|c0 t]; [discriminate|]. intros H v Hs.
  apply existsb_exists in H. destruct H as (c & Hin & Hc).
  apply (is_contradiction_sound c Hc v). apply Hs. exact Hin.
Qed.
Theorem sys_is_true_sound s : sys_is_true s = true -> forall v, sat_all v s.
Proof. destruct s; [|discriminate]. intros _ v c []. Qed.

(* ---------------------------------------------------------------- normalize *)
Lemma index_from_ge k l : forall i c, In (i, c) (index_from k l) -> (k <= i)%nat.
Proof.
  revert k. induction l as [|c0 t IH]; intros k i c H; cbn in H; [destruct H|].
  destruct H as [E|H]; [inversion E; subst; auto|]. apply IH in H. auto with arith.
Qed.

Lemma index_from_unique l : forall k i c c',
  In (i, c) (index_from k l) -> In (i, c') (index_from k l) -> c = c'.
Proof.
  induction l as [|c0 t IH]; intros k i c c' H1 H2; cbn in *; [destruct H1|].
  destruct H1 as [E1|H1], H2 as [E2|H2].
  - inversion E1; inversion E2; subst; auto.
  - inversion E1; subst. apply index_from_ge in H2. exfalso. apply (Nat.nle_succ_diag_l _ H2).
  - inversion E2; subst. apply index_from_ge in H1. exfalso. apply (Nat.nle_succ_diag_l _ H1).
  - eapply IH; eauto.
Qed.

Lemma index_from_in l : forall k i c, In (i, c) (index_from k l) -> In c l.
Proof.
  induction l as [|c0 t IH]; intros k i c H; cbn in *; [destruct H|].
  destruct H as [E|H]; [inversion E; auto | right; eapply IH; eauto].
Qed.
Lemma in_index_from l : forall k c, In c l -> exists i, In (i, c) (index_from k l).
Proof.
  induction l as [|c0 t IH]; intros k c H; cbn in *; [destruct H|].
  destruct H as [->|H]; [exists k; auto|]. destruct (IH (S k) c H) as [i Hi]. exists i; auto.
Qed.

Lemma seen_find_in e seen j : seen_find e seen = Some j -> In (e, j) seen.
Proof.
  induction seen as [|[e1 i] t IH]; cbn [seen_find]; [discriminate|].
  destruct (le_equal e1 e) eqn:E.
  - intros [= <-]. apply le_equal_iff in E. subst. left; auto.
  - intros H. right; auto.
Qed.

Section Normalize.
  Variable cs : linsys.
  Let ics := index_from 0 cs.

  Definition inv (st : list (linexpr * nat) * list nat * linsys) : Prop :=
    let '(seen, rem, out) := st in
    (forall e j, In (e, j) seen -> In (j, mkLC e INEQUALITY) ics) /\
    (forall c, In c out -> forall v, sat_all v cs -> sat v c) /\
    (forall i, In i rem -> forall c, In (i, c) ics -> forall v, sat_all v out -> sat v c).

  Lemma ineq_eta c : lc_is_inequality c = true -> c = mkLC (cexpr c) INEQUALITY.
  Proof. destruct c as [e k]. unfold lc_is_inequality. cbn. destruct k; try discriminate. auto. Qed.

  Lemma norm_step_inv st i c : In (i, c) ics -> inv st -> inv (norm_step st (i, c)).
  Proof.
    destruct st as [[seen rem] out]. intros Hic (Ha & Hb & Hc). unfold norm_step.
    destruct (lc_is_inequality c) eqn:Ek; [|repeat split; auto].
    pose proof (ineq_eta c Ek) as Eta.
    destruct (seen_find (le_neg (cexpr c)) seen) as [j|] eqn:Ef.
    - apply seen_find_in in Ef. apply Ha in Ef.
      set (E := if negb _ then cexpr c else le_neg (cexpr c)).
      assert (HE : forall v, eval v E = 0 <-> eval v (cexpr c) = 0).
      { intros v. unfold E. destruct (negb _); [tauto|]. rewrite eval_le_neg. lia. }
      assert (Hci : forall v, sat v c <-> eval v (cexpr c) <= 0).
      { intros v. rewrite Eta at 1. unfold sat. cbn. tauto. }
      assert (Hcj : forall v, sat v (mkLC (le_neg (cexpr c)) INEQUALITY) <-> 0 <= eval v (cexpr c)).
      { intros v. unfold sat. cbn [ckind cexpr]. rewrite eval_le_neg. lia. }
      split; [auto|]. split.
      + intros x Hx v Hv. apply in_sys_add in Hx. destruct Hx as [Hx| ->]; [eauto|].
        unfold sat. cbn [ckind cexpr]. apply HE.
        assert (sat v c) by (apply Hv; eapply index_from_in; eauto).
        assert (sat v (mkLC (le_neg (cexpr c)) INEQUALITY)) by (apply Hv; eapply index_from_in; eauto).
        apply Hci in H. apply Hcj in H0. lia.
      + intros k Hk x Hx v Hv. apply sys_add_sat in Hv. destruct Hv as [Hv Hq].
        unfold sat in Hq. cbn [ckind cexpr] in Hq. apply HE in Hq.
        destruct Hk as [<-|[<-|Hk]].
        * rewrite (index_from_unique _ _ _ _ _ Hx Hic). apply Hci. lia.
        * rewrite (index_from_unique _ _ _ _ _ Hx Ef). apply Hcj. lia.
        * eapply Hc; eauto.
    - split; [|split; auto]. intros e j Hin. unfold seen_insert in Hin.
      destruct (seen_find (cexpr c) seen); [auto|].
      apply in_app_iff in Hin. destruct Hin as [Hin|[Hin|[]]]; [auto|].
      inversion Hin; subst. rewrite <- Eta. exact Hic.
  Qed.

  Lemma norm_fold_inv l : (forall p, In p l -> In p ics) -> forall st, inv st -> inv (fold_left norm_step l st).
  Proof.
    induction l as [|[i c] t IH]; intros Hl st Hst; cbn [fold_left]; auto.
    apply IH; [intros p Hp; apply Hl; right; auto|].
    apply norm_step_inv; auto. apply Hl. left; auto.
  Qed.

  Lemma second_loop_in rem l : forall out x,
    In x (fold_left (fun out ic => if existsb (Nat.eqb (fst ic)) rem then out else sys_add out (snd ic)) l out)
    <-> (In x out \/ exists i, In (i, x) l /\ existsb (Nat.eqb i) rem = false).
  Proof.
    induction l as [|[i c] t IH]; intros out x; cbn [fold_left fst snd].
    - split; [auto | intros [H|(i & [] & _)]; auto].
    - rewrite IH. destruct (existsb (Nat.eqb i) rem) eqn:E.
      + split; intros [H|(k & Hk & Hr)]; auto.
        * right. exists k. split; [right; auto | auto].
        * destruct Hk as [Ek|Hk]; [inversion Ek; subst; congruence|]. right. exists k; auto.
      + rewrite in_sys_add. split.
        * intros [[H| ->]|(k & Hk & Hr)]; auto.
          -- right. exists i. split; [left; auto | auto].
          -- right. exists k. split; [right; auto | auto].
        * intros [H|(k & [Ek|Hk] & Hr)]; auto.
          -- inversion Ek; subst. auto.
          -- right. exists k; auto.
  Qed.

  Theorem normalize_sat v : sat_all v (normalize cs) <-> sat_all v cs.
  Proof.
    unfold normalize. fold ics.
    assert (Hinv : inv (fold_left norm_step ics ([], [], []))).
    { apply norm_fold_inv; [auto|]. repeat split; intros; cbn in *; tauto. }
    destruct (fold_left norm_step ics ([], [], [])) as [[seen rem] out].
    destruct Hinv as (_ & Hb & Hc). unfold sat_all at 1. split.
    - intros H c Hin. destruct (in_index_from cs 0%nat c Hin) as [i Hi]. fold ics in Hi.
      destruct (existsb (Nat.eqb i) rem) eqn:E.
      + apply existsb_exists in E. destruct E as (k & Hk & Ek). apply Nat.eqb_eq in Ek. subst k.
        eapply Hc; eauto. intros x Hx. apply H. apply second_loop_in. auto.
      + apply H. apply second_loop_in. right. exists i; auto.
    - intros H x Hx. apply second_loop_in in Hx. destruct Hx as [Hx|(i & Hi & _)].
      + eapply Hb; eauto.
      + apply H. eapply index_from_in; eauto.
  Qed.
End Normalize.

Example normalize_example :
  let e := le_add (le_term 1 1) (le_term (-1) 2) in
  normalize [mkLC e INEQUALITY; mkLC (le_term 1 3) INEQUALITY; mkLC (le_neg e) INEQUALITY]
  = [mkLC (le_neg e) EQUALITY; mkLC (le_term 1 3) INEQUALITY].
Proof. vm_compute. reflexivity. Qed.
