(* LinExprSound.v — linear expressions: canonical-form invariant, evaluation is a
   homomorphism for every operation, syntactic equality of canonical forms coincides
   with semantic equality. *)
From Coq Require Import ZArith Bool List Lia.
From CrabV Require Import Lin.LinExpr.
Import ListNotations.
Local Open Scope Z_scope.

(* ---------------------------------------------------------------- invariant *)
Definition head_above (x : var) (l : terms) : Prop :=
  match l with [] => True | (y, _) :: _ => x < y end.

Inductive wf_terms : terms -> Prop :=
| wf_nil : wf_terms []
| wf_cons x c t : c <> 0 -> head_above x t -> wf_terms t -> wf_terms ((x, c) :: t).

Definition wf (e : linexpr) : Prop := wf_terms (lterms e).

Lemma wf_all_above x l : wf_terms l -> head_above x l -> forall y c, In (y, c) l -> x < y.
Proof.
  intros Hw. revert x. induction Hw as [|z d t Hd Hh Hw IH]; intros x Hx y c Hin; [destruct Hin|].
  cbn in Hx. destruct Hin as [E|Hin]; [inversion E; subst; auto|].
  assert (z < y) by (eapply IH; eauto). lia.
Qed.

Lemma lookup_above x l : wf_terms l -> head_above x l -> lookup x l = 0.
Proof.
  intros Hw Hx. induction Hw as [|z d t Hd Hh Hw IH]; [reflexivity|].
  cbn in Hx. cbn [lookup]. replace (x =? z) with false by (symmetry; apply Z.eqb_neq; lia).
  apply IH. destruct t as [|[u e] t']; cbn in *; auto. lia.
Qed.

Lemma add_term_wf x n l : wf_terms l -> wf_terms (add_term x n l) /\
  (forall lo, lo < x -> head_above lo l -> head_above lo (add_term x n l)).
Proof.
  intros Hw. induction Hw as [|z d t Hd Hh Hw IH]; cbn [add_term].
  - destruct (n =? 0) eqn:En.
    + split; [constructor | auto].
    + apply Z.eqb_neq in En. split; [constructor; cbn; auto; constructor | intros; cbn; auto].
  - destruct IH as [IH1 IH2].
    destruct (x <? z) eqn:E1.
    + apply Z.ltb_lt in E1. destruct (n =? 0) eqn:En.
      * split; [constructor; auto | auto].
      * apply Z.eqb_neq in En. split; [constructor; cbn; auto; constructor; auto | intros; cbn; auto].
    + apply Z.ltb_ge in E1. destruct (x =? z) eqn:E2.
      * apply Z.eqb_eq in E2. subst z. destruct (d + n =? 0) eqn:Er.
        -- split; auto. intros lo Hlo _. destruct t as [|[u e] t']; cbn in *; auto. lia.
        -- apply Z.eqb_neq in Er. split; [constructor; auto | intros; cbn in *; auto].
      * apply Z.eqb_neq in E2. split.
        -- constructor; auto. apply IH2; [lia | auto].
        -- intros lo Hlo Hl. cbn in *. auto.
Qed.

Lemma wf_add_term x n l : wf_terms l -> wf_terms (add_term x n l).
Proof. intros H. apply add_term_wf; auto. Qed.

Lemma wf_fold_add (f : Z -> Z) l2 : forall l1, wf_terms l1 ->
  wf_terms (fold_left (fun acc t => add_term (fst t) (f (snd t)) acc) l2 l1).
Proof.
  induction l2 as [|[y c] t IH]; intros l1 H; cbn [fold_left]; auto.
  apply IH. apply wf_add_term; auto.
Qed.

Lemma scale_terms_wf n l : wf_terms l -> wf_terms (scale_terms n l) /\
  (forall lo, head_above lo l -> head_above lo (scale_terms n l)).
Proof.
  intros Hw. induction Hw as [|z d t Hd Hh Hw IH]; cbn [scale_terms]; [split; [constructor|auto]|].
  destruct IH as [IH1 IH2]. destruct (n * d =? 0) eqn:E.
  - split; auto. intros lo Hlo. apply IH2. cbn in Hlo.
    destruct t as [|[u e] t']; cbn in *; auto. lia.
  - apply Z.eqb_neq in E. split; [constructor; auto | intros lo Hlo; cbn in *; auto].
Qed.

Theorem wf_le_zero : wf le_zero.                      Proof. constructor. Qed.
Theorem wf_le_const n : wf (le_const n).              Proof. constructor. Qed.
Theorem wf_le_var x : wf (le_var x).                  Proof. constructor; cbn; auto; [lia|constructor]. Qed.
Theorem wf_le_term n x : wf (le_term n x).
Proof.
  unfold wf, le_term. cbn [lterms]. destruct (n =? 0) eqn:E; [constructor|].
  apply Z.eqb_neq in E. constructor; cbn; auto. constructor.
Qed.
Theorem wf_le_addk e n : wf e -> wf (le_addk e n).    Proof. auto. Qed.
Theorem wf_le_subk e n : wf e -> wf (le_subk e n).    Proof. auto. Qed.
Theorem wf_le_addv e x : wf e -> wf (le_addv e x).    Proof. intros H. apply wf_add_term; auto. Qed.
Theorem wf_le_subv e x : wf e -> wf (le_subv e x).    Proof. intros H. apply wf_add_term; auto. Qed.
Theorem wf_le_add e1 e2 : wf e1 -> wf (le_add e1 e2).
Proof. intros H. unfold wf, le_add. cbn [lterms]. apply (wf_fold_add (fun c => c)); auto. Qed.
Theorem wf_le_sub e1 e2 : wf e1 -> wf (le_sub e1 e2).
Proof. intros H. unfold wf, le_sub. cbn [lterms]. apply (wf_fold_add Z.opp); auto. Qed.
Theorem wf_le_scale n e : wf e -> wf (le_scale n e).
Proof.
  intros H. unfold wf, le_scale. destruct (n =? 0); [constructor|]. cbn [lterms].
  apply scale_terms_wf; auto.
Qed.
Theorem wf_le_neg e : wf e -> wf (le_neg e).          Proof. apply wf_le_scale. Qed.
Theorem wf_le_rename m e : wf (le_rename m e).
Proof.
  unfold le_rename. generalize (le_variables e) as vs.
  assert (H0 : wf (le_const (lcst e))) by constructor. revert H0.
  generalize (le_const (lcst e)) as acc. intros acc H0 vs. revert acc H0.
  induction vs as [|v vs IH]; intros acc H0; cbn [fold_left]; auto.
  apply IH. apply wf_le_add; auto.
Qed.

(* ---------------------------------------------------------------- evaluation *)
Lemma eval_add_term s x n l : eval_terms s (add_term x n l) = eval_terms s l + n * s x.
Proof.
  induction l as [|[y c] t IH]; cbn [add_term eval_terms].
  - destruct (n =? 0) eqn:E; cbn [eval_terms]; [apply Z.eqb_eq in E; subst; lia | lia].
  - destruct (x <? y).
    + destruct (n =? 0) eqn:E; cbn [eval_terms]; [apply Z.eqb_eq in E; subst; lia | lia].
    + destruct (x =? y) eqn:E.
      * apply Z.eqb_eq in E. subst y. destruct (c + n =? 0) eqn:Er; cbn [eval_terms].
        -- apply Z.eqb_eq in Er. nia.
        -- lia.
      * cbn [eval_terms]. rewrite IH. lia.
Qed.

Lemma eval_fold_add s (f : Z -> Z) l2 : forall l1,
  eval_terms s (fold_left (fun acc t => add_term (fst t) (f (snd t)) acc) l2 l1) =
  eval_terms s l1 + eval_terms s (map (fun t => (fst t, f (snd t))) l2).
Proof.
  induction l2 as [|[y c] t IH]; intros l1; cbn [fold_left map eval_terms fst snd]; [lia|].
  rewrite IH, eval_add_term. lia.
Qed.

Lemma eval_map_id s l : eval_terms s (map (fun t => (fst t, snd t)) l) = eval_terms s l.
Proof. induction l as [|[y c] t IH]; cbn [map eval_terms fst snd]; lia. Qed.
Lemma eval_map_opp s l : eval_terms s (map (fun t => (fst t, - snd t)) l) = - eval_terms s l.
Proof. induction l as [|[y c] t IH]; cbn [map eval_terms fst snd]; lia. Qed.

Theorem eval_le_const s n : eval s (le_const n) = n.              Proof. reflexivity. Qed.
Theorem eval_le_zero s : eval s le_zero = 0.                      Proof. reflexivity. Qed.
Theorem eval_le_var s x : eval s (le_var x) = s x.                Proof. unfold eval; cbn [le_var le_addk le_subk lterms lcst eval_terms]; lia. Qed.
Theorem eval_le_term s n x : eval s (le_term n x) = n * s x.
Proof. unfold eval, le_term. cbn [lterms lcst]. destruct (n =? 0) eqn:E; cbn [eval_terms]; [apply Z.eqb_eq in E; subst|]; lia. Qed.
Theorem eval_le_addk s e n : eval s (le_addk e n) = eval s e + n.  Proof. unfold eval; cbn [le_var le_addk le_subk lterms lcst eval_terms]; lia. Qed.
Theorem eval_le_subk s e n : eval s (le_subk e n) = eval s e - n.  Proof. unfold eval; cbn [le_var le_addk le_subk lterms lcst eval_terms]; lia. Qed.
Theorem eval_le_addv s e x : eval s (le_addv e x) = eval s e + s x.
Proof. unfold eval, le_addv. cbn [lterms lcst]. rewrite eval_add_term. lia. Qed.
Theorem eval_le_subv s e x : eval s (le_subv e x) = eval s e - s x.
Proof. unfold eval, le_subv. cbn [lterms lcst]. rewrite eval_add_term. lia. Qed.
Theorem eval_le_add s e1 e2 : eval s (le_add e1 e2) = eval s e1 + eval s e2.
Proof.
  unfold eval, le_add. cbn [lterms lcst].
  rewrite (eval_fold_add s (fun c => c)), eval_map_id. lia.
Qed.
Theorem eval_le_sub s e1 e2 : eval s (le_sub e1 e2) = eval s e1 - eval s e2.
Proof.
  unfold eval, le_sub. cbn [lterms lcst].
  rewrite (eval_fold_add s Z.opp), eval_map_opp. lia.
Qed.
Lemma eval_scale_terms s n l : eval_terms s (scale_terms n l) = n * eval_terms s l.
Proof.
  induction l as [|[y c] t IH]; cbn [scale_terms eval_terms]; [lia|].
  destruct (n * c =? 0) eqn:E; cbn [eval_terms]; rewrite IH; [apply Z.eqb_eq in E | ring].
  replace (n * (c * s y + eval_terms s t)) with (n * c * s y + n * eval_terms s t) by ring.
  rewrite E. lia.
Qed.
Theorem eval_le_scale s n e : eval s (le_scale n e) = n * eval s e.
Proof.
  unfold eval, le_scale. destruct (n =? 0) eqn:E.
  - apply Z.eqb_eq in E. subst. cbn. lia.
  - cbn [lterms lcst]. rewrite eval_scale_terms. lia.
Qed.
Theorem eval_le_neg s e : eval s (le_neg e) = - eval s e.
Proof. unfold le_neg. rewrite eval_le_scale. lia. Qed.

(* renaming *)
Lemma lookup_in l : wf_terms l -> forall x c, In (x, c) l -> lookup x l = c.
Proof.
  intros Hw. induction Hw as [|z d t Hd Hh Hw IH]; intros x c Hin; [destruct Hin|].
  cbn [lookup]. destruct Hin as [E|Hin].
  - inversion E; subst. rewrite Z.eqb_refl. reflexivity.
  - assert (z < x) by (eapply wf_all_above; eauto).
    replace (x =? z) with false by (symmetry; apply Z.eqb_neq; lia). auto.
Qed.

Theorem eval_le_rename s m e : wf e ->
  eval s (le_rename m e) = eval (fun v => s (rename_var m v)) e.
Proof.
  intros Hw. unfold le_rename, le_variables, le_coef.
  assert (G : forall suf acc, (forall p, In p suf -> In p (lterms e)) ->
     eval s (fold_left (fun acc v => le_add acc (le_term (lookup v (lterms e)) (rename_var m v)))
                       (map fst suf) acc)
     = eval s acc + eval_terms (fun v => s (rename_var m v)) suf).
  { induction suf as [|[y c] t IH]; intros acc Hin; cbn [map fold_left eval_terms fst]; [lia|].
    rewrite IH by (intros p Hp; apply Hin; right; auto).
    rewrite eval_le_add, eval_le_term.
    rewrite (lookup_in _ Hw y c) by (apply Hin; left; auto). lia. }
  rewrite G by auto. unfold eval. cbn [le_const lterms lcst eval_terms]. lia.
Qed.

(* ---------------------------------------------------------------- coefficients *)
Lemma lookup_add_term x y n l : wf_terms l ->
  lookup x (add_term y n l) = lookup x l + (if x =? y then n else 0).
Proof.
  intros Hw. induction Hw as [|z d t Hd Hh Hw IH]; cbn [add_term lookup].
  - destruct (n =? 0) eqn:En; cbn [lookup]; destruct (x =? y); try apply Z.eqb_eq in En; lia.
  - destruct (y <? z) eqn:E1.
    + apply Z.ltb_lt in E1. destruct (n =? 0) eqn:En; cbn [lookup].
      * apply Z.eqb_eq in En. subst n. destruct (x =? y); lia.
      * destruct (x =? y) eqn:Exy; [|lia]. apply Z.eqb_eq in Exy. subst y.
        replace (x =? z) with false by (symmetry; apply Z.eqb_neq; lia).
        assert (Hz : lookup x t = 0).
        { apply lookup_above; auto. destruct t as [|[u e] t']; cbn in *; auto. lia. }
        rewrite Hz. lia.
    + apply Z.ltb_ge in E1. destruct (y =? z) eqn:E2.
      * apply Z.eqb_eq in E2. subst z. destruct (d + n =? 0) eqn:Er; cbn [lookup].
        -- apply Z.eqb_eq in Er. destruct (x =? y) eqn:Exy; [|lia].
           apply Z.eqb_eq in Exy. subst y. rewrite (lookup_above x t) by auto. lia.
        -- destruct (x =? y); lia.
      * apply Z.eqb_neq in E2. cbn [lookup]. destruct (x =? z) eqn:Exz.
        -- apply Z.eqb_eq in Exz. subst z.
           replace (x =? y) with false by (symmetry; apply Z.eqb_neq; lia). lia.
        -- apply IH.
Qed.

Lemma lookup_fold_add x (f : Z -> Z) l2 : forall l1, wf_terms l1 -> wf_terms l2 ->
  lookup x (fold_left (fun acc t => add_term (fst t) (f (snd t)) acc) l2 l1) =
  lookup x l1 + (if lookup x l2 =? 0 then 0 else f (lookup x l2)).
Proof.
  induction l2 as [|[y c] t IH]; intros l1 H1 H2; cbn [fold_left lookup fst snd]; [cbn; lia|].
  inversion H2; subst. rewrite IH by (auto using wf_add_term). rewrite lookup_add_term by auto.
  destruct (x =? y) eqn:E.
  - apply Z.eqb_eq in E. subst y. rewrite (lookup_above x t) by auto. cbn.
    replace (c =? 0) with false by (symmetry; apply Z.eqb_neq; auto). lia.
  - lia.
Qed.

Theorem coef_le_add e1 e2 x : wf e1 -> wf e2 ->
  le_coef (le_add e1 e2) x = le_coef e1 x + le_coef e2 x.
Proof.
  intros H1 H2. unfold le_coef, le_add. cbn [lterms].
  rewrite (lookup_fold_add x (fun c => c)) by auto.
  destruct (lookup x (lterms e2) =? 0) eqn:E; [apply Z.eqb_eq in E|]; lia.
Qed.
Theorem coef_le_sub e1 e2 x : wf e1 -> wf e2 ->
  le_coef (le_sub e1 e2) x = le_coef e1 x - le_coef e2 x.
Proof.
  intros H1 H2. unfold le_coef, le_sub. cbn [lterms].
  rewrite (lookup_fold_add x Z.opp) by auto.
  destruct (lookup x (lterms e2) =? 0) eqn:E; [apply Z.eqb_eq in E|]; lia.
Qed.
Lemma lookup_scale x n l : wf_terms l -> lookup x (scale_terms n l) = n * lookup x l.
Proof.
  intros Hw. induction Hw as [|y c t Hc Hh Hw IH]; cbn [scale_terms lookup]; [lia|].
  destruct (n * c =? 0) eqn:E; cbn [lookup]; destruct (x =? y) eqn:Exy; auto.
  apply Z.eqb_eq in E, Exy. subst y. rewrite IH, (lookup_above x t) by auto. lia.
Qed.
Theorem coef_le_scale n e x : wf e -> le_coef (le_scale n e) x = n * le_coef e x.
Proof.
  intros Hw. unfold le_coef, le_scale. destruct (n =? 0) eqn:E.
  - apply Z.eqb_eq in E. subst. cbn. lia.
  - cbn [lterms]. apply lookup_scale; auto.
Qed.

(* ---------------------------------------------------------------- equality *)
Lemma terms_eqb_refl l : terms_eqb l l = true.
Proof. induction l as [|[x c] t IH]; cbn [terms_eqb]; auto. rewrite !Z.eqb_refl. cbn. auto. Qed.

Lemma terms_eqb_eq l1 : forall l2, length l1 = length l2 -> terms_eqb l1 l2 = true -> l1 = l2.
Proof.
  induction l1 as [|[x c] t1 IH]; intros [|[y d] t2] Hlen H; cbn in *; try discriminate; auto.
  destruct (c =? d) eqn:E1; cbn in H; [|discriminate].
  destruct (x =? y) eqn:E2; cbn in H; [|discriminate].
  apply Z.eqb_eq in E1, E2. subst. f_equal. apply IH; auto.
Qed.

(* equal() is syntactic equality of the representations *)
Theorem le_equal_iff e1 e2 : le_equal e1 e2 = true <-> e1 = e2.
Proof.
  destruct e1 as [l1 k1], e2 as [l2 k2]. unfold le_equal, le_is_constant, le_constant, le_size.
  cbn [lterms lcst]. split.
  - destruct l1 as [|p1 t1].
    + destruct l2 as [|p2 t2]; cbn; [|discriminate]. intros H. apply Z.eqb_eq in H. subst. auto.
    + destruct (k1 =? k2) eqn:Ek; cbn [negb]; [|discriminate]. apply Z.eqb_eq in Ek. subst k2.
      destruct (Z.of_nat (length (p1 :: t1)) =? Z.of_nat (length l2)) eqn:El; cbn [negb]; [|discriminate].
      apply Z.eqb_eq in El. apply Nat2Z.inj in El. intros H. f_equal. apply terms_eqb_eq; auto.
  - intros E. inversion E; subst. destruct l2 as [|p t]; [apply Z.eqb_refl|].
    rewrite !Z.eqb_refl. cbn [negb]. apply terms_eqb_refl.
Qed.

(* canonical forms are unique: two well-formed expressions denoting the same function
   are the same expression *)
Definition delta (x : var) : var -> Z := fun v => if v =? x then 1 else 0.

Lemma eval_delta x l : wf_terms l -> eval_terms (delta x) l = lookup x l.
Proof.
  intros Hw. induction Hw as [|z d t Hd Hh Hw IH]; [reflexivity|].
  cbn [eval_terms lookup]. unfold delta at 1. rewrite (Z.eqb_sym z x).
  destruct (x =? z) eqn:E.
  - apply Z.eqb_eq in E. subst z. rewrite IH, (lookup_above x t) by auto. lia.
  - rewrite IH. lia.
Qed.

Lemma eval_zero l : eval_terms (fun _ => 0) l = 0.
Proof. induction l as [|[y c] t IH]; cbn [eval_terms]; lia. Qed.

Lemma wf_lookup_ext l1 : wf_terms l1 -> forall l2, wf_terms l2 ->
  (forall x, lookup x l1 = lookup x l2) -> l1 = l2.
Proof.
  intros H1. induction H1 as [|x c t1 Hc Hh1 Hw1 IH]; intros l2 H2 Hext.
  - destruct H2 as [|y d t2 Hd Hh2 Hw2]; auto. exfalso.
    specialize (Hext y). cbn in Hext. rewrite Z.eqb_refl in Hext. lia.
  - destruct H2 as [|y d t2 Hd Hh2 Hw2].
    + exfalso. specialize (Hext x). cbn in Hext. rewrite Z.eqb_refl in Hext. lia.
    + assert (Hxy : x = y).
      { destruct (Z.lt_trichotomy x y) as [Hlt|[E|Hgt]]; auto; exfalso.
        - specialize (Hext x). cbn [lookup] in Hext. rewrite Z.eqb_refl in Hext.
          replace (x =? y) with false in Hext by (symmetry; apply Z.eqb_neq; lia).
          rewrite (lookup_above x t2) in Hext; auto.
          destruct t2 as [|[u e] t']; cbn in *; auto. lia.
        - specialize (Hext y). cbn [lookup] in Hext. rewrite Z.eqb_refl in Hext.
          replace (y =? x) with false in Hext by (symmetry; apply Z.eqb_neq; lia).
          rewrite (lookup_above y t1) in Hext; auto.
          destruct t1 as [|[u e] t']; cbn in *; auto. lia. }
      subst y. pose proof (Hext x) as Hx. cbn [lookup] in Hx. rewrite Z.eqb_refl in Hx. subst d.
      f_equal. apply IH; auto. intros z. specialize (Hext z). cbn [lookup] in Hext.
      destruct (z =? x) eqn:E; auto. apply Z.eqb_eq in E. subst z.
      rewrite (lookup_above x t1), (lookup_above x t2); auto.
Qed.

Theorem canonical_form_unique e1 e2 : wf e1 -> wf e2 ->
  (forall s, eval s e1 = eval s e2) -> e1 = e2.
Proof.
  intros H1 H2 Hs. destruct e1 as [l1 k1], e2 as [l2 k2]. unfold wf, eval in *. cbn [lterms lcst] in *.
  assert (Hk : k1 = k2). { specialize (Hs (fun _ => 0)). rewrite !eval_zero in Hs. lia. }
  subst k2. f_equal. apply wf_lookup_ext; auto. intros x.
  specialize (Hs (delta x)). rewrite !eval_delta in Hs by auto. lia.
Qed.

Corollary le_equal_semantic e1 e2 : wf e1 -> wf e2 ->
  (le_equal e1 e2 = true <-> forall s, eval s e1 = eval s e2).
Proof.
  intros H1 H2. rewrite le_equal_iff. split; [intros ->; auto | apply canonical_form_unique; auto].
Qed.

(* observers *)
Theorem le_is_constant_spec e : le_is_constant e = true -> forall s, eval s e = le_constant e.
Proof. destruct e as [[|p t] k]; cbn; [intros _ s; reflexivity | discriminate]. Qed.
Theorem le_get_variable_spec e x : le_get_variable e = Some x -> forall s, eval s e = s x.
Proof.
  unfold le_get_variable, le_is_constant, le_constant, le_size. destruct e as [[|[y c] t] k]; cbn [lterms lcst]; [discriminate|].
  destruct (k =? 0) eqn:Ek; cbn [andb]; [|discriminate].
  destruct (Z.of_nat (length ((y, c) :: t)) =? 1) eqn:El; [|discriminate].
  destruct (c =? 1) eqn:Ec; [|discriminate]. intros [= <-] s.
  apply Z.eqb_eq in Ek, El, Ec. subst. destruct t; [|cbn [length] in El; lia].
  unfold eval. cbn [lterms lcst eval_terms]. lia.
Qed.

Example wf_example :
  let e := le_add (le_term 3 1) (le_add (le_term (-2) 4) (le_const 7)) in
  wf e /\ le_sub e e = le_const 0 /\ le_coef (le_scale 5 e) 4 = -10.
Proof. cbn. repeat split; auto. repeat constructor; cbn; lia. Qed.
