(* LinSys.v — mirror model of ikos::linear_constraint_system<z_number, VariableName>:
   a vector of constraints; operator+= skips a constraint that is syntactically equal
   to one already present; normalize() replaces pairs e <= 0, -e <= 0 by e == 0.
   No proofs here. *)
From Coq Require Import ZArith Bool List.
From CrabV Require Import Lin.LinExpr Lin.LinCst.
Import ListNotations.
Local Open Scope Z_scope.

Definition linsys := list lincst.

(* operator+=(const linear_constraint_t &c) *)
Definition sys_add (s : linsys) (c : lincst) : linsys :=
  if existsb (fun c1 => lc_equal c1 c) s then s else s ++ [c].
(* operator+=(const linear_constraint_system_t &s) *)
Definition sys_add_sys (s s2 : linsys) : linsys := fold_left sys_add s2 s.
(* operator+(s):  r; r += s; r += *this *)
Definition sys_plus (this s : linsys) : linsys := sys_add_sys (sys_add_sys [] s) this.
Definition sys_of_list (cs : list lincst) : linsys := sys_add_sys [] cs.

Definition sys_is_false (s : linsys) : bool :=
  match s with [] => false | _ => existsb is_contradiction s end.
Definition sys_is_true (s : linsys) : bool := match s with [] => true | _ => false end.
Definition sys_size (s : linsys) : Z := Z.of_nat (length s).

(* normalize().  expr_set / index_map are hash containers keyed by syntactic equality
   of expressions; the model keeps the association list (expression, index) in
   insertion order (insert does not overwrite an existing key). *)
Fixpoint seen_find (e : linexpr) (seen : list (linexpr * nat)) : option nat :=
  match seen with
  | [] => None
  | (e1, i) :: t => if le_equal e1 e then Some i else seen_find e t
  end.
Definition seen_insert (e : linexpr) (i : nat) (seen : list (linexpr * nat)) : list (linexpr * nat) :=
  match seen_find e seen with Some _ => seen | None => seen ++ [(e, i)] end.

(* first loop: state = (seen, indexes to remove, out) *)
Definition norm_step (st : list (linexpr * nat) * list nat * linsys) (ic : nat * lincst)
  : list (linexpr * nat) * list nat * linsys :=
  let '(seen, rem, out) := st in
  let '(i, c) := ic in
  if lc_is_inequality c then
    let exp := cexpr c in
    match seen_find (le_neg exp) seen with
    | None => (seen_insert exp i seen, rem, out)
    | Some j =>
      (* unary equality: choose the one with the positive coefficient *)
      let insert_pos :=
        negb ((le_size exp =? 1) &&
              match lterms exp with (_, c0) :: _ => c0 <? 0 | [] => false end) in
      (seen, i :: j :: rem,
       sys_add out (mkLC (if insert_pos then exp else le_neg exp) EQUALITY))
    end
  else st.

Fixpoint index_from (i : nat) (cs : list lincst) : list (nat * lincst) :=
  match cs with [] => [] | c :: t => (i, c) :: index_from (S i) t end.

Definition normalize (s : linsys) : linsys :=
  let ics := index_from 0 s in
  let '(_, rem, out) := fold_left norm_step ics ([], [], []) in
  fold_left (fun out ic => if existsb (Nat.eqb (fst ic)) rem then out else sys_add out (snd ic))
            ics out.

Definition sat_all (s : var -> Z) (sys : linsys) : Prop := forall c, In c sys -> sat s c.
