(* LinCst.v — mirror model of ikos::linear_constraint<z_number, VariableName>
   (include/crab/types/linear_constraints.hpp):  expr (kind) 0  with kind one of
   EQUALITY, DISEQUATION, INEQUALITY (<=), STRICT_INEQUALITY (<).
   negate() and strict_to_non_strict_inequality() follow the z_number specialisations.
   No proofs here. *)
From Coq Require Import ZArith Bool List.
From CrabV Require Import Lin.LinExpr.
Import ListNotations.
Local Open Scope Z_scope.

Inductive kind : Type := EQUALITY | DISEQUATION | INEQUALITY | STRICT_INEQUALITY.
Definition kind_eqb (a b : kind) : bool :=
  match a, b with
  | EQUALITY, EQUALITY | DISEQUATION, DISEQUATION | INEQUALITY, INEQUALITY
  | STRICT_INEQUALITY, STRICT_INEQUALITY => true
  | _, _ => false
  end.
Definition kind_index (k : kind) : Z :=
  match k with EQUALITY => 0 | DISEQUATION => 1 | INEQUALITY => 2 | STRICT_INEQUALITY => 3 end.

Record lincst : Type := mkLC { cexpr : linexpr; ckind : kind }.

Definition lc_true : lincst := mkLC (le_const 0) EQUALITY.       (* get_true()  *)
Definition lc_false : lincst := mkLC (le_const 0) DISEQUATION.   (* get_false() *)

Definition is_tautology (c : lincst) : bool :=
  let e := cexpr c in
  match ckind c with
  | DISEQUATION => le_is_constant e && negb (le_constant e =? 0)
  | EQUALITY => le_is_constant e && (le_constant e =? 0)
  | INEQUALITY => le_is_constant e && (le_constant e <=? 0)
  | STRICT_INEQUALITY => le_is_constant e && (le_constant e <? 0)
  end.

Definition is_contradiction (c : lincst) : bool :=
  let e := cexpr c in
  match ckind c with
  | DISEQUATION => le_is_constant e && (le_constant e =? 0)
  | EQUALITY => le_is_constant e && negb (le_constant e =? 0)
  | INEQUALITY => le_is_constant e && (0 <? le_constant e)
  | STRICT_INEQUALITY => le_is_constant e && (0 <=? le_constant e)
  end.

Definition lc_is_inequality (c : lincst) : bool := kind_eqb (ckind c) INEQUALITY.
Definition lc_constant (c : lincst) : Z := - le_constant (cexpr c).   (* Number constant() *)
Definition lc_size (c : lincst) : Z := le_size (cexpr c).
Definition lc_coef (c : lincst) (x : var) : Z := le_coef (cexpr c) x.
Definition lc_equal (c1 c2 : lincst) : bool :=
  kind_eqb (ckind c1) (ckind c2) && le_equal (cexpr c1) (cexpr c2).
Definition lc_lex (c1 c2 : lincst) : bool :=
  if kind_index (ckind c1) <? kind_index (ckind c2) then true
  else if kind_index (ckind c2) <? kind_index (ckind c1) then false
  else le_lex (cexpr c1) (cexpr c2).
Definition lc_rename (m : list (var * var)) (c : lincst) : lincst :=
  mkLC (le_rename m (cexpr c)) (ckind c).
Definition lc_is_well_typed (ty : var -> vtype) (c : lincst) : bool :=
  le_is_well_typed ty (cexpr c).

(* negate():  tautology -> false, contradiction -> true, otherwise
     e <= 0  ->  -(e - 1) <= 0     (z_number: e >= 1)
     e <  0  ->  -e <= 0
     e == 0  ->  e != 0,   e != 0 -> e == 0 *)
Definition negate (c : lincst) : lincst :=
  if is_tautology c then lc_false
  else if is_contradiction c then lc_true
  else match ckind c with
       | INEQUALITY => mkLC (le_neg (le_subk (cexpr c) 1)) INEQUALITY
       | STRICT_INEQUALITY => mkLC (le_neg (cexpr c)) INEQUALITY
       | EQUALITY => mkLC (cexpr c) DISEQUATION
       | DISEQUATION => mkLC (cexpr c) EQUALITY
       end.

(* strict_to_non_strict_inequality (z_number):  e < 0  ->  e + 1 <= 0;
   the C++ asserts the kind: None otherwise *)
Definition strict_to_non_strict (c : lincst) : option lincst :=
  match ckind c with
  | STRICT_INEQUALITY => Some (mkLC (le_addk (cexpr c) 1) INEQUALITY)
  | _ => None
  end.

(* the comparison operators on expressions: e1 <= e2 is (e1 - e2 <= 0), etc. *)
Definition mk_le (e1 e2 : linexpr) : lincst := mkLC (le_sub e1 e2) INEQUALITY.
Definition mk_ge (e1 e2 : linexpr) : lincst := mkLC (le_sub e2 e1) INEQUALITY.
Definition mk_lt (e1 e2 : linexpr) : lincst := mkLC (le_sub e1 e2) STRICT_INEQUALITY.
Definition mk_gt (e1 e2 : linexpr) : lincst := mkLC (le_sub e2 e1) STRICT_INEQUALITY.
Definition mk_eq (e1 e2 : linexpr) : lincst := mkLC (le_sub e1 e2) EQUALITY.
Definition mk_ne (e1 e2 : linexpr) : lincst := mkLC (le_sub e1 e2) DISEQUATION.

(* meaning over the integers *)
Definition sat (s : var -> Z) (c : lincst) : Prop :=
  match ckind c with
  | EQUALITY => eval s (cexpr c) = 0
  | DISEQUATION => eval s (cexpr c) <> 0
  | INEQUALITY => eval s (cexpr c) <= 0
  | STRICT_INEQUALITY => eval s (cexpr c) < 0
  end.
