(* LinCstSound.v — linear constraints over the integers: negate is the exact
   complement, the tautology / contradiction tests are sound and exact on constant
   constraints, the comparison operators build what they say. *)
From Coq Require Import ZArith Bool List Lia.
From CrabV Require Import Lin.LinExpr Lin.LinExprSound Lin.LinCst.
Import ListNotations.
Local Open Scope Z_scope.

Definition wf_cst (c : lincst) : Prop := wf (cexpr c).

Lemma const_eval e : le_is_constant e = true -> forall s, eval s e = le_constant e.
Proof. apply le_is_constant_spec. Qed.

(* ---- tautology / contradiction ---- *)
Theorem is_tautology_sound c : is_tautology c = true -> forall s, sat s c.
Proof.
  unfold is_tautology, sat. destruct (ckind c); intros H s;
    apply andb_prop in H; destruct H as [Hc H]; rewrite (const_eval _ Hc s).
  - apply Z.eqb_eq in H; auto.
  - apply negb_true_iff in H. apply Z.eqb_neq in H; auto.
  - apply Z.leb_le in H; auto.
  - apply Z.ltb_lt in H; auto.
Qed.

Theorem is_contradiction_sound c : is_contradiction c = true -> forall s, ~ sat s c.
Proof.
  unfold is_contradiction, sat. destruct (ckind c); intros H s;
    apply andb_prop in H; destruct H as [Hc H]; rewrite (const_eval _ Hc s).
  - apply negb_true_iff in H. apply Z.eqb_neq in H; auto.
  - apply Z.eqb_eq in H; auto.
  - apply Z.ltb_lt in H; lia.
  - apply Z.leb_le in H; lia.
Qed.

(* exact for constant constraints *)
Theorem is_tautology_exact c : le_is_constant (cexpr c) = true ->
  (is_tautology c = true <-> forall s, sat s c).
Proof.
  intros Hc. split; [apply is_tautology_sound|]. intros H. specialize (H (fun _ => 0)).
  unfold is_tautology, sat in *. rewrite (const_eval _ Hc) in H. rewrite Hc. cbn [andb].
  destruct (ckind c).
  - apply Z.eqb_eq; auto.
  - apply negb_true_iff. apply Z.eqb_neq; auto.
  - apply Z.leb_le; auto.
  - apply Z.ltb_lt; auto.
Qed.

Theorem is_contradiction_exact c : le_is_constant (cexpr c) = true ->
  (is_contradiction c = true <-> forall s, ~ sat s c).
Proof.
  intros Hc. split; [apply is_contradiction_sound|]. intros H. specialize (H (fun _ => 0)).
  unfold is_contradiction, sat in *. rewrite (const_eval _ Hc) in H. rewrite Hc. cbn [andb].
  destruct (ckind c).
  - apply negb_true_iff. apply Z.eqb_neq; auto.
  - apply Z.eqb_eq. lia.
  - apply Z.ltb_lt. lia.
  - apply Z.leb_le. lia.
Qed.

(* a well-formed expression is constant as a function iff it has no terms, so for
   well-formed constraints "constant" may be read semantically *)
Theorem wf_constant_iff e : wf e ->
  (le_is_constant e = true <-> forall s1 s2, eval s1 e = eval s2 e).
Proof.
  intros Hw. split.
  - intros Hc s1 s2. rewrite !(const_eval _ Hc). reflexivity.
  - intros H. destruct e as [[|[x c] t] k]; [reflexivity|]. exfalso.
    unfold wf in Hw. cbn [lterms] in Hw. inversion Hw; subst.
    specialize (H (delta x) (fun _ => 0)). unfold eval in H. cbn [lterms lcst] in H.
    rewrite eval_delta, eval_zero in H by auto. cbn [lookup] in H. rewrite Z.eqb_refl in H. lia.
Qed.

(* the same, with "constant" read semantically, for well-formed constraints *)
Theorem is_tautology_exact_semantic c : wf_cst c ->
  (forall s1 s2, eval s1 (cexpr c) = eval s2 (cexpr c)) ->
  (is_tautology c = true <-> forall s, sat s c).
Proof. intros Hw Hc. apply is_tautology_exact. apply wf_constant_iff; auto. Qed.
Theorem is_contradiction_exact_semantic c : wf_cst c ->
  (forall s1 s2, eval s1 (cexpr c) = eval s2 (cexpr c)) ->
  (is_contradiction c = true <-> forall s, ~ sat s c).
Proof. intros Hw Hc. apply is_contradiction_exact. apply wf_constant_iff; auto. Qed.

(* ---- negation: exact complement over Z ---- *)
Theorem negate_exact c s : sat s (negate c) <-> ~ sat s c.
Proof.
  unfold negate. destruct (is_tautology c) eqn:Et.
  - pose proof (is_tautology_sound c Et s). unfold sat at 1. cbn. split; [lia | tauto].
  - destruct (is_contradiction c) eqn:Ec.
    + pose proof (is_contradiction_sound c Ec s). unfold sat at 1. cbn. tauto.
    + unfold sat. destruct (ckind c); cbn [ckind cexpr].
      * lia.
      * lia.
      * rewrite eval_le_neg, eval_le_subk. lia.
      * rewrite eval_le_neg. lia.
Qed.

Theorem negate_wf c : wf_cst c -> wf_cst (negate c).
Proof.
  unfold wf_cst, negate. intros H. destruct (is_tautology c); [constructor|].
  destruct (is_contradiction c); [constructor|].
  destruct (ckind c); cbn [cexpr]; auto; apply wf_le_neg; auto.
Qed.

Theorem negate_involutive_sem c s : sat s (negate (negate c)) <-> sat s c.
Proof.
  rewrite !negate_exact. unfold sat. destruct (ckind c); lia.
Qed.

(* ---- strict to non-strict ---- *)
Theorem strict_to_non_strict_exact c c' s :
  strict_to_non_strict c = Some c' -> (sat s c' <-> sat s c).
Proof.
  unfold strict_to_non_strict, sat. destruct (ckind c) eqn:K; try discriminate.
  intros [= <-]. cbn [ckind cexpr]. rewrite eval_le_addk. lia.
Qed.
Lemma strict_to_non_strict_defined c :
  ckind c = STRICT_INEQUALITY -> strict_to_non_strict c <> None.
Proof. unfold strict_to_non_strict. intros ->. discriminate. Qed.

(* ---- the comparison operators ---- *)
Theorem mk_ops_spec e1 e2 s :
  (sat s (mk_le e1 e2) <-> eval s e1 <= eval s e2) /\
  (sat s (mk_ge e1 e2) <-> eval s e1 >= eval s e2) /\
  (sat s (mk_lt e1 e2) <-> eval s e1 < eval s e2) /\
  (sat s (mk_gt e1 e2) <-> eval s e1 > eval s e2) /\
  (sat s (mk_eq e1 e2) <-> eval s e1 = eval s e2) /\
  (sat s (mk_ne e1 e2) <-> eval s e1 <> eval s e2).
Proof. unfold sat; cbn [mk_le mk_ge mk_lt mk_gt mk_eq mk_ne ckind cexpr]. rewrite !eval_le_sub. lia. Qed.

(* ---- renaming ---- *)
Theorem lc_rename_sat m c s : wf_cst c ->
  (sat s (lc_rename m c) <-> sat (fun v => s (rename_var m v)) c).
Proof.
  intros H. unfold sat, lc_rename. cbn [ckind cexpr]. rewrite eval_le_rename by auto. tauto.
Qed.

(* ---- equality ---- *)
Lemma kind_eqb_eq a b : kind_eqb a b = true <-> a = b.
Proof. destruct a, b; cbn; split; intros H; try discriminate; auto. Qed.
Theorem lc_equal_iff c1 c2 : lc_equal c1 c2 = true <-> c1 = c2.
Proof.
  unfold lc_equal. rewrite andb_true_iff, kind_eqb_eq, le_equal_iff.
  destruct c1 as [e1 k1], c2 as [e2 k2]; cbn [ckind cexpr]. split; [intros [-> ->]; auto | intros E; inversion E; auto].
Qed.

Theorem lc_constant_spec c s : eval s (cexpr c) = eval_terms s (lterms (cexpr c)) - lc_constant c.
Proof. unfold eval, lc_constant, le_constant. lia. Qed.

Example negate_examples :
  negate (mkLC (le_add (le_term 2 1) (le_const (-3))) INEQUALITY)
    = mkLC (le_add (le_term (-2) 1) (le_const 4)) INEQUALITY /\
  negate (mkLC (le_const 5) STRICT_INEQUALITY) = lc_true /\
  negate (mkLC (le_term 1 2) STRICT_INEQUALITY) = mkLC (le_term (-1) 2) INEQUALITY.
Proof. vm_compute. auto. Qed.
