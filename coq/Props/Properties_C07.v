(* Property C07 — weak topological orderings are well-formed.
   "For every directed graph and entry node, the computed weak topological ordering contains
   each node reachable from the entry exactly once, its components are properly nested, and
   for every edge u->v either u precedes v in the ordering or v is the head of a component
   that contains u.  The nesting reported for a node lists exactly the heads of the components
   that strictly enclose it, outermost first."

   Statements only; every proof is a reference to a lemma of the development.
   Model: Fix/Wto.v (mirror of the iterative wto::visit / component / nesting_builder of
   include/crab/fixpoint/wto.hpp); property and checker: Fix/WtoCheck.v; invariants of the
   algorithm: Fix/WtoSound.v; termination (the fuel of the model suffices): Fix/WtoTotal.v. *)
From Coq Require Import List Arith.
From CrabV Require Import Fix.Wto Fix.WtoCheck Fix.WtoSound Fix.WtoTotal Fix.EngineBelow Fix.WtoRoot.
Import ListNotations.

(* the full statement: the ordering computed by the model of wto.hpp passes the checker *)
Definition C07_statement : Prop := forall g e w, build g e = Some w -> wto_ok g e w = true.
Theorem C07_statement_proved : C07_statement.
Proof. exact build_ok. Qed.
Print Assumptions C07_statement_proved.

(* ... for every amount of fuel, not only the default one *)
Theorem C07_any_fuel : forall f g e w, build_fuel f g e = Some w -> wto_ok g e w = true.
Proof. exact build_fuel_ok. Qed.
Print Assumptions C07_any_fuel.

(* the checker decides the property: WF is the property text as a Prop (all graphs) *)
Theorem C07_checker_sound : forall g e w nst dom, check g e w nst dom = true -> WF g e w nst dom.
Proof. exact check_sound. Qed.
Print Assumptions C07_checker_sound.

(* hence: the computed ordering and the reported nesting satisfy the property, for all graphs
   (any number of nodes, self loops, irreducible cycles, unreachable nodes), all entry nodes
   and all successor orders *)
Theorem C07_wto_wellformed : forall g e w, build g e = Some w ->
  WF g e w (nesting w) (seq 0 (length g) ++ flat w).
Proof. exact build_WF. Qed.
Print Assumptions C07_wto_wellformed.

(* the nesting reported for a node is the list of heads of the components that strictly
   enclose its first occurrence, outermost first, for every ordering w *)
Theorem C07_nesting_reported : forall w n, nesting w n = heads_l w n.
Proof. exact nesting_heads. Qed.
Print Assumptions C07_nesting_reported.
Theorem C07_heads_are_enclosing : forall w n hs, heads_l w n = Some hs -> nest_w w n hs.
Proof. exact heads_l_sound. Qed.
Print Assumptions C07_heads_are_enclosing.

(* the validated construction *)
Theorem C07_build_checked_sound : forall g e w, build_checked g e = Some w ->
  WF g e w (nesting w) (seq 0 (length g) ++ flat w).
Proof. exact build_checked_sound. Qed.
Print Assumptions C07_build_checked_sound.

(* the fuel of the model always suffices: total correctness for every graph whose successor
   lists mention only its own nodes, every entry node, every successor order *)
Theorem C07_build_total : forall g e, graph_wf g -> e < length g -> exists w, build g e = Some w.
Proof. exact build_total. Qed.
Print Assumptions C07_build_total.
Theorem C07_wto_wellformed_total : forall g e, graph_wf g -> e < length g ->
  exists w, build g e = Some w /\ wto_ok g e w = true /\
            WF g e w (nesting w) (seq 0 (length g) ++ flat w).
Proof. exact build_total_WF. Qed.
Print Assumptions C07_wto_wellformed_total.

(* non-vacuity: nested loops, an irreducible graph, Bourdoncle's example *)
Theorem C07_example_nested :
  build [[1]; [2]; [3]; [4; 1]; [5; 2]; [0]] 0 =
  Some [Cycle 0 [Cycle 1 [Cycle 2 [Vertex 3; Vertex 4]]; Vertex 5]].
Proof. exact ex_nested. Qed.
Print Assumptions C07_example_nested.
Theorem C07_example_irreducible :
  build [[1; 2]; [2]; [1; 3]; []] 0 = Some [Vertex 0; Cycle 1 [Vertex 2]; Vertex 3].
Proof. exact ex_irreducible. Qed.
Print Assumptions C07_example_irreducible.

(* the ordering starts with the block it was built from (used by C01/C06: crab's run(init)) *)
Theorem C07_wto_starts_with_entry : forall g e w, build g e = Some w ->
  hd_error (flat w) = Some e /\ In e (flat w) /\ entry_ok e w = true.
Proof. exact build_entry_ok. Qed.
Print Assumptions C07_wto_starts_with_entry.
