(* Property C04 for the Coq mirror of flat_boolean_numerical_domain<interval_domain>
   (Dom/FlatBool.v, proofs Dom/FlatBoolSound.v): the inclusion test and the lattice operations agree
   with the concretisation.  Statements only. *)
From Coq Require Import ZArith NArith List Bool.
From CrabV Require Import Base.ZInf Scalar.Itv Scalar.ItvSound Ir.Syntax Dom.ItvEnv Dom.ItvEnvSound
     Dom.ItvSolver Dom.ItvSolverSound Dom.ItvDomain Dom.ItvDomainSound Dom.History Dom.HistorySound
     Dom.FlatBool Dom.FlatBoolSound.
Import ListNotations.
Local Open Scope Z_scope.

(* C04.  Inclusion test: whenever it answers yes, every pair of stores of the left operand is
   a pair of stores of the right one.  fb_inv b is the representation invariant "the set of
   unchanged variables is the all-variables set only together with a bottom memory"; it holds
   for every value that a history builds (C04_flatbool_invariant_of_histories), so the
   history-level statement has no side condition. *)
Theorem C04_flatbool_leq_sound : forall a b s t,
  fb_leq a b = true -> fb_inv b -> gfb a s t -> gfb b s t.
Proof. exact fb_leq_sound. Qed.
Theorem C04_flatbool_invariant_of_histories : forall isb h rs,
  (forall r, fb_inv (frget rs r)) -> forall r, fb_inv (frget (frun isb rs h) r).
Proof. exact frun_inv. Qed.
Theorem C04_flatbool_history_leq_sound : forall isb h n a b s t,
  fhist_ok isb (repeat fb_top n) h ->
  fb_leq (frget (frun isb (repeat fb_top n) h) a) (frget (frun isb (repeat fb_top n) h) b) = true ->
  fcget (fold_left (fcstep isb) h (repeat (fun _ _ => True) n)) a s t ->
  gfb (frget (frun isb (repeat fb_top n) h) b) s t.
Proof. exact fhistory_leq_sound. Qed.
Theorem C04_flatbool_join_upper_bound : forall a b s t,
  gfb a s t \/ gfb b s t -> gfb (fb_join a b) s t.
Proof. exact fb_join_sound. Qed.
Theorem C04_flatbool_meet_lower_bound : forall a b s t,
  gfb a s t -> gfb b s t -> gfb (fb_meet a b) s t.
Proof. exact fb_meet_sound. Qed.
Theorem C04_flatbool_widening_upper_bound : forall a b s t,
  gfb a s t \/ gfb b s t -> gfb (fb_widen a b) s t.
Proof. exact fb_widen_sound. Qed.
Theorem C04_flatbool_narrowing_lower_bound : forall a b s t,
  gfb a s t -> gfb b s t -> gfb (fb_narrow a b) s t.
Proof. exact fb_narrow_sound. Qed.

Print Assumptions C04_flatbool_leq_sound.
Print Assumptions C04_flatbool_invariant_of_histories.
Print Assumptions C04_flatbool_history_leq_sound.
Print Assumptions C04_flatbool_join_upper_bound.
Print Assumptions C04_flatbool_meet_lower_bound.
Print Assumptions C04_flatbool_widening_upper_bound.
Print Assumptions C04_flatbool_narrowing_lower_bound.
