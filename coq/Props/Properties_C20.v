(* Property C20 — numbers and linear constraints.
   "Big integers and rationals agree with mathematical arithmetic (truncating signed
   division and remainder, floor right shifts, infinite-precision two's-complement
   bitwise operations, exact int64/uint64/string round trips, correct rounding of
   rationals) and checked 64-bit weights never wrap silently.  Linear expressions
   evaluate homomorphically under sum, difference, scaling and renaming, constraint
   negation is the exact complement over the integers, the tautology/contradiction
   tests are exact for constant constraints, and normalising a constraint system
   preserves its solution set."
   Statements only; every proof is a reference to a lemma of the development.
   Models: Num/Bignum.v, Num/QNum.v (specification level: Coq Z and Q), Num/Safeint.v,
   Lin/LinExpr.v, Lin/LinCst.v, Lin/LinSys.v (mirrors). *)
From Coq Require Import ZArith QArith Bool List.
From CrabV Require Import Num.Bignum Num.BignumSound Num.QNum Num.QNumSound Num.Safeint Num.SafeintSound.
From CrabV Require Import Lin.LinExpr Lin.LinExprSound Lin.LinCst Lin.LinCstSound Lin.LinSys Lin.LinSysSound.
Local Open Scope Z_scope.

Theorem C20_z_div_rem_characterised :
  forall a b, b <> 0 -> exists q r, zdiv a b = Some q /\ zrem a b = Some r /\ trunc_divmod a b q r /\ (forall q' r', trunc_divmod a b q' r' -> q' = q /\ r' = r).
Proof. exact zdiv_zrem_spec. Qed.
Theorem C20_z_div_by_zero_is_an_error :
  forall a, zdiv a 0 = None /\ zrem a 0 = None.
Proof. exact zdiv_by_zero. Qed.
Theorem C20_z_shr_is_floor :
  forall a k r, zshr a k = Some r -> 2 ^ k * r <= a < 2 ^ k * (r + 1).
Proof. exact zshr_floor. Qed.
Theorem C20_z_shr_div :
  forall a k r, zshr a k = Some r -> r = a / 2 ^ k.
Proof. exact zshr_div. Qed.
Theorem C20_z_shl_mul :
  forall a k r, zshl a k = Some r -> r = a * 2 ^ k.
Proof. exact zshl_mul. Qed.
Theorem C20_z_shift_defined :
  forall a k, 0 <= k <= shift_limit -> zshl a k <> None /\ zshr a k <> None.
Proof. exact zshift_defined. Qed.
Theorem C20_z_and_bits :
  forall a b n, Z.testbit (zand a b) n = Z.testbit a n && Z.testbit b n.
Proof. exact zand_bits. Qed.
Theorem C20_z_or_bits :
  forall a b n, Z.testbit (zor a b) n = Z.testbit a n || Z.testbit b n.
Proof. exact zor_bits. Qed.
Theorem C20_z_xor_bits :
  forall a b n, Z.testbit (zxor a b) n = xorb (Z.testbit a n) (Z.testbit b n).
Proof. exact zxor_bits. Qed.
Theorem C20_z_bits_are_twos_complement :
  forall a, a < 0 <-> exists k, forall n, k <= n -> Z.testbit a n = true.
Proof. exact twos_complement_sign. Qed.
Theorem C20_z_fill_ones_closed_form :
  forall x, fill_ones x = if x <? 0 then None else if x =? 0 then Some 0 else Some (Z.ones (Z.log2 x + 1)).
Proof. exact fill_ones_closed. Qed.
Theorem C20_z_fill_ones_least :
  forall x r, 0 < x -> fill_ones x = Some r -> x <= r /\ (exists k, 0 <= k /\ r = 2 ^ k - 1) /\ (forall k, 0 <= k -> x <= 2 ^ k - 1 -> r <= 2 ^ k - 1).
Proof. exact fill_ones_least. Qed.
Theorem C20_z_to_int64_exact :
  forall a n, to_int64 a = Some n <-> (- 2 ^ 63 <= a <= 2 ^ 63 - 1 /\ n = a).
Proof. exact to_int64_spec. Qed.
Theorem C20_z_to_int64_overflow_is_an_error :
  forall a, to_int64 a = None <-> ~ (- 2 ^ 63 <= a <= 2 ^ 63 - 1).
Proof. exact to_int64_overflow. Qed.
Theorem C20_z_int64_round_trip :
  forall n z, of_int64 n = Some z -> to_int64 z = Some n /\ fits_int64 z = true.
Proof. exact int64_round_trip. Qed.
Theorem C20_z_uint64_import_exact :
  forall n z, of_uint64 n = Some z <-> (0 <= n <= 2 ^ 64 - 1 /\ z = n).
Proof. exact uint64_import. Qed.
Theorem C20_z_string_round_trip :
  forall b a neg ds, z_get_str b a = Some (neg, ds) -> z_of_str b neg ds = Some a.
Proof. exact z_str_round_trip. Qed.
Theorem C20_z_digits_value :
  forall b n, 2 <= b -> 0 <= n -> of_digits b (to_digits b n) = n.
Proof. exact of_to_digits. Qed.
Theorem C20_z_digits_range :
  forall b n, 2 <= b -> 0 <= n -> Forall (fun d => 0 <= d < b) (to_digits b n).
Proof. exact to_digits_range. Qed.
Theorem C20_z_raw_words_round_trip :
  forall order a, let (sign, ws) := to_words order a in of_words order ws = Z.abs a /\ sign = (0 <=? a) /\ Forall (fun w => 0 <= w < 2 ^ 64) ws.
Proof. exact words_round_trip. Qed.
Theorem C20_q_make_canonical :
  forall n d, (d = 0 -> q_make n d = None) /\ (d <> 0 -> exists q, q_make n d = Some q /\ canonical q /\ (q * inject_Z d == inject_Z n)%Q).
Proof. exact q_make_spec. Qed.
Theorem C20_q_canonical_unique :
  forall p q, canonical p -> canonical q -> (p == q)%Q -> p = q.
Proof. exact canonical_unique. Qed.
Theorem C20_q_add :
  forall a b, canonical (qadd a b) /\ (qadd a b == a + b)%Q.
Proof. exact qadd_spec. Qed.
Theorem C20_q_sub :
  forall a b, canonical (qsub a b) /\ (qsub a b == a - b)%Q.
Proof. exact qsub_spec. Qed.
Theorem C20_q_mul :
  forall a b, canonical (qmul a b) /\ (qmul a b == a * b)%Q.
Proof. exact qmul_spec. Qed.
Theorem C20_q_neg :
  forall a, canonical (qneg a) /\ (qneg a == - a)%Q.
Proof. exact qneg_spec. Qed.
Theorem C20_q_div :
  forall a b, ((b == 0)%Q -> qdivide a b = None) /\ (~ (b == 0)%Q -> exists q, qdivide a b = Some q /\ canonical q /\ (q * b == a)%Q).
Proof. exact qdiv_spec. Qed.
Theorem C20_q_compare :
  forall a b, (qeq a b = true <-> (a == b)%Q) /\ (qle a b = true <-> (a <= b)%Q) /\ (qlt a b = true <-> (a < b)%Q).
Proof. exact qcmp_spec. Qed.
Theorem C20_q_round_to_lower_is_floor :
  forall a, (inject_Z (round_to_lower a) <= a)%Q /\ (a < inject_Z (round_to_lower a + 1))%Q.
Proof. exact round_to_lower_spec. Qed.
Theorem C20_q_round_to_upper_is_ceiling :
  forall a, (inject_Z (round_to_upper a - 1) < a)%Q /\ (a <= inject_Z (round_to_upper a))%Q.
Proof. exact round_to_upper_spec. Qed.
Theorem C20_q_floor_unique :
  forall a r, (inject_Z r <= a)%Q -> (a < inject_Z (r + 1))%Q -> r = round_to_lower a.
Proof. exact floor_unique. Qed.
Theorem C20_q_ceiling_unique :
  forall a r, (inject_Z (r - 1) < a)%Q -> (a <= inject_Z r)%Q -> r = round_to_upper a.
Proof. exact ceiling_unique. Qed.
Theorem C20_q_round_of_integer :
  forall n, round_to_lower (q_of_z n) = n /\ round_to_upper (q_of_z n) = n.
Proof. exact round_of_integer. Qed.
Theorem C20_q_shl :
  forall a k q, qshl a k = Some q -> exists s, 0 <= s /\ (k == inject_Z s)%Q /\ canonical q /\ (q == a * inject_Z (2 ^ s))%Q.
Proof. exact qshl_spec. Qed.
Theorem C20_q_of_double_exact :
  forall m e, canonical (q_of_m2e m e) /\ (0 <= e -> (q_of_m2e m e == inject_Z (m * 2 ^ e))%Q) /\ (e < 0 -> (q_of_m2e m e * inject_Z (2 ^ (- e)) == inject_Z m)%Q).
Proof. exact q_of_m2e_spec. Qed.
Theorem C20_safe_checked_add :
  forall a b r, in_i64 a -> in_i64 b -> (checked_add a b = (r, false) <-> (in_i64 (a + b) /\ r = a + b)).
Proof. exact checked_add_spec. Qed.
Theorem C20_safe_checked_sub :
  forall a b r, in_i64 a -> in_i64 b -> (checked_sub a b = (r, false) <-> (in_i64 (a - b) /\ r = a - b)).
Proof. exact checked_sub_spec. Qed.
Theorem C20_safe_checked_mul :
  forall a b r, in_i64 a -> in_i64 b -> (checked_mul a b = (r, false) <-> (in_i64 (a * b) /\ r = a * b)).
Proof. exact checked_mul_spec. Qed.
Theorem C20_safe_checked_div :
  forall a b r, in_i64 a -> in_i64 b -> b <> 0 -> (checked_div a b = Some (r, false) <-> (in_i64 (Z.quot a b) /\ r = Z.quot a b)).
Proof. exact checked_div_spec. Qed.
Theorem C20_safe_add_flag :
  forall a b, in_i64 a -> in_i64 b -> (snd (checked_add a b) = true <-> ~ in_i64 (a + b)).
Proof. exact checked_add_flag. Qed.
Theorem C20_safe_sub_flag :
  forall a b, in_i64 a -> in_i64 b -> (snd (checked_sub a b) = true <-> ~ in_i64 (a - b)).
Proof. exact checked_sub_flag. Qed.
Theorem C20_safe_mul_flag :
  forall a b, in_i64 a -> in_i64 b -> (snd (checked_mul a b) = true <-> ~ in_i64 (a * b)).
Proof. exact checked_mul_flag. Qed.
Theorem C20_safe_div_flag :
  forall a b, in_i64 a -> in_i64 b -> b <> 0 -> exists rf, checked_div a b = Some rf /\ (snd rf = true <-> ~ in_i64 (Z.quot a b)).
Proof. exact checked_div_flag. Qed.
Theorem C20_safe_div_overflow_only_min_by_minus_one :
  forall a b, in_i64 a -> in_i64 b -> b <> 0 -> (~ in_i64 (Z.quot a b) <-> (a = - 2 ^ 63 /\ b = -1)).
Proof. exact div_overflow_iff. Qed.
Theorem C20_safe_add_never_wraps :
  forall a b, in_i64 a -> in_i64 b -> (forall r, safe_add a b = Some r <-> (in_i64 (a + b) /\ r = a + b)) /\ (safe_add a b = None <-> ~ in_i64 (a + b)).
Proof. exact safe_add_spec. Qed.
Theorem C20_safe_sub_never_wraps :
  forall a b, in_i64 a -> in_i64 b -> (forall r, safe_sub a b = Some r <-> (in_i64 (a - b) /\ r = a - b)) /\ (safe_sub a b = None <-> ~ in_i64 (a - b)).
Proof. exact safe_sub_spec. Qed.
Theorem C20_safe_mul_never_wraps :
  forall a b, in_i64 a -> in_i64 b -> (forall r, safe_mul a b = Some r <-> (in_i64 (a * b) /\ r = a * b)) /\ (safe_mul a b = None <-> ~ in_i64 (a * b)).
Proof. exact safe_mul_spec. Qed.
Theorem C20_safe_div_never_wraps :
  forall a b, in_i64 a -> in_i64 b -> b <> 0 -> (forall r, safe_div a b = Some r <-> (in_i64 (Z.quot a b) /\ r = Z.quot a b)) /\ (safe_div a b = None <-> ~ in_i64 (Z.quot a b)).
Proof. exact safe_div_spec. Qed.
Theorem C20_safe_neg_never_wraps :
  forall a, in_i64 a -> (forall r, safe_neg a = Some r <-> (in_i64 (- a) /\ r = - a)) /\ (safe_neg a = None <-> a = - 2 ^ 63).
Proof. exact safe_neg_spec. Qed.
Theorem C20_safe_of_z :
  forall n, (forall r, safe_of_z n = Some r <-> (in_i64 n /\ r = n)) /\ (safe_of_z n = None <-> ~ in_i64 n).
Proof. exact safe_of_z_spec. Qed.
Theorem C20_le_eval_add :
  forall s e1 e2, eval s (le_add e1 e2) = eval s e1 + eval s e2.
Proof. exact eval_le_add. Qed.
Theorem C20_le_eval_sub :
  forall s e1 e2, eval s (le_sub e1 e2) = eval s e1 - eval s e2.
Proof. exact eval_le_sub. Qed.
Theorem C20_le_eval_scale :
  forall s n e, eval s (le_scale n e) = n * eval s e.
Proof. exact eval_le_scale. Qed.
Theorem C20_le_eval_neg :
  forall s e, eval s (le_neg e) = - eval s e.
Proof. exact eval_le_neg. Qed.
Theorem C20_le_eval_term :
  forall s n x, eval s (le_term n x) = n * s x.
Proof. exact eval_le_term. Qed.
Theorem C20_le_eval_addk :
  forall s e n, eval s (le_addk e n) = eval s e + n.
Proof. exact eval_le_addk. Qed.
Theorem C20_le_eval_subk :
  forall s e n, eval s (le_subk e n) = eval s e - n.
Proof. exact eval_le_subk. Qed.
Theorem C20_le_eval_addv :
  forall s e x, eval s (le_addv e x) = eval s e + s x.
Proof. exact eval_le_addv. Qed.
Theorem C20_le_eval_subv :
  forall s e x, eval s (le_subv e x) = eval s e - s x.
Proof. exact eval_le_subv. Qed.
Theorem C20_le_eval_rename :
  forall s m e, wf e -> eval s (le_rename m e) = eval (fun v => s (rename_var m v)) e.
Proof. exact eval_le_rename. Qed.
Theorem C20_le_wf_term :
  forall n x, wf (le_term n x).
Proof. exact wf_le_term. Qed.
Theorem C20_le_wf_var :
  forall x, wf (le_var x).
Proof. exact wf_le_var. Qed.
Theorem C20_le_wf_const :
  forall n, wf (le_const n).
Proof. exact wf_le_const. Qed.
Theorem C20_le_wf_add :
  forall e1 e2, wf e1 -> wf (le_add e1 e2).
Proof. exact wf_le_add. Qed.
Theorem C20_le_wf_sub :
  forall e1 e2, wf e1 -> wf (le_sub e1 e2).
Proof. exact wf_le_sub. Qed.
Theorem C20_le_wf_scale :
  forall n e, wf e -> wf (le_scale n e).
Proof. exact wf_le_scale. Qed.
Theorem C20_le_wf_addv :
  forall e x, wf e -> wf (le_addv e x).
Proof. exact wf_le_addv. Qed.
Theorem C20_le_wf_subv :
  forall e x, wf e -> wf (le_subv e x).
Proof. exact wf_le_subv. Qed.
Theorem C20_le_wf_rename :
  forall m e, wf (le_rename m e).
Proof. exact wf_le_rename. Qed.
Theorem C20_le_coef_add :
  forall e1 e2 x, wf e1 -> wf e2 -> le_coef (le_add e1 e2) x = le_coef e1 x + le_coef e2 x.
Proof. exact coef_le_add. Qed.
Theorem C20_le_coef_sub :
  forall e1 e2 x, wf e1 -> wf e2 -> le_coef (le_sub e1 e2) x = le_coef e1 x - le_coef e2 x.
Proof. exact coef_le_sub. Qed.
Theorem C20_le_coef_scale :
  forall n e x, wf e -> le_coef (le_scale n e) x = n * le_coef e x.
Proof. exact coef_le_scale. Qed.
Theorem C20_le_equal_is_syntactic :
  forall e1 e2, le_equal e1 e2 = true <-> e1 = e2.
Proof. exact le_equal_iff. Qed.
Theorem C20_le_canonical_form_unique :
  forall e1 e2, wf e1 -> wf e2 -> (forall s, eval s e1 = eval s e2) -> e1 = e2.
Proof. exact canonical_form_unique. Qed.
Theorem C20_le_is_constant :
  forall e, le_is_constant e = true -> forall s, eval s e = le_constant e.
Proof. exact le_is_constant_spec. Qed.
Theorem C20_le_constant_iff :
  forall e, wf e -> (le_is_constant e = true <-> forall s1 s2, eval s1 e = eval s2 e).
Proof. exact wf_constant_iff. Qed.
Theorem C20_le_get_variable :
  forall e x, le_get_variable e = Some x -> forall s, eval s e = s x.
Proof. exact le_get_variable_spec. Qed.
Theorem C20_lc_negate_exact_complement :
  forall c s, sat s (negate c) <-> ~ sat s c.
Proof. exact negate_exact. Qed.
Theorem C20_lc_negate_wf :
  forall c, wf_cst c -> wf_cst (negate c).
Proof. exact negate_wf. Qed.
Theorem C20_lc_tautology_sound :
  forall c, is_tautology c = true -> forall s, sat s c.
Proof. exact is_tautology_sound. Qed.
Theorem C20_lc_contradiction_sound :
  forall c, is_contradiction c = true -> forall s, ~ sat s c.
Proof. exact is_contradiction_sound. Qed.
Theorem C20_lc_tautology_exact_on_constants :
  forall c, le_is_constant (cexpr c) = true -> (is_tautology c = true <-> forall s, sat s c).
Proof. exact is_tautology_exact. Qed.
Theorem C20_lc_contradiction_exact_on_constants :
  forall c, le_is_constant (cexpr c) = true -> (is_contradiction c = true <-> forall s, ~ sat s c).
Proof. exact is_contradiction_exact. Qed.
Theorem C20_lc_tautology_exact_on_semantic_constants :
  forall c, wf_cst c -> (forall s1 s2, eval s1 (cexpr c) = eval s2 (cexpr c)) -> (is_tautology c = true <-> forall s, sat s c).
Proof. exact is_tautology_exact_semantic. Qed.
Theorem C20_lc_contradiction_exact_on_semantic_constants :
  forall c, wf_cst c -> (forall s1 s2, eval s1 (cexpr c) = eval s2 (cexpr c)) -> (is_contradiction c = true <-> forall s, ~ sat s c).
Proof. exact is_contradiction_exact_semantic. Qed.
Theorem C20_lc_strict_to_non_strict :
  forall c c' s, strict_to_non_strict c = Some c' -> (sat s c' <-> sat s c).
Proof. exact strict_to_non_strict_exact. Qed.
Theorem C20_lc_comparison_operators :
  forall e1 e2 s, (sat s (mk_le e1 e2) <-> eval s e1 <= eval s e2) /\ (sat s (mk_ge e1 e2) <-> eval s e1 >= eval s e2) /\ (sat s (mk_lt e1 e2) <-> eval s e1 < eval s e2) /\ (sat s (mk_gt e1 e2) <-> eval s e1 > eval s e2) /\ (sat s (mk_eq e1 e2) <-> eval s e1 = eval s e2) /\ (sat s (mk_ne e1 e2) <-> eval s e1 <> eval s e2).
Proof. exact mk_ops_spec. Qed.
Theorem C20_lc_rename :
  forall m c s, wf_cst c -> (sat s (lc_rename m c) <-> sat (fun v => s (rename_var m v)) c).
Proof. exact lc_rename_sat. Qed.
Theorem C20_lc_equal_is_syntactic :
  forall c1 c2, lc_equal c1 c2 = true <-> c1 = c2.
Proof. exact lc_equal_iff. Qed.
Theorem C20_ls_add :
  forall s c v, sat_all v (sys_add s c) <-> (sat_all v s /\ sat v c).
Proof. exact sys_add_sat. Qed.
Theorem C20_ls_add_system :
  forall s s2 v, sat_all v (sys_add_sys s s2) <-> (sat_all v s /\ sat_all v s2).
Proof. exact sys_add_sys_sat. Qed.
Theorem C20_ls_plus :
  forall a b v, sat_all v (sys_plus a b) <-> (sat_all v a /\ sat_all v b).
Proof. exact sys_plus_sat. Qed.
Theorem C20_ls_no_duplicates :
  forall cs, NoDup (sys_of_list cs).
Proof. exact sys_of_list_nodup. Qed.
Theorem C20_ls_normalize_preserves_solutions :
  forall cs v, sat_all v (normalize cs) <-> sat_all v cs.
Proof. exact normalize_sat. Qed.
Theorem C20_ls_is_false_sound :
  forall s, sys_is_false s = true -> forall v, ~ sat_all v s.
Proof. exact sys_is_false_sound. Qed.
Theorem C20_ls_is_true_sound :
  forall s, sys_is_true s = true -> forall v, sat_all v s.
Proof. exact sys_is_true_sound. Qed.

Print Assumptions C20_z_div_rem_characterised.
Print Assumptions C20_z_div_by_zero_is_an_error.
Print Assumptions C20_z_shr_is_floor.
Print Assumptions C20_z_shr_div.
Print Assumptions C20_z_shl_mul.
Print Assumptions C20_z_shift_defined.
Print Assumptions C20_z_and_bits.
Print Assumptions C20_z_or_bits.
Print Assumptions C20_z_xor_bits.
Print Assumptions C20_z_bits_are_twos_complement.
Print Assumptions C20_z_fill_ones_closed_form.
Print Assumptions C20_z_fill_ones_least.
Print Assumptions C20_z_to_int64_exact.
Print Assumptions C20_z_to_int64_overflow_is_an_error.
Print Assumptions C20_z_int64_round_trip.
Print Assumptions C20_z_uint64_import_exact.
Print Assumptions C20_z_string_round_trip.
Print Assumptions C20_z_digits_value.
Print Assumptions C20_z_digits_range.
Print Assumptions C20_z_raw_words_round_trip.
Print Assumptions C20_q_make_canonical.
Print Assumptions C20_q_canonical_unique.
Print Assumptions C20_q_add.
Print Assumptions C20_q_sub.
Print Assumptions C20_q_mul.
Print Assumptions C20_q_neg.
Print Assumptions C20_q_div.
Print Assumptions C20_q_compare.
Print Assumptions C20_q_round_to_lower_is_floor.
Print Assumptions C20_q_round_to_upper_is_ceiling.
Print Assumptions C20_q_floor_unique.
Print Assumptions C20_q_ceiling_unique.
Print Assumptions C20_q_round_of_integer.
Print Assumptions C20_q_shl.
Print Assumptions C20_q_of_double_exact.
Print Assumptions C20_safe_checked_add.
Print Assumptions C20_safe_checked_sub.
Print Assumptions C20_safe_checked_mul.
Print Assumptions C20_safe_checked_div.
Print Assumptions C20_safe_add_flag.
Print Assumptions C20_safe_sub_flag.
Print Assumptions C20_safe_mul_flag.
Print Assumptions C20_safe_div_flag.
Print Assumptions C20_safe_div_overflow_only_min_by_minus_one.
Print Assumptions C20_safe_add_never_wraps.
Print Assumptions C20_safe_sub_never_wraps.
Print Assumptions C20_safe_mul_never_wraps.
Print Assumptions C20_safe_div_never_wraps.
Print Assumptions C20_safe_neg_never_wraps.
Print Assumptions C20_safe_of_z.
Print Assumptions C20_le_eval_add.
Print Assumptions C20_le_eval_sub.
Print Assumptions C20_le_eval_scale.
Print Assumptions C20_le_eval_neg.
Print Assumptions C20_le_eval_term.
Print Assumptions C20_le_eval_addk.
Print Assumptions C20_le_eval_subk.
Print Assumptions C20_le_eval_addv.
Print Assumptions C20_le_eval_subv.
Print Assumptions C20_le_eval_rename.
Print Assumptions C20_le_wf_term.
Print Assumptions C20_le_wf_var.
Print Assumptions C20_le_wf_const.
Print Assumptions C20_le_wf_add.
Print Assumptions C20_le_wf_sub.
Print Assumptions C20_le_wf_scale.
Print Assumptions C20_le_wf_addv.
Print Assumptions C20_le_wf_subv.
Print Assumptions C20_le_wf_rename.
Print Assumptions C20_le_coef_add.
Print Assumptions C20_le_coef_sub.
Print Assumptions C20_le_coef_scale.
Print Assumptions C20_le_equal_is_syntactic.
Print Assumptions C20_le_canonical_form_unique.
Print Assumptions C20_le_is_constant.
Print Assumptions C20_le_constant_iff.
Print Assumptions C20_le_get_variable.
Print Assumptions C20_lc_negate_exact_complement.
Print Assumptions C20_lc_negate_wf.
Print Assumptions C20_lc_tautology_sound.
Print Assumptions C20_lc_contradiction_sound.
Print Assumptions C20_lc_tautology_exact_on_constants.
Print Assumptions C20_lc_contradiction_exact_on_constants.
Print Assumptions C20_lc_tautology_exact_on_semantic_constants.
Print Assumptions C20_lc_contradiction_exact_on_semantic_constants.
Print Assumptions C20_lc_strict_to_non_strict.
Print Assumptions C20_lc_comparison_operators.
Print Assumptions C20_lc_rename.
Print Assumptions C20_lc_equal_is_syntactic.
Print Assumptions C20_ls_add.
Print Assumptions C20_ls_add_system.
Print Assumptions C20_ls_plus.
Print Assumptions C20_ls_no_duplicates.
Print Assumptions C20_ls_normalize_preserves_solutions.
Print Assumptions C20_ls_is_false_sound.
Print Assumptions C20_ls_is_true_sound.
