(* Property C01 — forward analysis invariants over-approximate every concrete execution.
   Models: engine Fix/Engine.v (mirror of interleaved_fwd_fixpoint_iterator), interval
   transformer Ana/Transformer.v (mirror of intra_abs_transformer), analyzer Ana/FwdItv.v.
   Statements only.

   Proved: (1) the transformer of every modelled statement / block is sound; (2) the
   verified table checker: ANY pair of tables accepted by fwd_check — for any CFG, entry
   block, assumption map, fixpoint parameters, whatever produced them — contains every
   state with which an execution from the initial states enters / leaves each block, and a
   bottom invariant means the block is never entered.  The check runs fwd_check on the
   engine model's result (which equals the implementation's result on every generated
   program) and on the implementation's own exported invariants.
   C01_engine_statement (the engine model's result is always accepted) is corresponded,
   not proved. *)
From Coq Require Import ZArith List Bool Arith.
From CrabV Require Import Base.ZInf Scalar.Itv Ir.Syntax Ir.Cfg Dom.ItvEnv Dom.ItvEnvSound Dom.ItvDomain
     Fix.Wto Fix.Engine Fix.EngineCheck Ana.Transformer Ana.FwdItv Ana.FwdItvSound.
Import ListNotations.

Theorem C01_statement_transformer_sound : forall s e a b,
  stmt_wf s -> genv e a -> sstep s a b -> genv (tr_stmt s e) b.
Proof. exact tr_stmt_sound. Qed.

Theorem C01_block_transformer_sound : forall bl e a b,
  block_wf bl -> genv e a -> bstep bl a b -> genv (tr_block bl e) b.
Proof. exact tr_block_sound. Qed.

Theorem C01_checked_tables_sound :
  forall p entry use_asm asm (Init : store -> Prop) init,
  (forall s, Init s -> genv init s) ->
  forall pre post,
  fwd_check p entry use_asm asm init pre post = true ->
  (forall n s, ReachPre p entry use_asm asm Init n s -> genv (pre n) s) /\
  (forall n s, ReachPost p entry use_asm asm Init n s -> genv (post n) s).
Proof. intros. eapply fwd_check_sound; eauto. Qed.

Theorem C01_bottom_block_never_entered :
  forall p entry use_asm asm (Init : store -> Prop) init,
  (forall s, Init s -> genv init s) ->
  forall pre post,
  fwd_check p entry use_asm asm init pre post = true ->
  forall n, e_is_bot (pre n) = true -> forall s, ~ ReachPre p entry use_asm asm Init n s.
Proof. intros. eapply bottom_block_never_entered; eauto. Qed.

Definition C01_engine_statement : Prop :=
  forall p w entry delay desc use_asm asm fuel init e,
    fwd_run p w entry delay desc use_asm asm fuel init = Some e ->
    fwd_check p entry use_asm asm init (e_pre env e) (e_post env e) = true.

(* non-vacuity: x := 0; while (x <= 9) x := x + 1 — the model's tables are accepted and
   bound x at the loop exit *)
Example C01_example_loop :
  let x := 0%N in
  let p := mkProg [[SAssign x (mkLE [] 0)];
                   [];
                   [SAssume (mkLC INEQ (mkLE [(1%Z, x)] (-9))); SArith OpAdd x x (OCst 1)];
                   [SAssume (mkLC INEQ (mkLE [((-1)%Z, x)] 10))]]
                  [(0,1); (1,2); (2,1); (1,3)] in
  exists w e, build (p_graph p) 0 = Some w /\
    fwd_run p w 0 2 1 false (fun _ => None) 100 e_top = Some e /\
    fwd_check p 0 false (fun _ => None) e_top (e_pre env e) (e_post env e) = true /\
    e_at (e_post env e 3) x = mkI (Fin 10) (Fin 10).
Proof.
  cbv zeta. eexists. eexists. split; [vm_compute; reflexivity|].
  split; [vm_compute; reflexivity|]. split; vm_compute; reflexivity.
Qed.

Print Assumptions C01_statement_transformer_sound.
Print Assumptions C01_block_transformer_sound.
Print Assumptions C01_checked_tables_sound.
Print Assumptions C01_bottom_block_never_entered.
