(* Property C01 — forward analysis invariants over-approximate every concrete execution.
   Models: engine Fix/Engine.v (mirror of interleaved_fwd_fixpoint_iterator), interval
   transformer Ana/Transformer.v (mirror of intra_abs_transformer), analyzer Ana/FwdItv.v.
   Statements only.

   Proved: (1) the transformer of every modelled statement / block is sound; (2) the
   verified table checker: ANY pair of tables accepted by fwd_check — for any CFG, entry
   block, assumption map, fixpoint parameters, whatever produced them — contains every
   state with which an execution from the initial states enters / leaves each block, and a
   bottom invariant means the block is never entered.  The check runs fwd_check on the
   engine model's result (which equals the implementation's result on every generated
   program) and on the implementation's own exported invariants.
   (3) the engine model itself is sound (C01_engine_sound...): no checker is needed for the
   modelled configuration; the checker remains the tie for configurations outside the mirror
   (thresholds, liveness pruning) and for the implementation's own output. *)
From Coq Require Import ZArith List Bool Arith.
From CrabV Require Import Base.ZInf Scalar.Itv Ir.Syntax Ir.Cfg Dom.ItvEnv Dom.ItvEnvSound Dom.ItvDomain
     Fix.Wto Fix.Engine Fix.EngineCheck Ana.Transformer Ana.FwdItv Ana.FwdItvSound
     Fix.WtoCheck Fix.WtoSound Fix.WtoRoot Fix.EngineBelow Fix.EngineRel Fix.EngineSound Ana.FwdItvEngineSound
     Fix.Thresholds Fix.WtoThresholds Ana.FwdItvLive Ana.FwdItvFullSound.
Import ListNotations.

Theorem C01_statement_transformer_sound : forall s e a b,
  stmt_wf s -> genv e a -> sstep s a b -> genv (tr_stmt s e) b.
Proof. exact tr_stmt_sound. Qed.

Theorem C01_block_transformer_sound : forall bl e a b,
  block_wf bl -> genv e a -> bstep bl a b -> genv (tr_block bl e) b.
Proof. exact tr_block_sound. Qed.

Theorem C01_checked_tables_sound :
  forall p entry use_asm asm (Init : store -> Prop) init,
  (forall s, Init s -> genv init s) ->
  forall pre post,
  fwd_check p entry use_asm asm init pre post = true ->
  (forall n s, ReachPre p entry use_asm asm Init n s -> genv (pre n) s) /\
  (forall n s, ReachPost p entry use_asm asm Init n s -> genv (post n) s).
Proof. intros. eapply fwd_check_sound; eauto. Qed.

Theorem C01_bottom_block_never_entered :
  forall p entry use_asm asm (Init : store -> Prop) init,
  (forall s, Init s -> genv init s) ->
  forall pre post,
  fwd_check p entry use_asm asm init pre post = true ->
  forall n, e_is_bot (pre n) = true -> forall s, ~ ReachPre p entry use_asm asm Init n s.
Proof. intros. eapply bottom_block_never_entered; eauto. Qed.

(* ---- the engine itself (Fix/EngineSound.v): for every CFG, every well-formed weak topological
   ordering (in particular the one wto.hpp builds, C07), every start block of the ordering, every
   widening delay, number of descending iterations, assumption map and fuel, the tables of a
   terminated run contain the collecting semantics.  No hypothesis on widening, on monotonicity of
   the transformers or on the checker.  Termination: Properties_C05. ---- *)
(* the engine, any abstract domain, any start block of the ordering *)
Theorem C01_engine_sound_any_domain :
  forall (A State : Type) (gamma : A -> State -> Prop) (OP : aops A),
  (forall a b s, gamma a s -> gamma (o_join A OP a b) s) ->
  (forall a b s, gamma b s -> gamma (o_join A OP a b) s) ->
  (forall a b s, gamma a s -> gamma b s -> gamma (o_meet A OP a b) s) ->
  (forall a b s, gamma a s -> gamma b s -> gamma (o_narrow A OP a b) s) ->
  (forall a b s, o_leq A OP a b = true -> gamma a s -> gamma b s) ->
  forall (analyze : nat -> A -> A) (bstep : nat -> State -> State -> Prop),
  (forall n a s s', gamma a s -> bstep n s s' -> gamma (analyze n a) s') ->
  forall (preds nest : nat -> list nat) (entry delay descending : nat) (use_asm : bool)
         (asm : nat -> option A) (Init : State -> Prop) (init : A),
  (forall s, Init s -> gamma init s) ->
  forall (fuel : nat) (w : list comp),
  NoDup (flat w) ->
  (forall n p, In p (preds n) -> In p (flat w) -> In n (flat w) /\ lok w p n) ->
  In entry (flat w) ->
  forall e, run A OP analyze preds nest entry delay descending use_asm asm init fuel w = Some e ->
  (forall n s, RPre A State gamma bstep preds entry use_asm asm Init n s -> gamma (e_pre A e n) s) /\
  (forall n s, RPost A State gamma bstep preds entry use_asm asm Init n s -> gamma (e_post A e n) s).
Proof. exact engine_sound. Qed.
Print Assumptions C01_engine_sound_any_domain.

(* the interval analyzer on the ordering built from the start block: crab's run(init) *)
Theorem C01_engine_sound :
  forall p, prog_wfb p = true ->
  forall use_asm asm (Init : store -> Prop) init, (forall s, Init s -> genv init s) ->
  forall delay desc fuel entry w e,
  build (p_graph p) entry = Some w ->
  fwd_run p w entry delay desc use_asm asm fuel init = Some e ->
  (forall n s, ReachPre p entry use_asm asm Init n s -> genv (e_pre env e n) s) /\
  (forall n s, ReachPost p entry use_asm asm Init n s -> genv (e_post env e n) s).
Proof. exact fwd_run_sound. Qed.
Print Assumptions C01_engine_sound.

(* ... started at any block of the ordering built from e0: crab's run(entry, init, assumptions) *)
Theorem C01_engine_sound_any_entry :
  forall p, prog_wfb p = true ->
  forall use_asm asm (Init : store -> Prop) init, (forall s, Init s -> genv init s) ->
  forall delay desc fuel e0 entry w e,
  build (p_graph p) e0 = Some w -> In entry (flat w) ->
  fwd_run p w entry delay desc use_asm asm fuel init = Some e ->
  (forall n s, ReachPre p entry use_asm asm Init n s -> genv (e_pre env e n) s) /\
  (forall n s, ReachPost p entry use_asm asm Init n s -> genv (e_post env e n) s).
Proof. exact fwd_run_sound_any_entry. Qed.
Print Assumptions C01_engine_sound_any_entry.

Theorem C01_engine_sound_any_wellformed_wto :
  forall p, prog_wfb p = true ->
  forall use_asm asm (Init : store -> Prop) init, (forall s, Init s -> genv init s) ->
  forall delay desc fuel e0 nst dom w entry e,
  WF (p_graph p) e0 w nst dom ->
  In entry (flat w) ->
  fwd_run p w entry delay desc use_asm asm fuel init = Some e ->
  (forall n s, ReachPre p entry use_asm asm Init n s -> genv (e_pre env e n) s) /\
  (forall n s, ReachPost p entry use_asm asm Init n s -> genv (e_post env e n) s).
Proof. exact fwd_run_sound_WF. Qed.
Print Assumptions C01_engine_sound_any_wellformed_wto.

Theorem C01_engine_bottom_block_never_entered :
  forall p, prog_wfb p = true ->
  forall use_asm asm (Init : store -> Prop) init, (forall s, Init s -> genv init s) ->
  forall delay desc fuel e0 entry w e,
  build (p_graph p) e0 = Some w -> In entry (flat w) ->
  fwd_run p w entry delay desc use_asm asm fuel init = Some e ->
  forall n, e_is_bot (e_pre env e n) = true -> forall s, ~ ReachPre p entry use_asm asm Init n s.
Proof. exact fwd_run_bottom_unreachable. Qed.
Print Assumptions C01_engine_bottom_block_never_entered.

Example C01_engine_sound_example :
  let x := 0%N in
  let p := mkProg [[SAssign x (mkLE [] 0)];
                   [];
                   [SAssume (mkLC INEQ (mkLE [(1%Z, x)] (-9))); SArith OpAdd x x (OCst 1)];
                   [SAssume (mkLC INEQ (mkLE [((-1)%Z, x)] 10))]]
                  [(0,1); (1,2); (2,1); (1,3)] in
  prog_wfb p = true /\
  exists w e, build (p_graph p) 0 = Some w /\
    fwd_run p w 0 2 1 false (fun _ => None) 100 e_top = Some e /\
    e_at (e_post env e 3) x = mkI (Fin 10) (Fin 10) /\
    forall s, ReachPost p 0 false (fun _ => None) (fun _ => True) 3 s -> genv (e_post env e 3) s.
Proof. exact fwd_run_sound_example. Qed.
Print Assumptions C01_engine_sound_example.

(* the analysis starts strictly inside a loop (entry_ok = false): pre(b2) = [0,+oo],
   pre(b1) = [1,+oo], as the repaired C++ prints *)
Example C01_entry_in_loop_example :
  let x := 0%N in
  let p := mkProg [[SAssign x (mkLE [] 5)];
                   [];
                   [SArith OpAdd x x (OCst 1)];
                   []]
                  [(0,1); (1,2); (2,1); (1,3)] in
  let init := e_set e_top x (mkI (Fin 0) (Fin 0)) in
  let Init := fun s : store => s x = 0%Z in
  prog_wfb p = true /\ (forall s, Init s -> genv init s) /\
  exists w e, build (p_graph p) 0 = Some w /\ In 2 (flat w) /\ entry_ok 2 w = false /\
    fwd_run p w 2 1 1 false (fun _ => None) 100 init = Some e /\
    e_at (e_pre env e 2) x = mkI (Fin 0) PInf /\
    e_at (e_pre env e 1) x = mkI (Fin 1) PInf /\
    (forall n s, ReachPre p 2 false (fun _ => None) Init n s -> genv (e_pre env e n) s) /\
    (forall s, Init s -> genv (e_pre env e 2) s).
Proof. exact fwd_run_entry_in_loop_example. Qed.
Print Assumptions C01_entry_in_loop_example.

(* non-vacuity: x := 0; while (x <= 9) x := x + 1 — the model's tables are accepted and
   bound x at the loop exit *)
Example C01_example_loop :
  let x := 0%N in
  let p := mkProg [[SAssign x (mkLE [] 0)];
                   [];
                   [SAssume (mkLC INEQ (mkLE [(1%Z, x)] (-9))); SArith OpAdd x x (OCst 1)];
                   [SAssume (mkLC INEQ (mkLE [((-1)%Z, x)] 10))]]
                  [(0,1); (1,2); (2,1); (1,3)] in
  exists w e, build (p_graph p) 0 = Some w /\
    fwd_run p w 0 2 1 false (fun _ => None) 100 e_top = Some e /\
    fwd_check p 0 false (fun _ => None) e_top (e_pre env e) (e_post env e) = true /\
    e_at (e_post env e 3) x = mkI (Fin 10) (Fin 10).
Proof.
  cbv zeta. eexists. eexists. split; [vm_compute; reflexivity|].
  split; [vm_compute; reflexivity|]. split; vm_compute; reflexivity.
Qed.

Print Assumptions C01_statement_transformer_sound.
Print Assumptions C01_block_transformer_sound.
Print Assumptions C01_checked_tables_sound.
Print Assumptions C01_bottom_block_never_entered.

(* ---- all configurations of intra_fwd_analyzer (Ana/FwdItvLive.v, Ana/FwdItvFullSound.v):
   widening with the thresholds collected by the mirror of wto_thresholds (Fix/WtoThresholds.v)
   for ANY max_thresholds, and liveness pruning (dead variables of the C18 liveness model
   forgotten at the end of each block).  Add to the imports:
     Fix.Thresholds Fix.WtoThresholds Ana.FwdItvLive Ana.FwdItvFullSound.
   No hypothesis on the thresholds, on the dead sets, or on the liveness analysis. ---- *)
(* forgetting any set of variables after a block is sound *)
Theorem C01_pruned_block_transformer_sound : forall dead bl e a b,
  block_wf bl -> genv e a -> bstep bl a b -> genv (tr_block_pruned dead bl e) b.
Proof. exact tr_block_pruned_sound. Qed.
Print Assumptions C01_pruned_block_transformer_sound.

(* the analyzer as the C++ configures it: max_thresholds = maxthr (0: plain widening), liveness
   pruning iff live (liveness of the CFG with exit block ex), ordering built from e0, analysis
   started at any block of the ordering *)
Theorem C01_engine_sound_thresholds_liveness :
  forall p, prog_wfb p = true ->
  forall use_asm asm (Init : store -> Prop) init, (forall s, Init s -> genv init s) ->
  forall delay desc fuel maxthr live ex e0 entry w e,
  build (p_graph p) e0 = Some w -> In entry (flat w) ->
  fwd_run_full p w entry delay desc maxthr live ex use_asm asm fuel init = Some e ->
  (forall n s, ReachPre p entry use_asm asm Init n s -> genv (e_pre env e n) s) /\
  (forall n s, ReachPost p entry use_asm asm Init n s -> genv (e_post env e n) s).
Proof. exact fwd_run_full_sound. Qed.
Print Assumptions C01_engine_sound_thresholds_liveness.

(* any per-head threshold sets, any per-block dead sets, any ordering satisfying property C07 *)
Theorem C01_engine_sound_any_thresholds_any_dead_sets :
  forall p, prog_wfb p = true ->
  forall use_asm asm (Init : store -> Prop) init, (forall s, Init s -> genv init s) ->
  forall delay desc fuel use_thr t dead e0 nst dom w entry e,
  WF (p_graph p) e0 w nst dom ->
  In entry (flat w) ->
  fwd_run_gen use_thr t dead p w entry delay desc use_asm asm fuel init = Some e ->
  (forall n s, ReachPre p entry use_asm asm Init n s -> genv (e_pre env e n) s) /\
  (forall n s, ReachPost p entry use_asm asm Init n s -> genv (e_post env e n) s).
Proof. exact fwd_run_gen_sound_WF. Qed.
Print Assumptions C01_engine_sound_any_thresholds_any_dead_sets.

Theorem C01_engine_thresholds_liveness_bottom_block_never_entered :
  forall p, prog_wfb p = true ->
  forall use_asm asm (Init : store -> Prop) init, (forall s, Init s -> genv init s) ->
  forall delay desc fuel maxthr live ex e0 entry w e,
  build (p_graph p) e0 = Some w -> In entry (flat w) ->
  fwd_run_full p w entry delay desc maxthr live ex use_asm asm fuel init = Some e ->
  forall n, e_is_bot (e_pre env e n) = true -> forall s, ~ ReachPre p entry use_asm asm Init n s.
Proof. exact fwd_run_full_bottom_unreachable. Qed.
Print Assumptions C01_engine_thresholds_liveness_bottom_block_never_entered.

(* the table checker for the pruned transformer (used on the implementation's tables when live=1) *)
Theorem C01_checked_tables_sound_liveness :
  forall p use_asm asm (Init : store -> Prop) init, (forall s, Init s -> genv init s) ->
  forall live ex entry pre post,
  fwd_check_full live ex p entry use_asm asm init pre post = true ->
  (forall n s, ReachPre p entry use_asm asm Init n s -> genv (pre n) s) /\
  (forall n s, ReachPost p entry use_asm asm Init n s -> genv (post n) s).
Proof. exact fwd_check_full_sound. Qed.
Print Assumptions C01_checked_tables_sound_liveness.

(* x := 0; while (nondet) { if (x <= 9) x := x + 1 }: plain widening leaves [0,+oo] at the head
   (the descending iteration does not help), the threshold 10 collected from `assume x <= 9`
   gives [0,10]; both runs are sound *)
Example C01_thresholds_example :
  let p := ex_thr_prog in
  prog_wfb p = true /\
  exists w e0 e10, build (p_graph p) 0 = Some w /\
    prog_thr 10 p w 1 = [MInf; Fin 0; Fin 10; PInf] /\
    fwd_run_full p w 0 1 1 0 false None false (fun _ => None) 100 e_top = Some e0 /\
    fwd_run_full p w 0 1 1 10 false None false (fun _ => None) 100 e_top = Some e10 /\
    e_at (e_pre env e0 1) 0%N = mkI (Fin 0) PInf /\
    e_at (e_pre env e10 1) 0%N = mkI (Fin 0) (Fin 10) /\
    e_at (e_pre env e10 4) 0%N = mkI (Fin 0) (Fin 10) /\
    forall s, ReachPre p 0 false (fun _ => None) (fun _ => True) 4 s -> genv (e_pre env e10 4) s.
Proof. exact fwd_run_full_thresholds_example. Qed.
Print Assumptions C01_thresholds_example.

(* b0: x := 5; y := x + 1   b1: y := y + 1 (exit): x is dead at the end of b0 and is forgotten
   there when live = true; y is kept *)
Example C01_liveness_pruning_example :
  let p := ex_live_prog in
  prog_wfb p = true /\
  prog_dead true p (Some 1) 0 = [0%N] /\ prog_dead true p (Some 1) 1 = [] /\
  exists w e el, build (p_graph p) 0 = Some w /\
    fwd_run_full p w 0 2 1 0 false (Some 1) false (fun _ => None) 10 e_top = Some e /\
    fwd_run_full p w 0 2 1 0 true (Some 1) false (fun _ => None) 10 e_top = Some el /\
    e_at (e_post env e 0) 0%N = mkI (Fin 5) (Fin 5) /\
    e_at (e_post env el 0) 0%N = itop /\
    e_at (e_post env el 0) 1%N = mkI (Fin 6) (Fin 6) /\
    e_at (e_post env el 1) 1%N = mkI (Fin 7) (Fin 7) /\
    forall s, ReachPost p 0 false (fun _ => None) (fun _ => True) 1 s -> genv (e_post env el 1) s.
Proof. exact fwd_run_full_pruning_example. Qed.
Print Assumptions C01_liveness_pruning_example.
