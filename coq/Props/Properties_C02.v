(* Property C02 — a 'safe' or 'unreachable' assertion verdict is never wrong.
   Model: Ana/Checker.v (mirror of intra_checker::run + assert_property_checker::check for
   numerical assertions) on top of the forward analyzer model of C01.  Statements only.

   Proved: for invariant tables accepted by the verified checker of C01, and every
   execution from the initial states that reaches a block, each assertion of the block
   that the execution reaches satisfies: verdict safe -> the condition holds there;
   verdict unreachable -> contradiction (it is not reached).  Warnings may be spurious.
   The forward+backward and inter-procedural analyzers are covered by C11 / C09 / C10
   (verdicts there: correspondence and concrete oracle). *)
From Coq Require Import ZArith List Bool Arith.
From CrabV Require Import Base.ZInf Scalar.Itv Ir.Syntax Ir.Cfg Dom.ItvEnv Dom.ItvEnvSound Dom.ItvDomain
     Fix.Wto Fix.WtoCheck Fix.Engine Ana.Transformer Ana.FwdItv Ana.FwdItvSound Ana.Checker Ana.FwdItvEngineSound
     Ana.CheckerEngine.
Import ListNotations.

Theorem C02_block_verdicts_sound : forall bl inv a,
  block_wf bl -> genv inv a -> sound_verdicts bl inv a.
Proof. exact check_block_sound. Qed.

Theorem C02_forward_verdicts_sound :
  forall p entry use_asm asm (Init : store -> Prop) init,
  (forall s, Init s -> genv init s) ->
  forall pre post,
  fwd_check p entry use_asm asm init pre post = true ->
  forall n a, ReachPre p entry use_asm asm Init n a -> sound_verdicts (p_block p n) (pre n) a.
Proof.
  intros p entry use_asm asm Init init IS pre post H n a R.
  destruct (fwd_check_sound p entry use_asm asm Init init IS pre post H) as [S _].
  apply check_block_sound; [|apply S; exact R].
  unfold fwd_check in H. apply andb_true_iff in H. destruct H as [H _].
  apply andb_true_iff in H. destruct H as [H _]. apply andb_true_iff in H. destruct H as [WF _].
  apply (blocks_wf p WF).
Qed.

(* the same for the tables computed by the engine model itself (its soundness, C01, replaces the
   checker): every program, the ordering built by the wto.hpp model, every start block of it, every
   parameter setting and fuel *)
Theorem C02_engine_verdicts_sound :
  forall p, prog_wfb p = true ->
  forall use_asm asm (Init : store -> Prop) init, (forall s, Init s -> genv init s) ->
  forall delay desc fuel e0 entry w e,
  build (p_graph p) e0 = Some w -> In entry (flat w) ->
  fwd_run p w entry delay desc use_asm asm fuel init = Some e ->
  forall n a, ReachPre p entry use_asm asm Init n a -> sound_verdicts (p_block p n) (e_pre env e n) a.
Proof. exact engine_verdicts_sound. Qed.

(* non-vacuity: x := 0; loop x <= 9: x++; exit: assert(x = 10) is safe, assert(x <= 5) a warning *)
Example C02_example :
  let x := 0%N in
  check_block [SAssert (mkLC EQ (mkLE [(1%Z, x)] (-10))) 1; SAssert (mkLC INEQ (mkLE [(1%Z, x)] (-5))) 2]
              (e_set e_top x (mkI (Fin 10) (Fin 10))) = [(1, VSafe); (2, VWarn)].
Proof. vm_compute. reflexivity. Qed.

Print Assumptions C02_block_verdicts_sound.
Print Assumptions C02_forward_verdicts_sound.
Print Assumptions C02_engine_verdicts_sound.
