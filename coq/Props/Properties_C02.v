(* Property C02 — a 'safe' or 'unreachable' assertion verdict is never wrong.
   Model: Ana/Checker.v (mirror of intra_checker::run + assert_property_checker::check for
   numerical assertions) on top of the forward analyzer model of C01.  Statements only.

   Proved: for invariant tables accepted by the verified checker of C01, and every
   execution from the initial states that reaches a block, each assertion of the block
   that the execution reaches satisfies: verdict safe -> the condition holds there;
   verdict unreachable -> contradiction (it is not reached).  Warnings may be spurious.
   The forward+backward and inter-procedural analyzers are covered by C11 / C09 / C10
   (verdicts there: correspondence and concrete oracle). *)
From Coq Require Import ZArith List Bool Arith.
From CrabV Require Import Base.ZInf Scalar.Itv Ir.Syntax Ir.Cfg Dom.ItvEnv Dom.ItvEnvSound Dom.ItvDomain
     Fix.Wto Fix.WtoCheck Fix.Engine Ana.Transformer Ana.FwdItv Ana.FwdItvSound Ana.Checker Ana.FwdItvEngineSound
     Ana.CheckerEngine Ana.BackwardCheck Ana.FwdBwd Ana.FwdBwdSound.
Import ListNotations.

Theorem C02_block_verdicts_sound : forall bl inv a,
  block_wf bl -> genv inv a -> sound_verdicts bl inv a.
Proof. exact check_block_sound. Qed.

Theorem C02_forward_verdicts_sound :
  forall p entry use_asm asm (Init : store -> Prop) init,
  (forall s, Init s -> genv init s) ->
  forall pre post,
  fwd_check p entry use_asm asm init pre post = true ->
  forall n a, ReachPre p entry use_asm asm Init n a -> sound_verdicts (p_block p n) (pre n) a.
Proof.
  intros p entry use_asm asm Init init IS pre post H n a R.
  destruct (fwd_check_sound p entry use_asm asm Init init IS pre post H) as [S _].
  apply check_block_sound; [|apply S; exact R].
  unfold fwd_check in H. apply andb_true_iff in H. destruct H as [H _].
  apply andb_true_iff in H. destruct H as [H _]. apply andb_true_iff in H. destruct H as [WF _].
  apply (blocks_wf p WF).
Qed.

(* the same for the tables computed by the engine model itself (its soundness, C01, replaces the
   checker): every program, the ordering built by the wto.hpp model, every start block of it, every
   parameter setting and fuel *)
Theorem C02_engine_verdicts_sound :
  forall p, prog_wfb p = true ->
  forall use_asm asm (Init : store -> Prop) init, (forall s, Init s -> genv init s) ->
  forall delay desc fuel e0 entry w e,
  build (p_graph p) e0 = Some w -> In entry (flat w) ->
  fwd_run p w entry delay desc use_asm asm fuel init = Some e ->
  forall n a, ReachPre p entry use_asm asm Init n a -> sound_verdicts (p_block p n) (e_pre env e n) a.
Proof. exact engine_verdicts_sound. Qed.

(* ---- the combined forward+backward analyzer (mirror Ana/FwdBwd.v of intra_forward_backward_analyzer:
   refinement loop, narrowing of the refined assumptions, dominance-based discharge, the guards
   "CFG has an exit" and "every assertion can reach the exit", use_refined_invariants,
   max_refine_iterations; proofs Ana/FwdBwdSound.v, on top of the soundness of the forward engine
   (C01) and of the backward tables (C11)).  The flag (negb use_refined) says: 'safe' verdicts are
   sound for every setting, 'unreachable' verdicts when use_refined_invariants = false. ---- *)
Theorem C02_forward_backward_verdicts_sound :
  forall p, prog_wfb p = true -> forallb block_bwd_ok (p_blocks p) = true ->
  forall (Init : store -> Prop) init, (forall s, Init s -> genv init s) ->
  forall e0 entry exit_block delay desc fuel fresh use_refined maxref o,
  fb_run p e0 entry exit_block delay desc fuel fresh use_refined maxref init = Some o ->
  forall n a, ReachPre p entry false (fun _ => None) Init n a ->
  fb_sound_verdicts (negb use_refined) (mem_nat n (fb_proved o)) (p_block p n) (fb_inv o n) a.
Proof. exact fb_run_verdicts_sound. Qed.

(* with use_refined_invariants the 'unreachable' verdicts are wrong (known finding C02) *)
Theorem C02_forward_backward_unreachable_refined_refuted : ~ fb_unreachable_statement.
Proof. exact fb_unreachable_refined_refuted. Qed.

(* non-vacuity: b0: y := x; b1 (exit): assume(x <= 0); assert(y <= 0) - a warning for the forward
   analysis alone, proved by the backward refinement *)
Example C02_forward_backward_example :
  fb_analyze fb_example_prog 0 0 None 1 1 400 1002%N false 5 e_top = Some [(1, VWarn)] /\
  fb_analyze fb_example_prog 0 0 (Some 1) 1 1 400 1002%N false 5 e_top = Some [(1, VSafe)].
Proof. split; vm_compute; reflexivity. Qed.

(* non-vacuity: x := 0; loop x <= 9: x++; exit: assert(x = 10) is safe, assert(x <= 5) a warning *)
Example C02_example :
  let x := 0%N in
  check_block [SAssert (mkLC EQ (mkLE [(1%Z, x)] (-10))) 1; SAssert (mkLC INEQ (mkLE [(1%Z, x)] (-5))) 2]
              (e_set e_top x (mkI (Fin 10) (Fin 10))) = [(1, VSafe); (2, VWarn)].
Proof. vm_compute. reflexivity. Qed.

Print Assumptions C02_block_verdicts_sound.
Print Assumptions C02_forward_verdicts_sound.
Print Assumptions C02_engine_verdicts_sound.
Print Assumptions C02_forward_backward_verdicts_sound.
Print Assumptions C02_forward_backward_unreachable_refined_refuted.
