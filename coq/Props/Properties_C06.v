(* Property C06 — the fixpoint engine computes the least solution when nothing is
   extrapolated.  Specification: Fix/Kleene.v (validated round-robin least fixpoint over
   a finite state space); engine model: Fix/Engine.v instantiated in Fix/EngineFS.v;
   verified table checker: Fix/EngineCheck.v.  Statements only.

   What is proved: (1) the specification is exactly "the states that reach the block"
   (both inclusions, any CFG, any start block, any assumption map); (2) every inductive
   table — in particular the engine's, which the check validates on every case — contains
   the least solution; (3) no extrapolation happens while the iteration count is within
   widening_delay; (4) the engine model's result EQUALS the specification for every
   well-formed ordering and every start block of it (C06_engine_is_least_solution ...,
   from the engine's soundness Fix/EngineSound.v and the bound from below
   Fix/EngineBelow.v).  What is corresponded (not proved): the implementation's result
   equals the specification on every generated case.  C06_engine_statement below (no
   hypothesis on the ordering) is refuted: C06_engine_statement_needs_wto_hypotheses. *)
From Coq Require Import List Bool Arith NArith.
From CrabV Require Import Fix.Wto Fix.Engine Fix.EngineBelow Fix.Kleene Fix.KleeneSound Fix.EngineFS Fix.EngineCheck
     Fix.EngineFSSound Fix.WtoCheck Fix.WtoSound Fix.WtoRoot Fix.EngineRel Fix.EngineSound Fix.EngineFSExact.
Import ListNotations.

Theorem C06_least_solution_is_reachability : forall F rounds t, in_range F -> lfp F rounds = Some t ->
  (forall n s, n < f_blocks F -> (smem s (fst t n) = true <-> ReachPre F n s)) /\
  (forall n s, n < f_blocks F -> (smem s (snd t n) = true <-> ReachPost F n s)).
Proof. exact lfp_is_reach. Qed.

(* every Kleene iterate stays inside the reachable states: nothing is ever added that no
   execution produces *)
Theorem C06_iterates_below_reachability : forall F k, sound_tabs F (iterate F k ((fun _ => 0%N), (fun _ => 0%N))).
Proof. intros F k. apply iterate_sound. apply sound_zero. Qed.

(* while iteration <= widening_delay the engine joins (no widening) *)
Theorem C06_no_extrapolation_within_delay : forall (A : Type) (OP : aops A) delay h i before after,
  i <= delay -> extrapolate A OP delay h i before after = o_join A OP before after.
Proof.
  intros A OP delay h i b a H. unfold extrapolate.
  destruct (Nat.leb_spec i delay); [reflexivity|]. exfalso. apply (Nat.lt_irrefl i).
  eapply Nat.le_lt_trans; eauto.
Qed.

(* the verified checker, for any domain: inductive tables contain every reaching state *)
Theorem C06_inductive_tables_contain_reachability :
  forall (A State : Type) (gamma : A -> State -> Prop) (OP : aops A),
  (forall a b s, gamma a s -> gamma (o_join A OP a b) s) ->
  (forall a b s, gamma b s -> gamma (o_join A OP a b) s) ->
  (forall a b s, gamma a s -> gamma b s -> gamma (o_meet A OP a b) s) ->
  (forall a b s, o_leq A OP a b = true -> gamma a s -> gamma b s) ->
  forall (analyze : nat -> A -> A) (bstep : nat -> State -> State -> Prop),
  (forall n a s s', gamma a s -> bstep n s s' -> gamma (analyze n a) s') ->
  forall preds entry use_asm asm (Init : State -> Prop) init,
  (forall s, Init s -> gamma init s) ->
  forall nodes, (In entry nodes /\ forall n p, In p (preds n) -> In n nodes) ->
  forall pre post,
  inductive_ok A OP analyze preds entry use_asm asm init nodes pre post = true ->
  (forall n s, RPre A State gamma bstep preds entry use_asm asm Init n s -> In n nodes /\ gamma (pre n) s) /\
  (forall n s, RPost A State gamma bstep preds entry use_asm asm Init n s -> In n nodes /\ gamma (post n) s).
Proof. intros. eapply inductive_sound; eauto. Qed.

(* the engine model never invents a state: every table entry is included in the least
   solution — all CFGs, all WTOs, all start blocks,
   all delays / descending counts / fuel, any assumption map *)
Theorem C06_engine_below_least_solution :
  forall S F w delay desc fuel use_asm t, in_range F -> solves F t ->
  (use_asm = false -> forall n, f_asm F n = None) ->
  forall e, sub (f_init F) (Lpre F t (f_entry F)) ->
  fs_engine S F w delay desc use_asm fuel = Some e ->
  forall n, sub (e_pre N e n) (Lpre F t n) /\ sub (e_post N e n) (Lpost F t n).
Proof. exact fs_engine_below. Qed.

(* ... and it IS the least solution, i.e. exactly the reaching states, whenever the
   verified inductiveness test accepts its tables (tested on every generated case) *)
Theorem C06_engine_exact_when_accepted :
  forall S F w delay desc fuel rounds use_asm t, in_range F -> lfp F rounds = Some t ->
  (use_asm = false -> forall n, f_asm F n = None) ->
  forall e, sub (f_init F) (fst t (f_entry F)) ->
  fs_engine S F w delay desc use_asm fuel = Some e ->
  inductive_ok N (fs_ops S) (fun n a => image (f_rel F n) a) (f_preds F) (f_entry F) use_asm (f_asm F)
               (f_init F) (seq 0 (f_blocks F)) (e_pre N e) (e_post N e) = true ->
  forall n s, n < f_blocks F ->
    (smem s (e_pre N e n) = true <-> ReachPre F n s) /\
    (smem s (e_post N e n) = true <-> ReachPost F n s).
Proof. exact fs_engine_exact. Qed.

(* the claim without hypotheses on the ordering w: false (refuted below, w = []); with a
   well-formed ordering containing the start block it is C06_engine_is_least_solution *)
Definition C06_engine_statement : Prop :=
  forall S F w delay desc use_asm fuel rounds e t,
    in_range F ->
    fs_engine S F w delay desc use_asm fuel = Some e -> lfp F rounds = Some t ->
    forall n, n < f_blocks F -> e_pre N e n = fst t n /\ e_post N e n = snd t n.

(* non-vacuity: the loop  a <-> b (b: s -> s+1)  started at its head with {0} *)
Example C06_example_entry_is_loop_head :
  let F := mkF 3 (fun n => match n with 0 => [1] | 1 => [0] | 2 => [0] | _ => [] end)
               (fun n => match n with
                         | 0 | 2 => [(0,0);(1,1);(2,2);(3,3)]%N
                         | 1 => [(0,1);(1,2);(2,3)]%N | _ => [] end)
               0 1%N (fun _ => None) in
  exists t, lfp F 14 = Some t /\ fst t 0 = 15%N /\ fst t 2 = 15%N /\
  exists w e, build [[1;2];[0];[]] 0 = Some w /\
              fs_engine 4 F w 2 1 false 60 = Some e /\ e_pre N e 0 = 15%N /\ e_pre N e 2 = 15%N.
Proof.
  cbv zeta. eexists. split; [vm_compute; reflexivity|]. split; [reflexivity|]. split; [reflexivity|].
  eexists. eexists. split; [vm_compute; reflexivity|]. split; [vm_compute; reflexivity|]. split; reflexivity.
Qed.

(* ---- the engine itself, no checker involved: soundness (Fix/EngineSound.v) + the bound from below
   (Fix/EngineBelow.v) give exactness for every well-formed ordering, every start block of it,
   every widening delay and number of descending iterations ---- *)
Theorem C06_engine_is_least_solution :
  forall S F w delay desc fuel rounds use_asm t, in_range F -> lfp F rounds = Some t ->
  (use_asm = false -> forall n, f_asm F n = None) ->
  sub (f_init F) (fst t (f_entry F)) ->
  NoDup (flat w) ->
  (forall n p, In p (f_preds F n) -> In p (flat w) -> In n (flat w) /\ lok w p n) ->
  In (f_entry F) (flat w) ->
  forall e, fs_engine S F w delay desc use_asm fuel = Some e ->
  forall n, n < f_blocks F -> e_pre N e n = fst t n /\ e_post N e n = snd t n.
Proof. exact fs_engine_is_lfp. Qed.
Print Assumptions C06_engine_is_least_solution.

Theorem C06_engine_is_reachability :
  forall S F w delay desc fuel rounds use_asm t, in_range F -> lfp F rounds = Some t ->
  (use_asm = false -> forall n, f_asm F n = None) ->
  sub (f_init F) (fst t (f_entry F)) ->
  NoDup (flat w) ->
  (forall n p, In p (f_preds F n) -> In p (flat w) -> In n (flat w) /\ lok w p n) ->
  In (f_entry F) (flat w) ->
  forall e, fs_engine S F w delay desc use_asm fuel = Some e ->
  forall n s, n < f_blocks F ->
    (smem s (e_pre N e n) = true <-> KleeneSound.ReachPre F n s) /\
    (smem s (e_post N e n) = true <-> KleeneSound.ReachPost F n s).
Proof. exact fs_engine_is_reach. Qed.
Print Assumptions C06_engine_is_reachability.

Theorem C06_engine_on_built_wto_is_least_solution :
  forall S F g w delay desc fuel rounds use_asm t,
  in_range F -> lfp F rounds = Some t ->
  (use_asm = false -> forall n, f_asm F n = None) ->
  sub (f_init F) (fst t (f_entry F)) ->
  (forall n p, In p (f_preds F n) -> In n (succs g p)) ->
  forall e0, build g e0 = Some w -> In (f_entry F) (flat w) ->
  forall e, fs_engine S F w delay desc use_asm fuel = Some e ->
  forall n, n < f_blocks F ->
    e_pre N e n = fst t n /\ e_post N e n = snd t n /\
    (forall s, smem s (e_pre N e n) = true <-> KleeneSound.ReachPre F n s) /\
    (forall s, smem s (e_post N e n) = true <-> KleeneSound.ReachPost F n s).
Proof. exact fs_engine_build_is_lfp. Qed.
Print Assumptions C06_engine_on_built_wto_is_least_solution.

(* C06_engine_statement (w unconstrained) is false: the start block must occur in w *)
Theorem C06_engine_statement_needs_wto_hypotheses :
  ~ (forall S F w delay desc use_asm fuel rounds e t,
       in_range F ->
       fs_engine S F w delay desc use_asm fuel = Some e -> lfp F rounds = Some t ->
       forall n, n < f_blocks F -> e_pre N e n = fst t n /\ e_post N e n = snd t n).
Proof. exact engine_statement_needs_wto_hypotheses. Qed.
Print Assumptions C06_engine_statement_needs_wto_hypotheses.

Example C06_engine_exact_example :
  let F := mkF 3 (fun n => match n with 0 => [1] | 1 => [0] | 2 => [0] | _ => [] end)
               (fun n => match n with
                         | 0 | 2 => [(0,0);(1,1);(2,2);(3,3)]%N
                         | 1 => [(0,1);(1,2);(2,3)]%N | _ => [] end)
               0 1%N (fun _ => None) in
  let g := [[1;2];[0];[]] in
  let w := [Cycle 0 [Vertex 1]; Vertex 2] in
  in_range F /\ (forall n p, In p (f_preds F n) -> In n (succs g p)) /\
  build g (f_entry F) = Some w /\
  exists t e, lfp F 14 = Some t /\ sub (f_init F) (fst t (f_entry F)) /\
    fs_engine 4 F w 2 1 false 60 = Some e /\
    e_pre N e 2 = 15%N /\ forall s, smem s 15%N = true <-> KleeneSound.ReachPre F 2 s.
Proof. exact fs_engine_build_is_lfp_example. Qed.
Print Assumptions C06_engine_exact_example.

(* the start block strictly inside a cycle: exact (the unrepaired engine lost states 1,2,3) *)
Example C06_entry_inside_cycle_exact_example :
  let F := mkF 2 (fun n => match n with 0 => [1] | 1 => [0] | _ => [] end)
               (fun n => match n with
                         | 0 => [(0,0);(1,1);(2,2);(3,3)]%N
                         | 1 => [(0,1);(1,2);(2,3)]%N | _ => [] end)
               1 1%N (fun _ => None) in
  let w := [Cycle 0 [Vertex 1]] in
  build [[1];[0]] 0 = Some w /\ entry_ok (f_entry F) w = false /\
  exists e, fs_engine 4 F w 2 1 false 60 = Some e /\
            e_pre N e 1 = 15%N /\ e_post N e 1 = 14%N /\ e_pre N e 0 = 14%N /\ e_post N e 0 = 14%N /\
            (forall n s, n < 2 -> (smem s (e_pre N e n) = true <-> KleeneSound.ReachPre F n s) /\
                                  (smem s (e_post N e n) = true <-> KleeneSound.ReachPost F n s)).
Proof. exact entry_inside_cycle_exact_example. Qed.
Print Assumptions C06_entry_inside_cycle_exact_example.

Print Assumptions C06_least_solution_is_reachability.
Print Assumptions C06_iterates_below_reachability.
Print Assumptions C06_no_extrapolation_within_delay.
Print Assumptions C06_inductive_tables_contain_reachability.
Print Assumptions C06_engine_below_least_solution.
Print Assumptions C06_engine_exact_when_accepted.
