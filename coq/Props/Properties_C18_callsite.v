(* Property C18, second half, call sites of the assertion crawler.  Statements only.

   Model: Ana/CrawlerCall.v = transfer_function::callee_to_caller, ::apply_summary and the body of
   visit(callsite_t&) of assertion_crawler.hpp after commit e852a9c (association lists for the two
   discrete_pair_domain maps, first position wins as std::find).  Semantics: Ana/CrawlerCallSound.v
   (stores var -> Z; "f depends only on V"; a call writes the callee's j-th result into outs_j;
   the callee's entry store binds formal k to the value of actual k, any other variable is a local
   with a fixed initial value or is shared by name with the caller).

   Unbounded: all variable names (the caller's variables may be named like the callee's formals),
   actuals may be a permutation of the formals or repeat a variable, outputs may be inputs.
   Side conditions and why:
     length outs = length fouts   the C++ indexes fouts with a position of outs (CRAB_ERROR otherwise)
     NoDup outs (…_seq, …_list)   only to identify "first match" with the sequence of assignments
     NoDup fins, length ins = length fins (…_list only)   a callee given as a function of the LIST of
                                  its input values: formal k must be a variable of its own
   No condition on variables of the callee's summary that are not formal inputs: callee_to_caller
   passes them unchanged, which is exact for names shared with the caller and superfluous (sound)
   for locals. *)
From Coq Require Import ZArith List Bool.
From CrabV Require Import Ir.Syntax Ana.CfgSem Ana.CrawlerCall Ana.CrawlerCallSound.
Import ListNotations.

(* a condition over the callee's entry store, seen from the caller before the call *)
Theorem C18_callsite_callee_to_caller :
  forall (A : Type) (g : store -> A) W fins ins loc,
  depends_only g W ->
  depends_only (fun s => g (entry fins ins loc s)) (callee_to_caller W fins ins).
Proof. exact @callee_to_caller_sound. Qed.
Print Assumptions C18_callsite_callee_to_caller.

(* one set through the call (first-match semantics of the results) *)
Theorem C18_callsite_apply_summary_set :
  forall (A : Type) (f : store -> A) V sdd outs fouts fins ins loc callee,
  summary_ok sdd fouts callee ->
  length outs = length fouts ->
  depends_only f V ->
  depends_only (fun s => f (call_sem outs fins ins loc callee s))
               (apply_set sdd outs fouts fins ins V).
Proof. exact @apply_set_sound. Qed.
Print Assumptions C18_callsite_apply_summary_set.

(* the same for the sequence of assignments outs_0 := r_0; outs_1 := r_1; ... *)
Theorem C18_callsite_apply_summary_seq :
  forall (A : Type) (f : store -> A) V sdd outs fouts fins ins loc callee,
  summary_ok sdd fouts callee ->
  length outs = length fouts ->
  NoDup outs ->
  (forall e, length (callee e) = length fouts) ->
  depends_only f V ->
  depends_only (fun s => f (call_seq outs fins ins loc callee s))
               (apply_set sdd outs fouts fins ins V).
Proof. exact @apply_set_sound_seq. Qed.
Print Assumptions C18_callsite_apply_summary_seq.

(* callee : list Z -> list Z from the values of the formal inputs to the values of the formal outputs *)
Theorem C18_callsite_apply_summary_list :
  forall (A : Type) (f : store -> A) V sdd outs fouts fins ins c,
  summary_ok_list sdd fins fouts c ->
  length outs = length fouts -> length ins = length fins ->
  NoDup outs -> NoDup fins ->
  (forall a, length (c a) = length fouts) ->
  depends_only f V ->
  depends_only (fun s => f (call_list outs ins c s)) (apply_set sdd outs fouts fins ins V).
Proof. exact @apply_set_sound_list. Qed.
Print Assumptions C18_callsite_apply_summary_list.

(* every fact of a map (assertion map or summary dependencies) *)
Theorem C18_callsite_apply_summary_map :
  forall (A : Type) (dpd : vmap) (obs : N -> store -> A) sdd outs fouts fins ins loc callee,
  summary_ok sdd fouts callee ->
  length outs = length fouts ->
  facts_ok dpd obs ->
  facts_ok (apply_summary dpd sdd outs fouts fins ins)
           (fun k s => obs k (call_sem outs fins ins loc callee s)).
Proof. exact @apply_summary_sound. Qed.
Print Assumptions C18_callsite_apply_summary_map.

(* composition of summaries: the caller's summary dependencies stay a summary across the call *)
Theorem C18_callsite_summary_compose :
  forall sdm couts (rest : store -> list Z) sdd outs fouts fins ins loc callee,
  summary_ok sdd fouts callee ->
  length outs = length fouts ->
  (forall j, (j < length couts)%nat -> haskey (nth j couts 0%N) sdm = true) ->
  summary_ok sdm couts rest ->
  summary_ok (apply_summary sdm sdd outs fouts fins ins) couts
             (fun s => rest (call_sem outs fins ins loc callee s)).
Proof. exact caller_summary_compose. Qed.
Print Assumptions C18_callsite_summary_compose.

(* the whole step of visit(callsite_t&): caller's assertions, callee's assertions, no invented
   assertion, caller's summary *)
Theorem C18_callsite_step :
  forall (A : Type) amd sdm camd csdd (obs cobs : N -> store -> A)
         couts (rest : store -> list Z) outs fouts fins ins loc callee,
  summary_ok csdd fouts callee ->
  length outs = length fouts ->
  facts_ok amd obs ->
  facts_ok camd cobs ->
  (forall j, (j < length couts)%nat -> haskey (nth j couts 0%N) sdm = true) ->
  summary_ok sdm couts rest ->
  let r := callsite_step (amd, sdm) (camd, csdd) outs fouts fins ins in
  (forall k, haskey k amd = true ->
             depends_only (fun s => obs k (call_sem outs fins ins loc callee s)) (get k (fst r))) /\
  (forall k, haskey k camd = true ->
             depends_only (fun s => cobs k (entry fins ins loc s)) (get k (fst r))) /\
  (forall k, haskey k (fst r) = true -> haskey k amd = true \/ haskey k camd = true) /\
  summary_ok (snd r) couts (fun s => rest (call_sem outs fins ins loc callee s)).
Proof. exact @callsite_step_sound. Qed.
Print Assumptions C18_callsite_step.

(* the sequential renaming that e852a9c removed is refuted semantically on its first failing input *)
Theorem C18_callsite_old_algorithm_refuted :
  let callee := fun e : store => [e 1%N - e 2%N]%Z in
  let f := fun s : store => s 3%N in
  let V := (old_apply [(3, [1; 2])] [3] [3] [1; 2] [2; 1] [3])%N in
  summary_ok [(3, [1; 2])]%N [3]%N callee /\ depends_only f [3]%N /\
  ~ depends_only (fun s => f (call_sem [3] [1; 2] [2; 1] (fun _ => None) callee s))%N V.
Proof. exact defect1_old_unsound. Qed.
Print Assumptions C18_callsite_old_algorithm_refuted.
