(* Property C11 — backward analysis returns necessary preconditions.
   Models: Ana/Backward.v (mirror of BackwardAssignOps and of
   intra_necessary_preconditions_abs_transformer over intervals), Ana/BwdItv.v (the engine on
   the reversed CFG, mirror of necessary_preconditions_fixpoint_iterator); verified checker
   for precondition tables: Ana/BackwardCheck.v.  Statements only.

   Proved (unbounded): statement- and block-level necessary preconditions in both modes
   (error mode: a state failing an assertion of the block is in the result); and for ANY
   precondition table accepted by bwd_inductive_ok — with whatever forward invariants were
   supplied — every state, consistent with those invariants, from which some execution goes
   on to violate an assertion (error mode) / to finish the exit block in a final state
   (good mode) is described by the table entry of its block; hence a bottom entry at the
   entry block means no initial state leads to a violation.
   Not covered by the theorems (correspondence and oracle only): self-referencing linear
   assignments x := e(x) and select statements in the backward transformer; the equality
   "model result = accepted table" is checked per generated program. *)
From Coq Require Import ZArith List Bool Arith.
From CrabV Require Import Base.ZInf Scalar.Itv Ir.Syntax Ir.Cfg Dom.ItvEnv Dom.ItvEnvSound Dom.ItvDomain
     Dom.ItvDomainSound Dom.ItvSolverSound Ana.Transformer Ana.FwdItv Ana.Backward Ana.BackwardSound
     Ana.BackwardCheck Ana.FwdItvEngineSound Ana.BwdItv Ana.BwdItvEngineSound.
Import ListNotations.

Theorem C11_statement_precondition : forall fresh good s inv post a b,
  bwd_stmt_ok s = true -> sstep s a b -> genv post b -> genv inv a ->
  genv (bwd_stmt fresh good s inv post) a.
Proof. exact bwd_stmt_sound. Qed.

Theorem C11_failing_assert_in_precondition : forall fresh c id inv post a,
  wf_lcb c = true -> ~ sat c a -> genv (bwd_stmt fresh false (SAssert c id) inv post) a.
Proof. exact bwd_assert_error_sound. Qed.

Theorem C11_backward_division : forall op x y k inv post a v,
  arith_sem op (a y) k = Some v -> genv post (upd a x v) -> genv inv a ->
  genv (bwd_apply_cst op x y k inv post) a.
Proof. exact bwd_apply_cst_sound. Qed.

Theorem C11_block_precondition : forall fresh good bl inv post a b,
  block_bwd_ok bl = true -> bstep bl a b -> genv post b -> genv inv a ->
  genv (bwd_block fresh good bl inv post) a.
Proof. intros. eapply bwd_block_sound; eauto. Qed.

Theorem C11_block_error_precondition : forall fresh bl inv post a id,
  block_bwd_ok bl = true -> bfails bl a id -> genv inv a ->
  genv (bwd_block fresh false bl inv post) a.
Proof. intros. eapply bwd_block_error_sound; eauto. Qed.

Theorem C11_error_tables_sound : forall p fresh exit_block final finv pcond,
  bwd_inductive_ok p fresh false exit_block final finv pcond = true ->
  forall n a, Bad p finv n a -> genv (pcond n) a.
Proof. intros. eapply bwd_tables_error_sound; eauto. Qed.

Theorem C11_good_tables_sound : forall p fresh good exit_block final finv pcond,
  bwd_inductive_ok p fresh good exit_block final finv pcond = true ->
  forall n a, Good p exit_block final finv n a -> genv (pcond n) a.
Proof. intros. eapply bwd_tables_good_sound; eauto. Qed.

Corollary C11_empty_entry_precondition_means_no_violation :
  forall p fresh exit_block final finv pcond,
  bwd_inductive_ok p fresh false exit_block final finv pcond = true ->
  e_is_bot (pcond 0) = true -> forall a, ~ Bad p finv 0 a.
Proof.
  intros p fresh ex final finv pcond OK B a H.
  eapply e_is_bot_sound; [exact B|]. eapply bwd_tables_error_sound; eauto.
Qed.

(* non-vacuity: y in [1,5]; x := y / 2; assert(x <> 2) — the precondition of the error
   keeps y = 4 and y = 5 (the defect repaired in backward_assign_operations.hpp dropped 5) *)
Example C11_example_division :
  let x := 0%N in let y := 1%N in
  let bl := [SArith OpSDiv x y (OCst 2); SAssert (mkLC DISEQ (mkLE [(1%Z, x)] (-2))) 1] in
  let inv := e_set e_top y (mkI (Fin 1) (Fin 5)) in
  e_at (bwd_block 99%N false bl inv EBot) y = mkI (Fin 3) (Fin 5).
Proof. vm_compute. reflexivity. Qed.

(* The model's own tables, WITHOUT the checker (instance of Fix/EngineSound.v on the reversed
   CFG, Ana/BwdItvEngineSound.v): every program of the fragment with in-range edges, every
   forward-invariant table, final value, parameter setting and fuel.
   Good mode: the whole predicate Good.  Error mode: the violations of assertions located in
   blocks from which the exit block can be reached (BadR); the backward iteration starts at
   the exit block, so dead-end blocks are not visited (known finding C11 "deadend"). *)
Theorem C11_model_tables_sound_good :
  forall p fresh good exit_block final finv delay desc fuel wrev table,
  prog_wfb p = true -> forallb block_bwd_ok (p_blocks p) = true ->
  wto_build (p_rev_graph p) exit_block = Some wrev ->
  bwd_run p wrev exit_block delay desc fuel fresh good finv final = Some table ->
  forall n a, Good p exit_block final finv n a -> genv (table n) a.
Proof. exact bwd_run_good_sound. Qed.

Theorem C11_model_tables_sound_error :
  forall p fresh exit_block final finv delay desc fuel wrev table,
  prog_wfb p = true -> forallb block_bwd_ok (p_blocks p) = true ->
  wto_build (p_rev_graph p) exit_block = Some wrev ->
  bwd_run p wrev exit_block delay desc fuel fresh false finv final = Some table ->
  forall n a, BadR p exit_block finv n a -> genv (table n) a.
Proof. exact bwd_run_error_sound. Qed.

(* BadR is Bad restricted, nothing else; they coincide when every block reaches the exit *)
Theorem C11_restricted_violations_are_violations : forall p exit_block finv,
  prog_wfb p = true -> forall n a, BadR p exit_block finv n a -> Bad p finv n a.
Proof. exact BadR_Bad. Qed.

Theorem C11_model_tables_sound_error_all_blocks_reach_exit :
  forall p fresh exit_block final finv delay desc fuel wrev table,
  prog_wfb p = true -> forallb block_bwd_ok (p_blocks p) = true ->
  wto_build (p_rev_graph p) exit_block = Some wrev ->
  all_blocks_reach_exit p wrev = true ->
  bwd_run p wrev exit_block delay desc fuel fresh false finv final = Some table ->
  forall n a, Bad p finv n a -> genv (table n) a.
Proof. exact bwd_run_error_sound_Bad. Qed.

Theorem C11_model_empty_entry_precondition_means_no_violation :
  forall p fresh exit_block final finv delay desc fuel wrev table,
  prog_wfb p = true -> forallb block_bwd_ok (p_blocks p) = true ->
  wto_build (p_rev_graph p) exit_block = Some wrev ->
  all_blocks_reach_exit p wrev = true ->
  bwd_run p wrev exit_block delay desc fuel fresh false finv final = Some table ->
  e_is_bot (table 0) = true -> forall a, ~ Bad p finv 0 a.
Proof. exact bwd_run_empty_entry_means_no_violation. Qed.

(* the ordering of the reversed graph exists for every exit block *)
Theorem C11_model_reversed_wto_total : forall p exit_block,
  prog_wfb p = true -> exit_block < length (p_blocks p) ->
  exists wrev, wto_build (p_rev_graph p) exit_block = Some wrev.
Proof. exact wto_build_rev_total. Qed.

(* the full-strength error-mode statement (all violations, also in dead-end blocks) is false
   of the code: known finding C11 "deadend" *)
Definition C11_model_tables_error_statement : Prop := bwd_model_error_unrestricted_statement.
Theorem C11_model_tables_error_statement_refuted : ~ C11_model_tables_error_statement.
Proof. exact bwd_model_error_unrestricted_refuted. Qed.

Print Assumptions C11_statement_precondition.
Print Assumptions C11_failing_assert_in_precondition.
Print Assumptions C11_backward_division.
Print Assumptions C11_block_precondition.
Print Assumptions C11_block_error_precondition.
Print Assumptions C11_error_tables_sound.
Print Assumptions C11_good_tables_sound.
Print Assumptions C11_empty_entry_precondition_means_no_violation.
Print Assumptions C11_model_tables_sound_good.
Print Assumptions C11_model_tables_sound_error.
Print Assumptions C11_restricted_violations_are_violations.
Print Assumptions C11_model_tables_sound_error_all_blocks_reach_exit.
Print Assumptions C11_model_empty_entry_precondition_means_no_violation.
Print Assumptions C11_model_reversed_wto_total.
Print Assumptions C11_model_tables_error_statement_refuted.
