(* Property C13 — fixed-width integers are arithmetic modulo 2^w; wrapped intervals
   over-approximate the operations under wrap-around semantics.
   Statements only; every proof is a reference to a lemma of the development.
   Part 1: crab::wrapint.  Model Num/Wrapint.v (mirror of lib/wrapint.cpp with the repairs
   fixes/wrapint-1..4), proofs Num/WrapintSound.v.
     wf a      : 1 <= width <= 64 and 0 <= n < 2^width   (representation invariant)
     to_Z a    : unsigned reading,  to_sZ a : signed (two's complement) reading
     wrap w z  : z mod 2^w
   Every theorem quantifies over all widths 1..64 and all operands. *)
From Coq Require Import ZArith.
From CrabV Require Import Num.Wrapint Num.WrapintSound Scalar.WrappedItv Scalar.WrappedItvSound
  Scalar.WrappedItvEdge.
Local Open Scope Z_scope.

(* ---- constructors, conversions from and to big integers *)
Theorem C13_wi_of_u64 : forall n w, 0 <= n < 2 ^ 64 ->
  match of_u64 n w with
  | Some r => 1 <= w <= 64 /\ wf r /\ ww r = w /\ to_Z r = wrap w n
  | None => ~ (1 <= w <= 64)
  end.
Proof. exact of_u64_spec. Qed.
Theorem C13_wi_of_z : forall z w,
  match of_z z w with
  | Some r => 1 <= w <= 64 /\ - 2 ^ 63 <= z <= 2 ^ 63 - 1 /\ wf r /\ ww r = w /\ to_Z r = wrap w z
  | None => ~ (1 <= w <= 64 /\ - 2 ^ 63 <= z <= 2 ^ 63 - 1)
  end.
Proof. exact of_z_spec. Qed.
Theorem C13_wi_q_round_to_upper : forall num den, 0 < den ->
  let c := q_round_to_upper num den in c * den - den < num <= c * den.
Proof. exact q_round_to_upper_spec. Qed.
Theorem C13_wi_fits_wrapint : forall z w,
  fits_wrapint z w = true <-> (w <= 64 /\ - 2 ^ 63 <= z <= 2 ^ 63 - 1).
Proof. exact fits_wrapint_spec. Qed.
Theorem C13_wi_signed_bignum : forall a, wf a -> get_signed_bignum a = to_sZ a.
Proof. exact get_signed_bignum_spec. Qed.
Theorem C13_wi_signed_range : forall a, wf a -> - 2 ^ (ww a - 1) <= to_sZ a < 2 ^ (ww a - 1).
Proof. exact to_sZ_range. Qed.
Theorem C13_wi_signed_congruent : forall a, wf a -> wrap (ww a) (to_sZ a) = to_Z a.
Proof. exact to_sZ_wrap. Qed.
Theorem C13_wi_roundtrip_signed : forall a, wf a -> of_z (get_signed_bignum a) (ww a) = Some a.
Proof. exact of_z_signed_roundtrip. Qed.
Theorem C13_wi_roundtrip_unsigned : forall a, wf a -> to_Z a < 2 ^ 63 ->
  of_z (get_unsigned_bignum a) (ww a) = Some a.
Proof. exact of_z_unsigned_roundtrip. Qed.
Theorem C13_wi_roundtrip_from_z_signed : forall z w r,
  of_z z w = Some r -> - 2 ^ (w - 1) <= z < 2 ^ (w - 1) -> get_signed_bignum r = z.
Proof. exact signed_bignum_of_z. Qed.
Theorem C13_wi_roundtrip_from_z_unsigned : forall z w r,
  of_z z w = Some r -> get_unsigned_bignum r = wrap w z.
Proof. exact unsigned_bignum_of_z. Qed.
Theorem C13_wi_msb : forall a, wf a -> msb a = (2 ^ (ww a - 1) <=? to_Z a).
Proof. exact msb_spec. Qed.
Theorem C13_wi_is_zero : forall a, is_zero a = (to_Z a =? 0).
Proof. exact is_zero_spec. Qed.

(* ---- distinguished values *)
Theorem C13_wi_signed_max : forall w, 1 <= w <= 64 ->
  wf (get_signed_max w) /\ ww (get_signed_max w) = w /\ to_Z (get_signed_max w) = 2 ^ (w - 1) - 1.
Proof. exact get_signed_max_spec. Qed.
Theorem C13_wi_signed_min : forall w, 1 <= w <= 64 ->
  wf (get_signed_min w) /\ ww (get_signed_min w) = w /\ to_Z (get_signed_min w) = 2 ^ (w - 1).
Proof. exact get_signed_min_spec. Qed.
Theorem C13_wi_unsigned_max : forall w, 1 <= w <= 64 ->
  wf (get_unsigned_max w) /\ ww (get_unsigned_max w) = w /\ to_Z (get_unsigned_max w) = 2 ^ w - 1.
Proof. exact get_unsigned_max_spec. Qed.
Theorem C13_wi_unsigned_min : forall w, 1 <= w <= 64 ->
  wf (get_unsigned_min w) /\ ww (get_unsigned_min w) = w /\ to_Z (get_unsigned_min w) = 0.
Proof. exact get_unsigned_min_spec. Qed.

(* ---- ring operations *)
Theorem C13_wi_add : forall a b, wf a -> wf b -> ww a = ww b ->
  wf (wadd a b) /\ ww (wadd a b) = ww a /\ to_Z (wadd a b) = wrap (ww a) (to_Z a + to_Z b).
Proof. exact wadd_spec. Qed.
Theorem C13_wi_sub : forall a b, wf a -> wf b -> ww a = ww b ->
  wf (wsub a b) /\ ww (wsub a b) = ww a /\ to_Z (wsub a b) = wrap (ww a) (to_Z a - to_Z b).
Proof. exact wsub_spec. Qed.
Theorem C13_wi_mul : forall a b, wf a -> wf b -> ww a = ww b ->
  wf (wmul a b) /\ ww (wmul a b) = ww a /\ to_Z (wmul a b) = wrap (ww a) (to_Z a * to_Z b).
Proof. exact wmul_spec. Qed.
Theorem C13_wi_neg : forall a, wf a ->
  wf (wneg a) /\ ww (wneg a) = ww a /\ to_Z (wneg a) = wrap (ww a) (- to_Z a).
Proof. exact wneg_spec. Qed.
Theorem C13_wi_add_assign : forall a b, wf a -> wadd_assign a b = wadd a b.
Proof. exact wadd_assign_eq. Qed.
Theorem C13_wi_sub_assign : forall a b, wf a -> wsub_assign a b = wsub a b.
Proof. exact wsub_assign_eq. Qed.
Theorem C13_wi_mul_assign : forall a b, wf a -> wmul_assign a b = wmul a b.
Proof. exact wmul_assign_eq. Qed.
Theorem C13_wi_increment : forall a, wf a ->
  wf (wpreinc a) /\ ww (wpreinc a) = ww a /\ to_Z (wpreinc a) = wrap (ww a) (to_Z a + 1).
Proof. exact wpreinc_spec. Qed.
Theorem C13_wi_decrement : forall a, wf a ->
  wf (wpredec a) /\ ww (wpredec a) = ww a /\ to_Z (wpredec a) = wrap (ww a) (to_Z a - 1).
Proof. exact wpredec_spec. Qed.

(* ---- division and remainder (None = CRAB_ERROR, exactly when the divisor is zero) *)
Theorem C13_wi_sdiv : forall a b, wf a -> wf b -> ww a = ww b ->
  match wsdiv a b with
  | Some r => to_Z b <> 0 /\ wf r /\ ww r = ww a /\
              to_Z r = wrap (ww a) (Z.quot (to_sZ a) (to_sZ b))
  | None => to_Z b = 0
  end.
Proof. exact wsdiv_spec. Qed.
Theorem C13_wi_srem : forall a b, wf a -> wf b -> ww a = ww b ->
  match wsrem a b with
  | Some r => to_Z b <> 0 /\ wf r /\ ww r = ww a /\
              to_Z r = wrap (ww a) (Z.rem (to_sZ a) (to_sZ b))
  | None => to_Z b = 0
  end.
Proof. exact wsrem_spec. Qed.
Theorem C13_wi_udiv : forall a b, wf a -> wf b -> ww a = ww b ->
  match wudiv a b with
  | Some r => to_Z b <> 0 /\ wf r /\ ww r = ww a /\ to_Z r = to_Z a / to_Z b
  | None => to_Z b = 0
  end.
Proof. exact wudiv_spec. Qed.
Theorem C13_wi_urem : forall a b, wf a -> wf b -> ww a = ww b ->
  match wurem a b with
  | Some r => to_Z b <> 0 /\ wf r /\ ww r = ww a /\ to_Z r = to_Z a mod to_Z b
  | None => to_Z b = 0
  end.
Proof. exact wurem_spec. Qed.

(* ---- comparisons (the class only provides the unsigned order) *)
Theorem C13_wi_eq : forall a b, weq a b = (to_Z a =? to_Z b).
Proof. exact weq_spec. Qed.
Theorem C13_wi_ne : forall a b, wne a b = negb (to_Z a =? to_Z b).
Proof. exact wne_spec. Qed.
Theorem C13_wi_lt : forall a b, wlt a b = (to_Z a <? to_Z b).
Proof. exact wlt_spec. Qed.
Theorem C13_wi_le : forall a b, wle a b = (to_Z a <=? to_Z b).
Proof. exact wle_spec. Qed.
Theorem C13_wi_gt : forall a b, wgt a b = (to_Z b <? to_Z a).
Proof. exact wgt_spec. Qed.
Theorem C13_wi_ge : forall a b, wge a b = (to_Z b <=? to_Z a).
Proof. exact wge_spec. Qed.

(* ---- bitwise operations *)
Theorem C13_wi_and : forall a b, wf a -> wf b -> ww a = ww b ->
  wf (wand a b) /\ ww (wand a b) = ww a /\ to_Z (wand a b) = Z.land (to_Z a) (to_Z b).
Proof. exact wand_spec. Qed.
Theorem C13_wi_or : forall a b, wf a -> wf b -> ww a = ww b ->
  wf (wor a b) /\ ww (wor a b) = ww a /\ to_Z (wor a b) = Z.lor (to_Z a) (to_Z b).
Proof. exact wor_spec. Qed.
Theorem C13_wi_xor : forall a b, wf a -> wf b -> ww a = ww b ->
  wf (wxor a b) /\ ww (wxor a b) = ww a /\ to_Z (wxor a b) = Z.lxor (to_Z a) (to_Z b).
Proof. exact wxor_spec. Qed.

(* ---- shifts: every amount below 64 (amounts >= width included); 64 and above are
        undefined behaviour in the C++ and outside the statement *)
Theorem C13_wi_shl : forall a k, wf a -> wf k -> ww a = ww k -> to_Z k < 64 ->
  exists r, wshl a k = Some r /\ wf r /\ ww r = ww a /\
            to_Z r = wrap (ww a) (to_Z a * 2 ^ to_Z k).
Proof. exact wshl_spec. Qed.
Theorem C13_wi_lshr : forall a k, wf a -> wf k -> ww a = ww k -> to_Z k < 64 ->
  exists r, wlshr a k = Some r /\ wf r /\ ww r = ww a /\ to_Z r = to_Z a / 2 ^ to_Z k.
Proof. exact wlshr_spec. Qed.
Theorem C13_wi_ashr : forall a k, wf a -> wf k -> ww a = ww k -> to_Z k < 64 ->
  exists r, washr a k = Some r /\ wf r /\ ww r = ww a /\
            to_Z r = wrap (ww a) (to_sZ a / 2 ^ to_Z k).
Proof. exact washr_spec. Qed.

(* ---- extensions and truncation *)
Theorem C13_wi_sext : forall a k, wf a -> 0 <= k ->
  match wsext a k with
  | Some r => ww a + k <= 64 /\ wf r /\ ww r = ww a + k /\ to_Z r = wrap (ww a + k) (to_sZ a)
  | None => 64 < ww a + k
  end.
Proof. exact wsext_spec. Qed.
Theorem C13_wi_zext : forall a k, wf a -> 0 <= k ->
  match wzext a k with
  | Some r => ww a + k <= 64 /\ wf r /\ ww r = ww a + k /\ to_Z r = to_Z a
  | None => 64 < ww a + k
  end.
Proof. exact wzext_spec. Qed.
Theorem C13_wi_keep_lower : forall a k, wf a -> 0 <= k ->
  match wkeep_lower a k with
  | Some r => wf r /\ ((ww a <= k /\ r = a) \/
                       (1 <= k < ww a /\ ww r = k /\ to_Z r = wrap k (to_Z a)))
  | None => k = 0
  end.
Proof. exact wkeep_lower_spec. Qed.


(* ==================================================================================
   Part 2: crab::domains::wrapped_interval<z_number>.  Model Scalar/WrappedItv.v (mirror of
   wrapped_interval_impl.hpp and lib/wrapped_interval.cpp with the repairs fixes/wrapint-5..9),
   proofs Scalar/WrappedItvSound.v.
     wfw w x     : x is a well-formed wrapint of bitwidth w
     iwf w i     : i is bottom, top, or has two bounds of bitwidth w
     gamma w i x : the w-bit number x is a member of i (wi_at = the model of at())
   Every theorem quantifies over all bitwidths 1..64, all intervals (bottom, top, across the
   north pole 01..1 -> 10..0 and the south pole 1..1 -> 0..0) and all members.  The result of
   the concrete operation is the wrapint operation of part 1. *)

(* ---- membership *)
Theorem C13_wv_membership : forall w s e v, wfw w s -> wfw w e -> wfw w v ->
  (gamma w (wi_mk s e) v <-> (wn v - wn s) mod 2 ^ w <= (wn e - wn s) mod 2 ^ w).
Proof. exact gamma_mk_iff. Qed.
Theorem C13_wv_bottom : forall w v, ~ gamma w wi_bottom v.
Proof. exact gamma_bottom_empty. Qed.
Theorem C13_wv_top : forall w v, wfw w v -> gamma w wi_top v.
Proof. exact gamma_top_all. Qed.
Theorem C13_wv_singleton : forall w n, wfw w n -> gamma w (wi_single n) n.
Proof. exact singleton_sound. Qed.
Theorem C13_wv_mk_winterval : forall n w r, mk_winterval1 n w = Some r ->
  forall x, of_z n w = Some x -> gamma w r x.
Proof. exact mk_winterval1_sound. Qed.

Theorem C13_wv_mk_winterval_range : forall lb ub w r, mk_winterval2 lb ub w = Some r ->
  forall z x, lb <= z <= ub -> of_z z w = Some x -> gamma w r x.
Proof. exact mk_winterval2_sound. Qed.

(* ---- order and lattice operations *)
Theorem C13_wv_leq : forall w a x v, iwf w a -> iwf w x -> wi_leq a x = true -> gamma w a v -> gamma w x v.
Proof. exact leq_sound. Qed.
Theorem C13_wv_eq : forall w a x v, iwf w a -> iwf w x -> wi_eq a x = true -> (gamma w a v <-> gamma w x v).
Proof. exact eq_sound. Qed.
Theorem C13_wv_join : forall w a x v, iwf w a -> iwf w x -> gamma w a v \/ gamma w x v -> gamma w (wi_join a x) v.
Proof. exact join_sound. Qed.
Theorem C13_wv_meet : forall w a x v, iwf w a -> iwf w x -> gamma w a v -> gamma w x v -> gamma w (wi_meet a x) v.
Proof. exact meet_sound. Qed.
Theorem C13_wv_widen : forall w a x r v, iwf w a -> iwf w x -> wi_widen a x = Some r ->
  gamma w a v \/ gamma w x v -> gamma w r v.
Proof. exact widen_sound. Qed.

(* ---- arithmetic *)
Theorem C13_wv_add : forall w a x v y, iwf w a -> iwf w x -> gamma w a v -> gamma w x y ->
  gamma w (wi_add a x) (wadd v y).
Proof. exact add_sound. Qed.
Theorem C13_wv_sub : forall w a x v y, iwf w a -> iwf w x -> gamma w a v -> gamma w x y ->
  gamma w (wi_sub a x) (wsub v y).
Proof. exact sub_sound. Qed.
Theorem C13_wv_neg : forall w a v, iwf w a -> gamma w a v -> gamma w (wi_neg a) (wneg v).
Proof. exact neg_sound. Qed.
Theorem C13_wv_mul : forall w a x v y, iwf w a -> iwf w x -> gamma w a v -> gamma w x y ->
  exists r, wi_mul a x = Some r /\ iwf w r /\ gamma w r (wmul v y).
Proof. exact mul_sound. Qed.
Theorem C13_wv_sdiv : forall w a x v y, iwf w a -> iwf w x -> gamma w a v -> gamma w x y -> wn y <> 0 ->
  exists q r, wi_sdiv a x = Some q /\ iwf w q /\ wsdiv v y = Some r /\ gamma w q r.
Proof. exact sdiv_sound. Qed.
Theorem C13_wv_udiv : forall w a x v y, iwf w a -> iwf w x -> gamma w a v -> gamma w x y -> wn y <> 0 ->
  exists q r, wi_udiv a x = Some q /\ iwf w q /\ wudiv v y = Some r /\ gamma w q r.
Proof. exact udiv_sound. Qed.
(* SRem, URem, And, Or, Xor all return default_implementation: any w-bit result is a member *)
Theorem C13_wv_default_ops : forall w a x v y r, gamma w a v -> gamma w x y -> wfw w r ->
  gamma w (default_implementation a x) r.
Proof. exact default_sound. Qed.

(* ---- shifts by an interval (only singletons are precise), amounts below 64 *)
Theorem C13_wv_lshr : forall w a x v kk, iwf w a -> iwf w x -> gamma w a v -> gamma w x kk -> wn kk < 64 ->
  exists q r, wi_lshr a x = Some q /\ iwf w q /\ wlshr v kk = Some r /\ gamma w q r.
Proof. exact lshr_sound. Qed.
Theorem C13_wv_ashr : forall w a x v kk, iwf w a -> iwf w x -> gamma w a v -> gamma w x kk -> wn kk < 64 ->
  exists q r, wi_ashr a x = Some q /\ iwf w q /\ washr v kk = Some r /\ gamma w q r.
Proof. exact ashr_sound. Qed.
(* Shl for every amount 0..63 (amount 0 goes through Trunc(bitwidth): repair fixes/wrapint-10) *)
Definition C13_wv_shl_statement : Prop :=
  forall w a x v kk, iwf w a -> iwf w x -> gamma w a v -> gamma w x kk -> 0 <= wn kk < 64 ->
  exists q r, wi_shl a x = Some q /\ iwf w q /\ wshl v kk = Some r /\ gamma w q r.
Theorem C13_wv_shl : C13_wv_shl_statement.
Proof. exact shl_full. Qed.
(* Shl by 0 is the identity on an interval that is neither bottom nor top *)
Theorem C13_wv_shl_zero : forall w a, range_nt w a -> wi_shl_k a 0 = Some (wi_mk (wstart a) (wend a)).
Proof. exact shl_k_zero_exact. Qed.
(* amounts of 64 or more shift an uint64_t by 64 bits or more (undefined behaviour, None in the
   model); a w-bit amount is always below 64 when w <= 6 *)
Theorem C13_wv_lshr_amount_64 : forall w a x kk, range_nt w a -> iwf w x -> is_singleton x = true ->
  gamma w x kk -> 64 <= wn kk -> wn (wstart a) <= wn (wend a) -> wi_lshr a x = None.
Proof. exact lshr_amount_64_error. Qed.
Theorem C13_wv_ashr_amount_64 : forall w a x kk, range_nt w a -> iwf w x -> is_singleton x = true ->
  gamma w x kk -> 64 <= wn kk -> cross_north w a = false -> wi_ashr a x = None.
Proof. exact ashr_amount_64_error. Qed.
Theorem C13_wv_lshr_small_width : forall w a x v kk, w <= 6 -> iwf w a -> iwf w x -> gamma w a v -> gamma w x kk ->
  exists q r, wi_lshr a x = Some q /\ iwf w q /\ wlshr v kk = Some r /\ gamma w q r.
Proof. exact lshr_sound_w6. Qed.
Theorem C13_wv_ashr_small_width : forall w a x v kk, w <= 6 -> iwf w a -> iwf w x -> gamma w a v -> gamma w x kk ->
  exists q r, wi_ashr a x = Some q /\ iwf w q /\ washr v kk = Some r /\ gamma w q r.
Proof. exact ashr_sound_w6. Qed.
Theorem C13_wv_shl_small_width : forall w a x v kk, w <= 6 -> iwf w a -> iwf w x -> gamma w a v -> gamma w x kk ->
  exists q r, wi_shl a x = Some q /\ iwf w q /\ wshl v kk = Some r /\ gamma w q r.
Proof. exact shl_sound_w6. Qed.

(* ---- casts *)
Theorem C13_wv_zext : forall w i k v, iwf w i -> is_top i = false -> gamma w i v -> 0 <= k -> w + k <= 64 ->
  exists q r, wi_zext i k = Some q /\ iwf (w + k) q /\ wzext v k = Some r /\ gamma (w + k) q r.
Proof. exact zext_sound. Qed.
Theorem C13_wv_sext : forall w i k v, iwf w i -> is_top i = false -> gamma w i v -> 0 <= k -> w + k <= 64 ->
  exists q r, wi_sext i k = Some q /\ iwf (w + k) q /\ wsext v k = Some r /\ gamma (w + k) q r.
Proof. exact sext_sound. Qed.
(* ZExt / SExt of top: unsigned_split / signed_split call get_bitwidth, a CRAB_ERROR on top
   (wrapped_interval_domain::apply tests is_top before it calls them) *)
Theorem C13_wv_zext_top : forall i k, is_bottom i = false -> is_top i = true -> wi_zext i k = None.
Proof. exact zext_top_error. Qed.
Theorem C13_wv_sext_top : forall i k, is_bottom i = false -> is_top i = true -> wi_sext i k = None.
Proof. exact sext_top_error. Qed.
(* Trunc for every bits_to_keep in 1..bitwidth (bits_to_keep = bitwidth: repair fixes/wrapint-10) *)
Definition C13_wv_trunc_statement : Prop :=
  forall w i k v, iwf w i -> gamma w i v -> 1 <= k <= w -> k < 64 ->
  exists q r, wi_trunc i k = Some q /\ wkeep_lower v k = Some r /\ gamma k q r.
Theorem C13_wv_trunc_statement_holds : C13_wv_trunc_statement.
Proof. exact trunc_statement_holds. Qed.
(* the same without k < 64 (Trunc(64) of a 64-bit interval) and with the bitwidth of the result *)
Theorem C13_wv_trunc : forall w i k v, iwf w i -> gamma w i v -> 1 <= k <= w ->
  exists q r, wi_trunc i k = Some q /\ iwf k q /\ wkeep_lower v k = Some r /\ gamma k q r.
Proof. exact trunc_full. Qed.

(* ---- conversion to a signed interval, half lines, removal of a bound *)
Theorem C13_wv_to_interval : forall w i v, iwf w i -> gamma w i v ->
  match wi_to_interval i with
  | Some IVBot => False
  | Some IVTop => True
  | Some (IVRange l u) => l <= to_sZ v <= u
  | None => False
  end.
Proof. exact to_interval_sound. Qed.
Theorem C13_wv_lower_half_line_signed : forall w i v u, iwf w i -> gamma w i v -> wfw w u ->
  to_sZ u <= to_sZ v -> gamma w (wi_lower_half_line i true) u.
Proof. exact lower_half_line_signed_sound. Qed.
Theorem C13_wv_lower_half_line_unsigned : forall w i v u, iwf w i -> gamma w i v -> wfw w u ->
  wn u <= wn v -> gamma w (wi_lower_half_line i false) u.
Proof. exact lower_half_line_unsigned_sound. Qed.
Theorem C13_wv_upper_half_line_signed : forall w i v u, iwf w i -> gamma w i v -> wfw w u ->
  to_sZ v <= to_sZ u -> gamma w (wi_upper_half_line i true) u.
Proof. exact upper_half_line_signed_sound. Qed.
Theorem C13_wv_upper_half_line_unsigned : forall w i v u, iwf w i -> gamma w i v -> wfw w u ->
  wn v <= wn u -> gamma w (wi_upper_half_line i false) u.
Proof. exact upper_half_line_unsigned_sound. Qed.
Theorem C13_wv_trim_interval : forall w i j v c, iwf w i -> iwf w j -> gamma w i v -> gamma w j c ->
  v <> c -> gamma w (wi_trim_interval i j) v.
Proof. exact trim_interval_sound. Qed.

Print Assumptions C13_wi_of_u64.
Print Assumptions C13_wi_of_z.
Print Assumptions C13_wi_q_round_to_upper.
Print Assumptions C13_wi_fits_wrapint.
Print Assumptions C13_wi_signed_bignum.
Print Assumptions C13_wi_signed_range.
Print Assumptions C13_wi_signed_congruent.
Print Assumptions C13_wi_roundtrip_signed.
Print Assumptions C13_wi_roundtrip_unsigned.
Print Assumptions C13_wi_roundtrip_from_z_signed.
Print Assumptions C13_wi_roundtrip_from_z_unsigned.
Print Assumptions C13_wi_msb.
Print Assumptions C13_wi_is_zero.
Print Assumptions C13_wi_signed_max.
Print Assumptions C13_wi_signed_min.
Print Assumptions C13_wi_unsigned_max.
Print Assumptions C13_wi_unsigned_min.
Print Assumptions C13_wi_add.
Print Assumptions C13_wi_sub.
Print Assumptions C13_wi_mul.
Print Assumptions C13_wi_neg.
Print Assumptions C13_wi_add_assign.
Print Assumptions C13_wi_sub_assign.
Print Assumptions C13_wi_mul_assign.
Print Assumptions C13_wi_increment.
Print Assumptions C13_wi_decrement.
Print Assumptions C13_wi_sdiv.
Print Assumptions C13_wi_srem.
Print Assumptions C13_wi_udiv.
Print Assumptions C13_wi_urem.
Print Assumptions C13_wi_eq.
Print Assumptions C13_wi_ne.
Print Assumptions C13_wi_lt.
Print Assumptions C13_wi_le.
Print Assumptions C13_wi_gt.
Print Assumptions C13_wi_ge.
Print Assumptions C13_wi_and.
Print Assumptions C13_wi_or.
Print Assumptions C13_wi_xor.
Print Assumptions C13_wi_shl.
Print Assumptions C13_wi_lshr.
Print Assumptions C13_wi_ashr.
Print Assumptions C13_wi_sext.
Print Assumptions C13_wi_zext.
Print Assumptions C13_wi_keep_lower.
Print Assumptions C13_wv_membership.
Print Assumptions C13_wv_bottom.
Print Assumptions C13_wv_top.
Print Assumptions C13_wv_singleton.
Print Assumptions C13_wv_mk_winterval.
Print Assumptions C13_wv_leq.
Print Assumptions C13_wv_eq.
Print Assumptions C13_wv_join.
Print Assumptions C13_wv_meet.
Print Assumptions C13_wv_widen.
Print Assumptions C13_wv_add.
Print Assumptions C13_wv_sub.
Print Assumptions C13_wv_neg.
Print Assumptions C13_wv_mul.
Print Assumptions C13_wv_sdiv.
Print Assumptions C13_wv_udiv.
Print Assumptions C13_wv_default_ops.
Print Assumptions C13_wv_lshr.
Print Assumptions C13_wv_ashr.
Print Assumptions C13_wv_shl.
Print Assumptions C13_wv_shl_zero.
Print Assumptions C13_wv_lshr_amount_64.
Print Assumptions C13_wv_ashr_amount_64.
Print Assumptions C13_wv_lshr_small_width.
Print Assumptions C13_wv_ashr_small_width.
Print Assumptions C13_wv_shl_small_width.
Print Assumptions C13_wv_zext.
Print Assumptions C13_wv_sext.
Print Assumptions C13_wv_zext_top.
Print Assumptions C13_wv_sext_top.
Print Assumptions C13_wv_trunc_statement_holds.
Print Assumptions C13_wv_trunc.
Print Assumptions C13_wv_to_interval.
Print Assumptions C13_wv_lower_half_line_signed.
Print Assumptions C13_wv_lower_half_line_unsigned.
Print Assumptions C13_wv_upper_half_line_signed.
Print Assumptions C13_wv_upper_half_line_unsigned.
Print Assumptions C13_wv_trim_interval.
Print Assumptions C13_wv_mk_winterval_range.
