(* Property C15 — the region / reference domain never loses a value loaded through a
   reference, and its answers about references hold for every concrete execution.

   Model: Dom/RegionCore.v, a reduced mirror of region_domain.hpp over the interval domain
   (Dom/ItvDomain.v): reference-count abstraction (small_range) and initialised flag per
   region, one ghost scalar per region, allocation-site and tag environments, transfer
   functions region_init / ref_make / ref_free / ref_load / ref_store / ref_gep /
   region_copy / ref_assume / select_ref / add_tag / assign / arithmetic / assume / havoc and
   the lattice operations, with fixes/regions-1..3 applied.  Concrete semantics and proofs:
   Dom/RegionCoreSound.v.  Statements only.

   The full statement of the property for ANY implementation M of a region analysis (any
   statement language, any base domain) is the predicate [C15_statement]; it is proved for
   the model ([C15_model_sound_partial]): PARTIAL because the model covers the interval
   base domain and the modelled statements only (region_cast, unknown regions, int_to_ref /
   ref_to_int, the offset/size ghost variables of is_dereferenceable, rename/project and
   other base domains are covered by the oracle search of checks/C15.py, not by a theorem).

   Hypotheses that are part of the statements (not gaps): well-typed operands ([op_ok]); a
   load / store goes through a non-null reference created for that region by the analysed
   code ([valid]: "regions are allocated inside the analysed code", the condition under
   which the C++ itself says its count-zero strong update is sound); loads read cells
   written before; ref_make returns a fresh non-null address; ref_gep stays inside the
   memory object and is applied to a reference of the region when it yields the same cell. *)
From Coq Require Import ZArith NArith List Bool.
From CrabV Require Import Base.ZInf Scalar.Itv Scalar.ItvSound Scalar.SmallRange Scalar.Boolean Ir.Syntax
     Dom.ItvEnv Dom.ItvEnvSound Dom.ItvDomain Dom.RegionCore Dom.RegionCoreSound.
Import ListNotations.
Local Open Scope Z_scope.

(* After ANY admissible history of the modelled operations, from any related starting point,
   every register describes every concrete state produced by the corresponding concrete
   operations (all params settings: P is universally quantified). *)
Theorem C15_history_sound_partial :
  forall (is_rgn is_refrgn is_refv : var -> bool) (P : rparams),
  (forall g, is_refrgn g = true -> is_rgn g = true) ->
  (forall v, is_refv v = true -> is_rgn v = false) ->
  forall (dupf : var -> var) (univ : list var) (h : list rop),
  Forall (op_ok is_rgn is_refrgn is_refv dupf) h ->
  forall rs cs rs',
  rels is_rgn is_refrgn is_refv P rs cs ->
  rrun (CF P dupf univ) rs h = Some rs' ->
  rels is_rgn is_refrgn is_refv P rs' (fold_left cstepS h cs).
Proof. exact region_history_sound. Qed.

(* the property predicate holds for the model *)
Theorem C15_model_sound_partial :
  forall (is_rgn is_refrgn is_refv : var -> bool) (P : rparams),
  (forall g, is_refrgn g = true -> is_rgn g = true) ->
  (forall v, is_refv v = true -> is_rgn v = false) ->
  forall (dupf : var -> var) (univ : list var),
  C15_statement is_rgn is_refv rop (core_machine P dupf univ) cstepS (op_ok is_rgn is_refrgn is_refv dupf).
Proof. exact core_machine_sound. Qed.

(* the value loaded from a cell that was stored to before is inside the abstract value of
   the left-hand side, whatever happened before (copies, joins, widenings, aliasing ...) *)
Theorem C15_load_sound :
  forall (is_rgn is_refrgn is_refv : var -> bool) (P : rparams),
  (forall g, is_refrgn g = true -> is_rgn g = true) ->
  (forall v, is_refv v = true -> is_rgn v = false) ->
  forall (dupf : var -> var) (univ : list var) rs cs rs' r x p g isr c z,
  rels is_rgn is_refrgn is_refv P rs cs ->
  op_ok is_rgn is_refrgn is_refv dupf (OLd r x p g isr) ->
  rstep (CF P dupf univ) rs (OLd r x p g isr) = Some rs' ->
  cget cs r c -> (r < length cs)%nat -> valid c g (c_st c p) -> c_hp c g (c_st c p) = Some z ->
  gamma (q_at (vget rs' r) x) z.
Proof. exact load_sound. Qed.

Theorem C15_at_sound :
  forall is_rgn is_refrgn is_refv P rs cs r c x,
  rels is_rgn is_refrgn is_refv P rs cs -> cget cs r c -> gamma (q_at (vget rs r) x) (c_st c x).
Proof. exact q_at_sound. Qed.

(* a definite null / non-null answer is never wrong; no bottom answer on a reachable state *)
Theorem C15_null_answers_sound :
  forall is_rgn is_refrgn is_refv P rs cs r c p,
  rels is_rgn is_refrgn is_refv P rs cs -> cget cs r c ->
  (q_null (vget rs r) p = BTrue -> c_st c p = 0) /\ (q_null (vget rs r) p = BFalse -> c_st c p <> 0) /\
  q_null (vget rs r) p <> BBot.
Proof. exact q_null_sound. Qed.

(* a reported set of allocation sites contains the actual one (or the reference is null) *)
Theorem C15_allocation_sites_sound :
  forall is_rgn is_refrgn is_refv P rs cs r c p ss,
  rels is_rgn is_refrgn is_refv P rs cs -> cget cs r c -> is_refv p = true ->
  q_sites (vget rs r) p = Some ss ->
  c_st c p = 0 \/ exists site, c_asite c (c_st c p) = Some site /\ In site ss.
Proof. exact q_sites_sound. Qed.

(* a reported set of tags contains the tags of the data of every cell of the region *)
Theorem C15_tags_sound :
  forall is_rgn is_refrgn is_refv P rs cs r c g T,
  rels is_rgn is_refrgn is_refv P rs cs -> cget cs r c -> is_rgn g = true ->
  q_tags (vget rs r) g = Some T -> forall x t, In t (c_htg c g x) -> In t T.
Proof. exact q_tags_sound. Qed.

(* the count abstraction describes the references created for the region; when it says
   "zero or one" the region has at most one cell: strong updates happen on singletons *)
Theorem C15_count_sound :
  forall is_rgn is_refrgn is_refv P rs cs r c g,
  rels is_rgn is_refrgn is_refv P rs cs -> cget cs r c ->
  cgamma (fst (q_count (vget rs r) g)) (creators c g) /\
  (singleton_count (fst (q_count (vget rs r) g)) = true ->
   forall a1 a2, In a1 (addrs c g) -> In a2 (addrs c g) -> a1 = a2).
Proof. exact q_count_sound. Qed.

Theorem C15_count_increment_sound :
  forall c L v, cgamma c L -> cgamma (rc_incr c v) (L ++ [Z.of_N v]).
Proof. exact cg_incr. Qed.
Theorem C15_count_join_sound : forall x y L, cgamma x L \/ cgamma y L -> cgamma (sr_join x y) L.
Proof. exact cg_join. Qed.
Theorem C15_count_meet_sound : forall x y L, cgamma x L -> cgamma y L -> cgamma (sr_meet x y) L.
Proof. exact cg_meet. Qed.

(* with small_range::increment itself (code before fixes/regions-1) the count is wrong *)
Theorem C15_unrepaired_increment_refuted :
  exists c L v, cgamma c L /\ ~ cgamma (sr_incr c (Z.of_N v)) (L ++ [Z.of_N v]).
Proof. exact unrepaired_increment_refuted. Qed.

(* non-vacuity: an admissible history with a concrete execution and a precise answer *)
Theorem C15_example_admissible :
  Forall (op_ok ex_is_rgn (fun _ => false) ex_is_refv (fun _ => 9%N)) ex_hist.
Proof. exact ex_ok. Qed.
Theorem C15_example_abstract :
  exists s, rrun (CF ex_P (fun _ => 9%N) [10%N]) [Some r_top] ex_hist = Some [Some s] /\
            get (r_base s) 1%N = iconst 5 /\ count s 10%N = ROne 2 /\ r_alloc s 2%N = Some [7].
Proof. exact ex_abstract. Qed.
Theorem C15_example_concrete :
  exists c, cget (fold_left cstepS ex_hist [cinit]) 0%nat c /\ c_st c 1%N = 5 /\ c_st c 2%N = 1000.
Proof. exact ex_concrete. Qed.

Print Assumptions C15_history_sound_partial.
Print Assumptions C15_model_sound_partial.
Print Assumptions C15_load_sound.
Print Assumptions C15_at_sound.
Print Assumptions C15_null_answers_sound.
Print Assumptions C15_allocation_sites_sound.
Print Assumptions C15_tags_sound.
Print Assumptions C15_count_sound.
Print Assumptions C15_count_increment_sound.
Print Assumptions C15_count_join_sound.
Print Assumptions C15_count_meet_sound.
Print Assumptions C15_unrepaired_increment_refuted.
Print Assumptions C15_example_admissible.
Print Assumptions C15_example_abstract.
Print Assumptions C15_example_concrete.
