(* Property C05 — widening stabilises every chain (and bounds its arguments), narrowing of
   a decreasing pair keeps the second argument.  Models: Scalar/Itv.v, Dom/ItvEnv.v,
   Fix/Thresholds.v.  Statements only.

   Full statement for reference (C05_statement): every analysis run terminates.  What is
   proved here: (a) the bounds, for interval environments, with and without thresholds;
   (b) stabilisation of interval widening chains against ARBITRARY arguments, in the
   constructive form "at most 3 steps of any chain are non-stationary w.r.t. the inclusion
   test"; (c) thresholds: get_prev(v) <= v <= get_next(v) for every threshold set built by
   add(); (d) environments: a well-founded order that every needed widening step (with or
   without thresholds) strictly descends, hence stabilisation of every environment chain
   with an explicit bound; (e) the engine (Fix/Engine.v, any domain with such an order)
   and the interval analyzer terminate: enough fuel always exists and more fuel never
   changes the answer (C05_analysis_terminates).  The representation invariant env_ok (no
   binding to the empty interval) is needed and kept by every operation
   (C05_env_widening_needs_invariant shows what happens without it).  Termination of the
   C++ run itself is observed, not proved. *)
From Coq Require Import ZArith List Bool Arith.
From CrabV Require Import Base.ZInf Scalar.Itv Scalar.ItvSound Scalar.ItvWiden Ir.Syntax Dom.ItvEnv
     Dom.ItvEnvSound Fix.Thresholds Fix.ThresholdsSound
     Dom.ItvEnvWiden Fix.Wto Fix.Engine Fix.EngineTerm Ana.FwdItv Ana.FwdItvTerm
     Ir.Cfg Dom.ItvDomain Fix.WtoThresholds Ana.FwdItvLive Ana.FwdItvFullSound.
Import ListNotations.

Theorem C05_widening_upper_bound : forall a b s, genv a s \/ genv b s -> genv (e_widen a b) s.
Proof. exact e_widen_sound. Qed.
Theorem C05_widening_thresholds_upper_bound : forall t a b s, wf_thr t ->
  genv a s \/ genv b s -> genv (e_widen_thr (thr_prev t) (thr_next t) a b) s.
Proof.
  intros t a b s W H. apply e_widen_thr_sound; auto.
  - intros v. apply thr_prev_le; auto.
  - intros v. apply thr_next_ge; auto.
Qed.
Theorem C05_thresholds_shape_preserved : forall size t v,
  wf_thr t -> b_is_finite v = true -> wf_thr (thr_add size t v).
Proof. exact thr_add_wf. Qed.
Theorem C05_thresholds_initial : wf_thr thr_init.
Proof. exact wf_thr_init. Qed.
Theorem C05_thresholds_next_prev : forall t v, wf_thr t ->
  ble (thr_prev t v) v = true /\ ble v (thr_next t v) = true.
Proof. intros t v W. split; [apply thr_prev_le|apply thr_next_ge]; exact W. Qed.
Theorem C05_narrowing_keeps_second_argument : forall a b s,
  e_leq b a = true -> genv b s -> genv (e_narrow a b) s.
Proof. intros a b s L G. apply e_narrow_sound; auto. eapply e_leq_sound; eauto. Qed.
Theorem C05_interval_narrowing_decreasing_pair : forall a b,
  ileq b a = true -> forall x, gamma b x -> gamma (inarrow a b) x.
Proof. exact inarrow_decreasing_pair. Qed.

(* stabilisation: along x_{i+1} = x_i widen y_i with arbitrary y_i, at most 3 indices i
   have  not (x_{i+1} <= x_i) — whatever the length k of the prefix examined *)
Theorem C05_interval_widening_chain_stabilises : forall x0 ys k,
  length (filter (nonstationary x0 ys iwiden) (seq 0 k)) <= 3.
Proof. exact iwiden_chain_stabilises. Qed.
Theorem C05_interval_widening_step : forall a b,
  ileq (iwiden a b) a = true \/ wmeasure (iwiden a b) < wmeasure a.
Proof. exact iwiden_step. Qed.

Print Assumptions C05_widening_upper_bound.
Print Assumptions C05_widening_thresholds_upper_bound.
Print Assumptions C05_thresholds_shape_preserved.
Print Assumptions C05_thresholds_initial.
Print Assumptions C05_thresholds_next_prev.
Print Assumptions C05_narrowing_keeps_second_argument.
Print Assumptions C05_interval_narrowing_decreasing_pair.
Print Assumptions C05_interval_widening_chain_stabilises.
Print Assumptions C05_interval_widening_step.

(* --- the order that widening descends ------------------------------------------------ *)
Theorem C05_env_order_well_founded : well_founded e_lt.
Proof. exact e_lt_wf. Qed.
Theorem C05_env_widening_progress : forall a b,
  env_ok a -> env_ok b -> e_leq b a = false -> e_lt (e_widen a b) a.
Proof. exact e_widen_progress. Qed.
Theorem C05_env_thresholds_order_well_founded : forall t, well_founded (e_lt_thr t).
Proof. exact e_lt_thr_wf. Qed.
Theorem C05_env_widening_thresholds_progress : forall t, wf_thr t -> forall a b,
  env_ok a -> env_ok b -> e_leq b a = false ->
  e_lt_thr t (e_widen_thr (thr_prev t) (thr_next t) a b) a.
Proof. exact e_widen_thr_progress. Qed.

(* --- chains of environments: x_{i+1} = x_i widen y_i, arbitrary y_i; (j, m) = the first
       non-bottom iterate; at most 1 + (number of finite bounds of m) steps grow *)
Theorem C05_env_widening_chain_stabilises : forall x0 ys,
  env_ok x0 -> (forall i, env_ok (ys i)) ->
  forall j m, ewchain x0 ys j = EMap m -> (forall i, i < j -> ewchain x0 ys i = EBot) ->
  forall n, length (filter (ew_nonstationary x0 ys) (seq 0 n)) <= 1 + emeasure m.
Proof. exact e_widen_chain_stabilises. Qed.
Theorem C05_env_widening_chain_refusals : forall x0 ys,
  env_ok x0 -> (forall i, env_ok (ys i)) ->
  forall j m, ewchain x0 ys j = EMap m -> (forall i, i < j -> ewchain x0 ys i = EBot) ->
  forall n, length (filter (ew_refused x0 ys) (seq 0 n)) <= 1 + emeasure m.
Proof. exact e_widen_chain_refusals. Qed.
Theorem C05_env_widening_thresholds_chain_stabilises : forall t, wf_thr t -> forall x0 ys,
  env_ok x0 -> (forall i, env_ok (ys i)) ->
  forall j m, echain (iwiden_thr (thr_prev t) (thr_next t)) x0 ys j = EMap m ->
  (forall i, i < j -> echain (iwiden_thr (thr_prev t) (thr_next t)) x0 ys i = EBot) ->
  forall n, length (filter (enonstationary (iwiden_thr (thr_prev t) (thr_next t)) x0 ys) (seq 0 n))
            <= 1 + emeasure_thr t m.
Proof. exact e_widen_thr_chain_stabilises. Qed.
Example C05_env_widening_needs_invariant :
  let a := EMap [(0%N, ibot); (1%N, mkI (Fin 0) (Fin 0))] in
  let b := EMap [(0%N, ibot); (1%N, mkI (Fin 0) (Fin 1))] in
  e_leq b a = false /\ e_widen a b = EBot /\ e_leq b (e_widen a b) = false /\ e_widen (e_widen a b) b = b.
Proof. exact e_widen_needs_invariant. Qed.

(* --- the engine, generic in the abstract domain -------------------------------------- *)
Theorem C05_engine_fuel_monotone : forall (A : Type) (OP : aops A) (analyze : nat -> A -> A)
  (preds nest : nat -> list nat) (entry delay descending : nat) (use_asm : bool)
  (asm : nat -> option A) (init : A) (w : list comp) (f f' : nat) (r : est A),
  run A OP analyze preds nest entry delay descending use_asm asm init f w = Some r -> f <= f' ->
  run A OP analyze preds nest entry delay descending use_asm asm init f' w = Some r.
Proof. exact run_mono. Qed.
Theorem C05_engine_terminates : forall (A : Type) (OP : aops A) (analyze : nat -> A -> A)
  (preds nest : nat -> list nat) (entry delay descending : nat) (use_asm : bool)
  (asm : nat -> option A) (init : A) (Inv : A -> Prop),
  Inv (o_bot A OP) ->
  (forall a b, Inv a -> Inv b -> Inv (o_join A OP a b)) ->
  (forall a b, Inv a -> Inv b -> Inv (o_meet A OP a b)) ->
  (forall n a b, Inv a -> Inv b -> Inv (o_widen A OP n a b)) ->
  (forall a b, Inv a -> Inv b -> Inv (o_narrow A OP a b)) ->
  (forall n a, Inv a -> Inv (analyze n a)) ->
  (forall n a, use_asm = true -> asm n = Some a -> Inv a) ->
  Inv init ->
  forall R : nat -> A -> A -> Prop,
  (forall n, well_founded (R n)) ->
  (forall n a b, Inv a -> Inv b -> o_leq A OP b a = false -> R n (o_widen A OP n a b) a) ->
  forall (w : list comp),
  exists f r, run A OP analyze preds nest entry delay descending use_asm asm init f w = Some r.
Proof. exact run_total. Qed.

(* --- the interval analyzer ------------------------------------------------------------ *)
Theorem C05_analysis_terminates : forall p w entry delay desc use_asm asm init,
  env_ok init -> (forall n a, use_asm = true -> asm n = Some a -> env_ok a) ->
  exists fuel e, fwd_run p w entry delay desc use_asm asm fuel init = Some e.
Proof. exact fwd_run_terminates. Qed.
Theorem C05_analysis_fuel_monotone : forall p w entry delay desc use_asm asm init fuel fuel' e,
  fwd_run p w entry delay desc use_asm asm fuel init = Some e -> fuel <= fuel' ->
  fwd_run p w entry delay desc use_asm asm fuel' init = Some e.
Proof. exact fwd_run_fuel_mono. Qed.
Theorem C05_analysis_answer_independent_of_fuel : forall p w entry delay desc use_asm asm init f1 f2 e1 e2,
  fwd_run p w entry delay desc use_asm asm f1 init = Some e1 ->
  fwd_run p w entry delay desc use_asm asm f2 init = Some e2 -> e1 = e2.
Proof. exact fwd_run_deterministic. Qed.
Theorem C05_analysis_thresholds_terminates : forall t p w entry delay desc use_asm asm init,
  (forall h, wf_thr (t h)) ->
  env_ok init -> (forall n a, use_asm = true -> asm n = Some a -> env_ok a) ->
  exists fuel e, fwd_run_thr t p w entry delay desc use_asm asm fuel init = Some e.
Proof. exact fwd_run_thr_terminates. Qed.
Theorem C05_invariant_initial : env_ok e_top /\ env_ok EBot.
Proof. exact (conj env_ok_top env_ok_bot). Qed.
Theorem C05_invariant_kept : forall p w entry delay desc use_asm asm init fuel e,
  env_ok init -> (forall n a, use_asm = true -> asm n = Some a -> env_ok a) ->
  fwd_run p w entry delay desc use_asm asm fuel init = Some e ->
  forall n, env_ok (e_pre env e n) /\ env_ok (e_post env e n).
Proof. exact fwd_run_ok. Qed.

(* i := 0; while (i <= 9) i := i + 1 : the premises hold for the initial value top, fuel 3
   is enough (computed), fuel 2 is not *)
Example C05_analysis_terminates_example :
  env_ok e_top /\
  (exists e, fwd_run ex_prog ex_wto 0 1 2 false (fun _ => None) 3 e_top = Some e /\
             e_at (e_post env e 3) ex_i = mkI (Fin 10) (Fin 10) /\
             e_at (e_pre env e 1) ex_i = mkI (Fin 0) (Fin 10)) /\
  fwd_run ex_prog ex_wto 0 1 2 false (fun _ => None) 2 e_top = None.
Proof. exact fwd_run_example. Qed.

Print Assumptions C05_env_order_well_founded.
Print Assumptions C05_env_widening_progress.
Print Assumptions C05_env_thresholds_order_well_founded.
Print Assumptions C05_env_widening_thresholds_progress.
Print Assumptions C05_env_widening_chain_stabilises.
Print Assumptions C05_env_widening_chain_refusals.
Print Assumptions C05_env_widening_thresholds_chain_stabilises.
Print Assumptions C05_env_widening_needs_invariant.
Print Assumptions C05_engine_fuel_monotone.
Print Assumptions C05_engine_terminates.
Print Assumptions C05_analysis_terminates.
Print Assumptions C05_analysis_fuel_monotone.
Print Assumptions C05_analysis_answer_independent_of_fuel.
Print Assumptions C05_analysis_thresholds_terminates.
Print Assumptions C05_invariant_initial.
Print Assumptions C05_invariant_kept.
Print Assumptions C05_analysis_terminates_example.

(* --- the interval analyzer in all configurations of intra_fwd_analyzer (Ana/FwdItvLive.v):
   thresholds collected by the mirror of wto_thresholds, liveness pruning.  Add to the imports:
     Ir.Cfg Fix.WtoThresholds Ana.FwdItvLive Ana.FwdItvFullSound.
   No hypothesis about the thresholds: C05_wto_thresholds_well_formed. ---------------------- *)
(* every threshold set that the mirror of wto_thresholds hands to extrapolate has the shape
   -oo :: finite ... ++ [+oo], whatever the program, the ordering and max_thresholds *)
Theorem C05_wto_thresholds_well_formed : forall size blk preds w h,
  wf_thr (wto_thr size blk preds w h).
Proof. exact wto_thr_wf. Qed.
Theorem C05_analysis_full_terminates : forall p w entry delay desc maxthr live ex use_asm asm init,
  env_ok init -> (forall n a, use_asm = true -> asm n = Some a -> env_ok a) ->
  exists fuel e, fwd_run_full p w entry delay desc maxthr live ex use_asm asm fuel init = Some e.
Proof. exact fwd_run_full_terminates. Qed.
Theorem C05_analysis_full_fuel_monotone :
  forall p w entry delay desc maxthr live ex use_asm asm init fuel fuel' e,
  fwd_run_full p w entry delay desc maxthr live ex use_asm asm fuel init = Some e -> fuel <= fuel' ->
  fwd_run_full p w entry delay desc maxthr live ex use_asm asm fuel' init = Some e.
Proof. exact fwd_run_full_fuel_mono. Qed.
Theorem C05_analysis_full_answer_independent_of_fuel :
  forall p w entry delay desc maxthr live ex use_asm asm init f1 f2 e1 e2,
  fwd_run_full p w entry delay desc maxthr live ex use_asm asm f1 init = Some e1 ->
  fwd_run_full p w entry delay desc maxthr live ex use_asm asm f2 init = Some e2 -> e1 = e2.
Proof. exact fwd_run_full_deterministic. Qed.
(* any per-head thresholds of the shape kept by thresholds::add, any per-block dead sets *)
Theorem C05_analysis_any_thresholds_any_dead_sets_terminates :
  forall use_thr t dead p w entry delay desc use_asm asm init,
  (use_thr = true -> forall h, wf_thr (t h)) ->
  env_ok init -> (forall n a, use_asm = true -> asm n = Some a -> env_ok a) ->
  exists fuel e, fwd_run_gen use_thr t dead p w entry delay desc use_asm asm fuel init = Some e.
Proof. exact fwd_run_gen_terminates. Qed.
Theorem C05_invariant_kept_full : forall p w entry delay desc maxthr live ex use_asm asm init fuel e,
  env_ok init -> (forall n a, use_asm = true -> asm n = Some a -> env_ok a) ->
  fwd_run_full p w entry delay desc maxthr live ex use_asm asm fuel init = Some e ->
  forall n, env_ok (e_pre env e n) /\ env_ok (e_post env e n).
Proof. exact fwd_run_full_ok. Qed.
(* the thresholds of a counting loop: 10 = 9 + 1 from `assume i <= 9` inside the cycle; with
   max_thresholds = 3 the initial set is already full; b3 is not a cycle head *)
Example C05_wto_thresholds_example :
  let i := 0%N in
  let blk := fun n => nth n [ [SAssign i (mkLE [] 0)];
                             [];
                             [SAssume (mkLC INEQ (mkLE [(1%Z, i)] (-9))); SArith OpAdd i i (OCst 1)];
                             [SAssume (mkLC INEQ (mkLE [((-1)%Z, i)] 10))] ] [] in
  let preds := fun n => match n with 1 => [0; 2] | 2 => [1] | 3 => [1] | _ => [] end in
  let w := [Vertex 0; Cycle 1 [Vertex 2]; Vertex 3] in
  wto_thr 10 blk preds w 1 = [MInf; Fin 0; Fin 10; PInf] /\
  wto_thr 3 blk preds w 1 = [MInf; Fin 0; PInf] /\
  wto_thr 10 blk preds w 3 = thr_init.
Proof. exact wto_thr_example. Qed.

Print Assumptions C05_wto_thresholds_well_formed.
Print Assumptions C05_analysis_full_terminates.
Print Assumptions C05_analysis_full_fuel_monotone.
Print Assumptions C05_analysis_full_answer_independent_of_fuel.
Print Assumptions C05_analysis_any_thresholds_any_dead_sets_terminates.
Print Assumptions C05_invariant_kept_full.
Print Assumptions C05_wto_thresholds_example.
