(* Property C05 — widening stabilises every chain (and bounds its arguments), narrowing of
   a decreasing pair keeps the second argument.  Models: Scalar/Itv.v, Dom/ItvEnv.v,
   Fix/Thresholds.v.  Statements only.

   Full statement for reference (C05_statement): every analysis run terminates.  What is
   proved here: (a) the bounds, for interval environments, with and without thresholds;
   (b) stabilisation of interval widening chains against ARBITRARY arguments, in the
   constructive form "at most 3 steps of any chain are non-stationary w.r.t. the inclusion
   test"; (c) thresholds: get_prev(v) <= v <= get_next(v) for every threshold set built by
   add().  Termination of the fixpoint engine itself is stated with the engine model in
   Properties_C01/C06 (fuel); termination of the C++ run is observed, not proved. *)
From Coq Require Import ZArith List Bool Arith.
From CrabV Require Import Base.ZInf Scalar.Itv Scalar.ItvSound Scalar.ItvWiden Ir.Syntax Dom.ItvEnv
     Dom.ItvEnvSound Fix.Thresholds Fix.ThresholdsSound.
Import ListNotations.

Theorem C05_widening_upper_bound : forall a b s, genv a s \/ genv b s -> genv (e_widen a b) s.
Proof. exact e_widen_sound. Qed.
Theorem C05_widening_thresholds_upper_bound : forall t a b s, wf_thr t ->
  genv a s \/ genv b s -> genv (e_widen_thr (thr_prev t) (thr_next t) a b) s.
Proof.
  intros t a b s W H. apply e_widen_thr_sound; auto.
  - intros v. apply thr_prev_le; auto.
  - intros v. apply thr_next_ge; auto.
Qed.
Theorem C05_thresholds_shape_preserved : forall size t v,
  wf_thr t -> b_is_finite v = true -> wf_thr (thr_add size t v).
Proof. exact thr_add_wf. Qed.
Theorem C05_thresholds_initial : wf_thr thr_init.
Proof. exact wf_thr_init. Qed.
Theorem C05_thresholds_next_prev : forall t v, wf_thr t ->
  ble (thr_prev t v) v = true /\ ble v (thr_next t v) = true.
Proof. intros t v W. split; [apply thr_prev_le|apply thr_next_ge]; exact W. Qed.
Theorem C05_narrowing_keeps_second_argument : forall a b s,
  e_leq b a = true -> genv b s -> genv (e_narrow a b) s.
Proof. intros a b s L G. apply e_narrow_sound; auto. eapply e_leq_sound; eauto. Qed.
Theorem C05_interval_narrowing_decreasing_pair : forall a b,
  ileq b a = true -> forall x, gamma b x -> gamma (inarrow a b) x.
Proof. exact inarrow_decreasing_pair. Qed.

(* stabilisation: along x_{i+1} = x_i widen y_i with arbitrary y_i, at most 3 indices i
   have  not (x_{i+1} <= x_i) — whatever the length k of the prefix examined *)
Theorem C05_interval_widening_chain_stabilises : forall x0 ys k,
  length (filter (nonstationary x0 ys iwiden) (seq 0 k)) <= 3.
Proof. exact iwiden_chain_stabilises. Qed.
Theorem C05_interval_widening_step : forall a b,
  ileq (iwiden a b) a = true \/ wmeasure (iwiden a b) < wmeasure a.
Proof. exact iwiden_step. Qed.

Print Assumptions C05_widening_upper_bound.
Print Assumptions C05_widening_thresholds_upper_bound.
Print Assumptions C05_thresholds_shape_preserved.
Print Assumptions C05_thresholds_initial.
Print Assumptions C05_thresholds_next_prev.
Print Assumptions C05_narrowing_keeps_second_argument.
Print Assumptions C05_interval_narrowing_decreasing_pair.
Print Assumptions C05_interval_widening_chain_stabilises.
Print Assumptions C05_interval_widening_step.
