(* Property C19 — the variable-to-value environments underlying the non-relational domains
   behave as total maps with default top, and the set containers built on the same trees
   implement finite sets exactly.

   Statements only; every proof is a reference to a lemma of the development.
   Models: Map/Patricia.v (patricia_trees.hpp), Map/SepDomain.v (separate_domain),
   Map/DiscreteDomain.v (patricia_tree_set, discrete_domain).
   [get t] is the finite map denoted by a tree (PatriciaSpec.v); [wf] the prefix /
   branching-bit discipline; [s_at] the abstraction of an environment to a total map. *)
From Coq Require Import NArith ZArith Bool List Sorting.Sorted.
From CrabV Require Import Base.ZInf Scalar.Itv Map.Patricia Map.PatriciaBits Map.PatriciaSpec
     Map.SepDomain Map.SepDomainSound Map.SepItv Map.DiscreteDomain Map.DiscreteSound.
Local Open Scope N_scope.

(* ================================================================== trees, any value type *)
Section Trees.
Variable V : Type.
Variable veq : V -> V -> bool.           (* ValueEqual *)
Variable Vok : V -> Prop.                (* invariant of the stored values *)
Hypothesis veq_ok : forall x y, Vok x -> veq y x = true -> y = x.

Theorem C19_tree_lookup : forall (t : tree V) k, wf t -> lookup t k = get t k.
Proof. exact (lookup_get V). Qed.

Theorem C19_tree_insert : forall (t : tree V) key val op ltr,
  wf t -> all_ok Vok t -> ins_result op ltr t key val (insert veq t key val op ltr).
Proof. exact (insert_spec V veq Vok veq_ok). Qed.

Theorem C19_tree_insert_replace : forall (t : ptree V) key val,
  wfp t -> pall_ok Vok t ->
  wfp (pt_insert veq t key val) /\
  (forall c q, pfits c q t -> agree c key q -> pfits c q (pt_insert veq t key val)) /\
  (forall k, pget (pt_insert veq t key val) k = if k =? key then Some val else pget t k).
Proof. exact (pt_insert_spec V veq Vok veq_ok). Qed.

Theorem C19_tree_remove : forall (t : ptree V) key,
  wfp t ->
  wfp (premove t key) /\ (forall c q, pfits c q t -> pfits c q (premove t key)) /\
  (forall k, pget (premove t key) k = if k =? key then None else pget t k).
Proof. exact (premove_spec V). Qed.

Theorem C19_tree_transform : forall (t : tree V) f,
  wf t -> all_ok Vok t ->
  wfp (transform veq t f) /\ (forall c q, fits c q t -> pfits c q (transform veq t f)) /\
  (forall k, pget (transform veq t f) k = obind (get t k) f).
Proof. exact (transform_spec V veq Vok veq_ok). Qed.

(* merge: well-formedness, pointwise combination under both absorption modes, and the
   bottom flag is raised exactly when some common key combines to bottom *)
Theorem C19_tree_merge : forall op ltr (s t : ptree V),
  wfp s -> wfp t -> pall_ok Vok s -> pall_ok Vok t ->
  let res := pmerge veq op ltr s t in
  if fst res then
    snd res = None /\
    exists k a b, pget s k = Some a /\ pget t k = Some b /\ fst (app_op op ltr k a b) = true
  else
    wfp (snd res) /\
    (forall c q, pfits c q s -> pfits c q t -> pfits c q (snd res)) /\
    (forall k, pget (snd res) k = comb op ltr k (pget s k) (pget t k)) /\
    (forall k a b, pget s k = Some a -> pget t k = Some b -> fst (app_op op ltr k a b) = false).
Proof. exact (pmerge_spec V veq Vok veq_ok). Qed.

(* the physical-equality shortcut of merge is sound for idempotent operators *)
Theorem C19_tree_merge_shortcut : forall op ltr (s : tree V),
  (forall k v, Vok v -> bapply op k v v = (false, Some v)) ->
  wf s -> all_ok Vok s -> merge veq op ltr s s = (false, Some s).
Proof. exact (merge_idem V veq Vok veq_ok). Qed.

(* compare answers yes exactly when the order holds pointwise (an absent binding being the
   default value, distinct from every stored value) *)
Theorem C19_tree_compare : forall (po : porder V) ltr (s t : ptree V),
  wfp s -> wfp t ->
  (pcompare po ltr s t = true <-> forall k, ole po ltr (pget s k) (pget t k) = true).
Proof. exact (pcompare_spec V). Qed.

(* the physical-equality shortcut of compare is sound for reflexive orders *)
Theorem C19_tree_compare_shortcut : forall (po : porder V) ltr (s : tree V),
  (forall v, Vok v -> pleq po v v = true) -> wf s -> all_ok Vok s -> compare po ltr s s = true.
Proof. exact (compare_refl V Vok). Qed.

Theorem C19_tree_iteration_exact : forall (t : ptree V) k v,
  wfp t -> (In (k, v) (pelements t) <-> pget t k = Some v).
Proof. exact (pelements_in V). Qed.

Theorem C19_tree_iteration_sorted : forall (t : ptree V),
  wfp t -> StronglySorted key_lt (pelements t).
Proof. exact (pelements_sorted V). Qed.

Theorem C19_tree_size : forall (t : ptree V), psize t = N.of_nat (length (pelements t)).
Proof. exact (psize_elements V). Qed.
End Trees.

(* the loop of highest_bit computes the highest set bit above the threshold *)
Theorem C19_highest_bit_loop : forall fuel x c d,
  (forall i, i < c -> N.testbit x i = false) ->
  N.testbit x d = true -> (forall i, d < i -> N.testbit x i = false) ->
  (N.to_nat (d - c) < fuel)%nat ->
  highest_bit_loop fuel x (2 ^ c) = 2 ^ d.
Proof. exact highest_bit_loop_spec. Qed.

Theorem C19_branching_bit : forall p0 p1 c,
  ~ agree c p0 p1 ->
  exists d, highest_bit (N.lxor p0 p1) (2 ^ c) = 2 ^ d /\ c <= d /\
            agree (d + 1) p0 p1 /\ N.testbit p0 d <> N.testbit p1 d.
Proof. exact highest_bit_spec. Qed.

(* ================================================================== environments, any value lattice *)
Section Environments.
Variable V : Type.
Variables vtop vbot : V.
Variables v_is_top v_is_bot : V -> bool.
Variable vleq : V -> V -> bool.
Variable veq : V -> V -> bool.
Variable Vwf : V -> Prop.
Hypothesis Vwf_top : Vwf vtop.
Hypothesis top_is_top : v_is_top vtop = true.
Hypothesis top_not_bot : v_is_bot vtop = false.
Hypothesis bot_is_bot : v_is_bot vbot = true.
Hypothesis veq_good : forall x y, good V v_is_top v_is_bot Vwf x -> veq y x = true -> y = x.

Notation ok := (sep_ok V v_is_top v_is_bot Vwf).
Notation at_ := (s_at V vtop vbot).
Notation nt := (ntop V vtop v_is_top).

Theorem C19_env_top_bottom :
  ok sep_top /\ ok sep_bottom /\ (forall k, at_ sep_top k = vtop) /\ (forall k, at_ sep_bottom k = vbot).
Proof.
  exact (conj (sep_ok_top V v_is_top v_is_bot Vwf)
        (conj (sep_ok_bottom V v_is_top v_is_bot Vwf)
        (conj (at_top V vtop vbot) (at_bottom V vtop vbot)))).
Qed.

Theorem C19_env_set : forall a k v,
  ok a -> Vwf v ->
  ok (s_set V v_is_top v_is_bot veq a k v) /\
  sbot (s_set V v_is_top v_is_bot veq a k v) = sbot a || v_is_bot v /\
  (sbot a || v_is_bot v = false ->
   forall k', at_ (s_set V v_is_top v_is_bot veq a k v) k' = if k' =? k then nt v else at_ a k').
Proof. exact (set_spec V vtop vbot v_is_top v_is_bot veq Vwf veq_good). Qed.

Theorem C19_env_forget : forall a k,
  ok a ->
  ok (s_forget V a k) /\ sbot (s_forget V a k) = sbot a /\
  (sbot a = false -> forall k', at_ (s_forget V a k) k' = if k' =? k then vtop else at_ a k').
Proof. exact (forget_spec V vtop vbot v_is_top v_is_bot Vwf). Qed.

Theorem C19_env_is_top : forall a,
  ok a -> (s_is_top a = true <-> sbot a = false /\ forall k, v_is_top (at_ a k) = true).
Proof. exact (is_top_spec V vtop vbot v_is_top v_is_bot Vwf top_is_top). Qed.

Theorem C19_env_iteration : forall a,
  ok a -> sbot a = false ->
  exists l, s_elements a = Some l /\ StronglySorted key_lt l /\
            forall k v, In (k, v) l <-> (at_ a k = v /\ v_is_top v = false).
Proof. exact (elements_spec V vtop vbot v_is_top v_is_bot Vwf top_is_top top_not_bot bot_is_bot). Qed.

Theorem C19_env_size : forall a,
  ok a ->
  s_size a = if sbot a then Some 0 else if s_is_top a then None
             else Some (N.of_nat (length (pelements (stree a)))).
Proof. exact (size_spec V v_is_top v_is_bot Vwf). Qed.

Theorem C19_env_project : forall a keys,
  ok a ->
  ok (s_project V vtop vbot v_is_top v_is_bot veq a keys) /\
  sbot (s_project V vtop vbot v_is_top v_is_bot veq a keys) = sbot a /\
  (sbot a = false ->
   forall k, at_ (s_project V vtop vbot v_is_top v_is_bot veq a keys) k =
             if mem_keys k keys then at_ a k else vtop).
Proof.
  exact (project_spec V vtop vbot v_is_top v_is_bot veq Vwf Vwf_top top_is_top top_not_bot veq_good).
Qed.

(* rename under its documented precondition: distinct fresh targets, disjoint from the
   sources *)
Theorem C19_env_rename : forall a from to r,
  ok a -> s_rename V v_is_top veq a from to = Some r ->
  NoDup from -> NoDup to -> (forall x, In x to -> ~ In x from) ->
  (sbot a = false -> forall x, In x to -> v_is_top (at_ a x) = true) ->
  ok r /\ sbot r = sbot a /\
  (sbot a = false ->
   forall k, at_ r k = match rn_src (combine from to) k with
                       | Some f => at_ a f
                       | None => if mem_keys k from then vtop else at_ a k
                       end).
Proof. exact (rename_spec V vtop vbot v_is_top v_is_bot veq Vwf veq_good). Qed.

Section Order.
Hypothesis leq_top_top : vleq vtop vtop = true.
Hypothesis leq_good_top : forall x, good V v_is_top v_is_bot Vwf x -> vleq x vtop = true.
Hypothesis leq_top_good : forall y, good V v_is_top v_is_bot Vwf y -> vleq vtop y = false.

(* the inclusion test holds exactly when it holds pointwise *)
Theorem C19_env_leq : forall a b,
  ok a -> ok b ->
  (s_leq V vleq a b = true <->
   sbot a = true \/ (sbot b = false /\ forall k, vleq (at_ a k) (at_ b k) = true)).
Proof.
  exact (leq_spec V vtop vbot v_is_top v_is_bot vleq Vwf leq_top_top leq_good_top leq_top_good).
Qed.
End Order.

Section JoinLike.      (* | , || , widening_thresholds and join(k,v) *)
Variable f : V -> V -> V.
Hypothesis f_wf : forall x y, Vwf x -> Vwf y -> Vwf (f x y).
Hypothesis f_not_bot : forall x y, v_is_bot x = false -> v_is_bot y = false -> v_is_bot (f x y) = false.
Hypothesis f_top_l : forall x y, Vwf x -> Vwf y -> v_is_top x = true -> v_is_top (f x y) = true.
Hypothesis f_top_r : forall x y, Vwf x -> Vwf y -> v_is_top y = true -> v_is_top (f x y) = true.

Theorem C19_env_join_like : forall a b,
  ok a -> ok b ->
  ok (s_lub V v_is_top veq f a b) /\
  (sbot a = true -> s_lub V v_is_top veq f a b = b) /\
  (sbot a = false -> sbot b = true -> s_lub V v_is_top veq f a b = a) /\
  (sbot a = false -> sbot b = false ->
   sbot (s_lub V v_is_top veq f a b) = false /\
   forall k, at_ (s_lub V v_is_top veq f a b) k = nt (f (at_ a k) (at_ b k))).
Proof.
  exact (lub_spec V vtop vbot v_is_top v_is_bot veq Vwf Vwf_top top_is_top veq_good f
                  f_wf f_not_bot f_top_l f_top_r).
Qed.

Theorem C19_env_join_kv : forall a k v,
  ok a -> Vwf v ->
  ok (s_join_kv V v_is_top v_is_bot veq f a k v) /\
  sbot (s_join_kv V v_is_top v_is_bot veq f a k v) = sbot a || v_is_bot v /\
  (sbot a || v_is_bot v = false ->
   forall k', at_ (s_join_kv V v_is_top v_is_bot veq f a k v) k' =
              if k' =? k then nt (f (at_ a k) v) else at_ a k').
Proof.
  exact (join_kv_spec V vtop vbot v_is_top v_is_bot veq Vwf Vwf_top top_is_top veq_good f
                      f_wf f_not_bot f_top_l f_top_r).
Qed.
End JoinLike.

Section MeetLike.      (* & , && *)
Variable g : V -> V -> V.
Hypothesis g_wf : forall x y, Vwf x -> Vwf y -> Vwf (g x y).
Hypothesis g_top_r : forall x, good V v_is_top v_is_bot Vwf x -> g x vtop = x.
Hypothesis g_top_l : forall y, good V v_is_top v_is_bot Vwf y -> g vtop y = y.
Hypothesis g_top_top : g vtop vtop = vtop.
Hypothesis g_not_top :
  forall x y, good V v_is_top v_is_bot Vwf x -> good V v_is_top v_is_bot Vwf y ->
              v_is_bot (g x y) = false -> v_is_top (g x y) = false.

Theorem C19_env_meet_like : forall a b,
  ok a -> ok b ->
  ok (s_glb V v_is_bot veq g a b) /\
  (sbot a = true \/ sbot b = true -> sbot (s_glb V v_is_bot veq g a b) = true) /\
  (sbot a = false -> sbot b = false ->
   (sbot (s_glb V v_is_bot veq g a b) = true <->
    exists k, v_is_bot (g (at_ a k) (at_ b k)) = true) /\
   (sbot (s_glb V v_is_bot veq g a b) = false ->
    forall k, at_ (s_glb V v_is_bot veq g a b) k = g (at_ a k) (at_ b k))).
Proof.
  exact (glb_spec V vtop vbot v_is_top v_is_bot veq Vwf top_not_bot veq_good g
                  g_wf g_top_r g_top_l g_top_top g_not_top).
Qed.
End MeetLike.
End Environments.

(* ================================================================== the interval instance
   (the hypotheses of the previous section are satisfiable: Value = interval<z_number>) *)

Theorem C19_itv_set : forall a k v,
  ie_ok a -> iwf v ->
  ie_ok (ie_set a k v) /\ sbot (ie_set a k v) = sbot a || is_bot v /\
  (sbot a || is_bot v = false ->
   forall k', ie_at (ie_set a k v) k' = if k' =? k then v else ie_at a k').
Proof. exact ie_set_spec. Qed.

Theorem C19_itv_join_kv : forall a k v,
  ie_ok a -> iwf v ->
  ie_ok (ie_join_kv a k v) /\ sbot (ie_join_kv a k v) = sbot a || is_bot v /\
  (sbot a || is_bot v = false ->
   forall k', ie_at (ie_join_kv a k v) k' = if k' =? k then ijoin (ie_at a k) v else ie_at a k').
Proof. exact ie_join_kv_spec. Qed.

Theorem C19_itv_join : forall a b,
  ie_ok a -> ie_ok b ->
  ie_ok (ie_join a b) /\ (sbot a = true -> ie_join a b = b) /\
  (sbot a = false -> sbot b = true -> ie_join a b = a) /\
  (sbot a = false -> sbot b = false ->
   sbot (ie_join a b) = false /\ forall k, ie_at (ie_join a b) k = ijoin (ie_at a k) (ie_at b k)).
Proof. exact ie_join_spec. Qed.

Theorem C19_itv_widen : forall a b,
  ie_ok a -> ie_ok b ->
  ie_ok (ie_widen a b) /\ (sbot a = true -> ie_widen a b = b) /\
  (sbot a = false -> sbot b = true -> ie_widen a b = a) /\
  (sbot a = false -> sbot b = false ->
   sbot (ie_widen a b) = false /\ forall k, ie_at (ie_widen a b) k = iwiden (ie_at a k) (ie_at b k)).
Proof. exact ie_widen_spec. Qed.

Theorem C19_itv_widen_thresholds : forall ts a b,
  ie_ok a -> ie_ok b ->
  ie_ok (ie_widen_thr ts a b) /\ (sbot a = true -> ie_widen_thr ts a b = b) /\
  (sbot a = false -> sbot b = true -> ie_widen_thr ts a b = a) /\
  (sbot a = false -> sbot b = false ->
   sbot (ie_widen_thr ts a b) = false /\
   forall k, ie_at (ie_widen_thr ts a b) k =
             iwiden_thr (thr_prev ts) (thr_next ts) (ie_at a k) (ie_at b k)).
Proof. exact ie_widen_thr_spec. Qed.

Theorem C19_itv_meet : forall a b,
  ie_ok a -> ie_ok b ->
  ie_ok (ie_meet a b) /\ (sbot a = true \/ sbot b = true -> sbot (ie_meet a b) = true) /\
  (sbot a = false -> sbot b = false ->
   (sbot (ie_meet a b) = true <-> exists k, is_bot (imeet (ie_at a k) (ie_at b k)) = true) /\
   (sbot (ie_meet a b) = false -> forall k, ie_at (ie_meet a b) k = imeet (ie_at a k) (ie_at b k))).
Proof. exact ie_meet_spec. Qed.

Theorem C19_itv_narrow : forall a b,
  ie_ok a -> ie_ok b ->
  ie_ok (ie_narrow a b) /\ (sbot a = true \/ sbot b = true -> sbot (ie_narrow a b) = true) /\
  (sbot a = false -> sbot b = false ->
   (sbot (ie_narrow a b) = true <-> exists k, is_bot (inarrow (ie_at a k) (ie_at b k)) = true) /\
   (sbot (ie_narrow a b) = false -> forall k, ie_at (ie_narrow a b) k = inarrow (ie_at a k) (ie_at b k))).
Proof. exact ie_narrow_spec. Qed.

Theorem C19_itv_leq : forall a b,
  ie_ok a -> ie_ok b ->
  (ie_leq a b = true <->
   sbot a = true \/ (sbot b = false /\ forall k, ileq (ie_at a k) (ie_at b k) = true)).
Proof. exact ie_leq_spec. Qed.

Theorem C19_itv_is_top : forall a,
  ie_ok a -> (s_is_top a = true <-> sbot a = false /\ forall k, ie_at a k = itop).
Proof. exact ie_is_top_spec. Qed.

Theorem C19_itv_iteration : forall a,
  ie_ok a -> sbot a = false ->
  exists l, s_elements a = Some l /\ StronglySorted key_lt l /\
            forall k v, In (k, v) l <-> (ie_at a k = v /\ is_top v = false).
Proof. exact ie_elements_spec. Qed.

Theorem C19_itv_project : forall a keys,
  ie_ok a ->
  ie_ok (ie_project a keys) /\ sbot (ie_project a keys) = sbot a /\
  (sbot a = false ->
   forall k, ie_at (ie_project a keys) k = if mem_keys k keys then ie_at a k else itop).
Proof. exact ie_project_spec. Qed.

Theorem C19_itv_rename : forall a from to r,
  ie_ok a -> ie_rename a from to = Some r ->
  NoDup from -> NoDup to -> (forall x, In x to -> ~ In x from) ->
  (sbot a = false -> forall x, In x to -> is_top (ie_at a x) = true) ->
  ie_ok r /\ sbot r = sbot a /\
  (sbot a = false ->
   forall k, ie_at r k = match rn_src (combine from to) k with
                         | Some f => ie_at a f
                         | None => if mem_keys k from then itop else ie_at a k
                         end).
Proof. exact ie_rename_spec. Qed.

(* any sequence of operations: every environment reachable from top / bottom by set, forget,
   join(k,v), join, meet, widening (with or without thresholds), narrowing, project and
   rename (under its precondition) satisfies the invariant under which the equations
   above hold *)
Theorem C19_itv_any_history : forall a, ie_reach a -> ie_ok a.
Proof. exact ie_reach_ok. Qed.

(* a non-trivial value satisfying the invariant (keys 1 and 2^63) *)
Theorem C19_itv_example : ie_ok ex_a /\ sbot ex_a = false /\ s_size ex_a = Some 2.
Proof. exact ex_a_ok. Qed.

(* ================================================================== sets *)

Theorem C19_set_add : forall s k,
  ps_ok s -> ps_ok (ps_add s k) /\ forall k', ps_mem (ps_add s k) k' = (k' =? k) || ps_mem s k'.
Proof. exact ps_add_spec. Qed.

Theorem C19_set_remove : forall s k,
  ps_ok s ->
  ps_ok (ps_remove s k) /\ forall k', ps_mem (ps_remove s k) k' = negb (k' =? k) && ps_mem s k'.
Proof. exact ps_remove_spec. Qed.

Theorem C19_set_union : forall a b,
  ps_ok a -> ps_ok b ->
  ps_ok (ps_union a b) /\ forall k, ps_mem (ps_union a b) k = ps_mem a k || ps_mem b k.
Proof. exact ps_union_spec. Qed.

Theorem C19_set_intersection : forall a b,
  ps_ok a -> ps_ok b ->
  ps_ok (ps_inter a b) /\ forall k, ps_mem (ps_inter a b) k = ps_mem a k && ps_mem b k.
Proof. exact ps_inter_spec. Qed.

Theorem C19_set_subset : forall a b,
  ps_ok a -> ps_ok b ->
  (ps_leq a b = true <-> forall k, ps_mem a k = true -> ps_mem b k = true).
Proof. exact ps_leq_spec. Qed.

Theorem C19_set_equal : forall a b,
  ps_ok a -> ps_ok b -> (ps_eq a b = true <-> forall k, ps_mem a k = ps_mem b k).
Proof. exact ps_eq_spec. Qed.

Theorem C19_set_iteration : forall s,
  ps_ok s ->
  StronglySorted N.lt (ps_elements s) /\ (forall k, In k (ps_elements s) <-> ps_mem s k = true) /\
  ps_size s = N.of_nat (length (ps_elements s)).
Proof. exact ps_elements_spec. Qed.

Theorem C19_dset_membership : forall d k, dd_ok d -> dd_contain d k = dd_mem d k.
Proof. exact dd_contain_spec. Qed.

Theorem C19_dset_union : forall a b,
  dd_ok a -> dd_ok b ->
  dd_ok (dd_join a b) /\ forall k, dd_mem (dd_join a b) k = dd_mem a k || dd_mem b k.
Proof. exact dd_join_spec. Qed.

Theorem C19_dset_intersection : forall a b,
  dd_ok a -> dd_ok b ->
  dd_ok (dd_meet a b) /\ forall k, dd_mem (dd_meet a b) k = dd_mem a k && dd_mem b k.
Proof. exact dd_meet_spec. Qed.

Theorem C19_dset_difference : forall a b,
  dd_ok a -> dd_ok b -> dtop a = false -> dtop b = false ->
  dd_ok (dd_diff a b) /\ forall k, dd_mem (dd_diff a b) k = dd_mem a k && negb (dd_mem b k).
Proof. exact dd_diff_spec. Qed.

Theorem C19_dset_add : forall d k,
  dd_ok d -> dd_ok (dd_add d k) /\ forall k', dd_mem (dd_add d k) k' = (k' =? k) || dd_mem d k'.
Proof. exact dd_add_spec. Qed.

Theorem C19_dset_remove : forall d k,
  dd_ok d ->
  dd_ok (dd_remove d k) /\
  forall k', dd_mem (dd_remove d k) k' = dtop d || (negb (k' =? k) && dd_mem d k').
Proof. exact dd_remove_spec. Qed.

Theorem C19_dset_subset : forall a b,
  dd_ok a -> dd_ok b ->
  (dd_leq a b = true <->
   dtop b = true \/ (dtop a = false /\ forall k, dd_mem a k = true -> dd_mem b k = true)).
Proof. exact dd_leq_spec. Qed.

Theorem C19_dset_equal : forall a b,
  dd_ok a -> dd_ok b ->
  (dd_eq a b = true <->
   (dtop a = true /\ dtop b = true) \/
   (dtop a = false /\ dtop b = false /\ forall k, dd_mem a k = dd_mem b k)).
Proof. exact dd_eq_spec. Qed.

Theorem C19_dset_size : forall d,
  dd_ok d -> dd_size d = if dtop d then None else Some (N.of_nat (length (ps_elements (dset d)))).
Proof. exact dd_size_spec. Qed.

Theorem C19_set_any_history : forall s, ps_reach s -> ps_ok s.
Proof. exact ps_reach_ok. Qed.

Theorem C19_dset_any_history : forall d, dd_reach d -> dd_ok d.
Proof. exact dd_reach_ok. Qed.

Theorem C19_set_example :
  ps_ok (ps_add (ps_add ps_empty 3) (2 ^ 63)) /\ ps_size (ps_add (ps_add ps_empty 3) (2 ^ 63)) = 2.
Proof. exact ps_example. Qed.

(* ================================================================== the code before the repairs *)

(* tree::compare before fixes/patricia-1.diff *)
Theorem C19_compare_before_fix_refuted :
  exists a b, ie_ok a /\ ie_ok b /\ sbot a = false /\ sbot b = false /\
              ie_leq_orig a b = true /\ ie_leq_orig b a = true /\
              exists k, ileq (ie_at a k) (ie_at b k) = false.
Proof. exact ie_leq_orig_refuted. Qed.

(* separate_domain::join(k,v) before fixes/patricia-2.diff *)
Theorem C19_join_kv_before_fix_refuted :
  exists a k v, ie_ok a /\ iwf v /\ is_bot v = false /\ ~ ie_ok (ie_join_kv_orig a k v).
Proof. exact ie_join_kv_orig_refuted. Qed.

(* discrete_domain::operator== before fixes/patricia-3.diff *)
Theorem C19_dset_equal_before_fix_refuted :
  exists a b, dd_ok a /\ dd_ok b /\ dd_eq_orig a b = true /\ dd_mem a 0 <> dd_mem b 0.
Proof. exact dd_eq_orig_refuted. Qed.

Print Assumptions C19_tree_lookup.
Print Assumptions C19_tree_insert.
Print Assumptions C19_tree_insert_replace.
Print Assumptions C19_tree_remove.
Print Assumptions C19_tree_transform.
Print Assumptions C19_tree_merge.
Print Assumptions C19_tree_merge_shortcut.
Print Assumptions C19_tree_compare.
Print Assumptions C19_tree_compare_shortcut.
Print Assumptions C19_tree_iteration_exact.
Print Assumptions C19_tree_iteration_sorted.
Print Assumptions C19_tree_size.
Print Assumptions C19_highest_bit_loop.
Print Assumptions C19_branching_bit.
Print Assumptions C19_env_top_bottom.
Print Assumptions C19_env_set.
Print Assumptions C19_env_forget.
Print Assumptions C19_env_is_top.
Print Assumptions C19_env_iteration.
Print Assumptions C19_env_size.
Print Assumptions C19_env_project.
Print Assumptions C19_env_rename.
Print Assumptions C19_env_leq.
Print Assumptions C19_env_join_like.
Print Assumptions C19_env_join_kv.
Print Assumptions C19_env_meet_like.
Print Assumptions C19_itv_set.
Print Assumptions C19_itv_join_kv.
Print Assumptions C19_itv_join.
Print Assumptions C19_itv_widen.
Print Assumptions C19_itv_widen_thresholds.
Print Assumptions C19_itv_meet.
Print Assumptions C19_itv_narrow.
Print Assumptions C19_itv_leq.
Print Assumptions C19_itv_is_top.
Print Assumptions C19_itv_iteration.
Print Assumptions C19_itv_project.
Print Assumptions C19_itv_rename.
Print Assumptions C19_itv_any_history.
Print Assumptions C19_itv_example.
Print Assumptions C19_set_add.
Print Assumptions C19_set_remove.
Print Assumptions C19_set_union.
Print Assumptions C19_set_intersection.
Print Assumptions C19_set_subset.
Print Assumptions C19_set_equal.
Print Assumptions C19_set_iteration.
Print Assumptions C19_dset_membership.
Print Assumptions C19_dset_union.
Print Assumptions C19_dset_intersection.
Print Assumptions C19_dset_difference.
Print Assumptions C19_dset_add.
Print Assumptions C19_dset_remove.
Print Assumptions C19_dset_subset.
Print Assumptions C19_dset_equal.
Print Assumptions C19_dset_size.
Print Assumptions C19_set_any_history.
Print Assumptions C19_dset_any_history.
Print Assumptions C19_set_example.
Print Assumptions C19_compare_before_fix_refuted.
Print Assumptions C19_join_kv_before_fix_refuted.
Print Assumptions C19_dset_equal_before_fix_refuted.
