(* Property C09, additions: the model of the top-down analyzer is sound without the checker
   (to be merged into Props/Properties_C09.v; replaces the Definition C09_model_statement). *)
From Coq Require Import ZArith NArith List Bool Arith Lia.
From CrabV Require Import Base.ZInf Scalar.Itv Ir.Syntax Ir.Cfg Dom.ItvEnv Dom.ItvEnvSound Dom.ItvDomain
     Fix.Wto Ana.Transformer Ana.InterSyntax Ana.InterSem Ana.InterTD Ana.InterTDSound
     Ana.InterTDModelSound Ana.InterTDRecset.
Import ListNotations.

(* the model's own result is sound, directly (no checker), when max_call_contexts is not bounded:
   any program, call graph (recursion included), exact_summary_reuse, widening delay, descending
   iterations, fuels; entries and recursive set as the analyzer computes them *)
Theorem C09_model_sound :
  forall p voff exact delay desc efuel wtos rs depth init,
  iprog_wfb p voff = true ->
  (forall f, f < length p -> build (fn_graph (get_fn p f)) 0 = Some (wtos f)) ->
  cg_recset p = Some rs ->
  let g := td_run p voff None exact delay desc efuel wtos rs depth (cg_entries p) init in
  g_err g = false ->
  forall Init : store -> Prop, (forall s, Init s -> genv init s) ->
  (forall f n s, IRPre p (cg_entries p) Init f n s -> genv (g_pre g f n) s) /\
  (forall f n s, IRPost p (cg_entries p) Init f n s -> genv (g_post g f n) s) /\
  (forall sm, In sm (g_summaries p g) ->
     forall s0 s1, genv (s_pre sm) s0 -> exec_fun p (s_fn sm) s0 s1 -> genv (s_post sm) s1).
Proof. exact td_model_sound_cfg. Qed.

(* any list of entry functions, any recursive set that contains the functions reachable from
   the entries that lie on a call graph cycle *)
Theorem C09_model_sound_any_entries :
  forall p voff exact delay desc efuel wtos recset depth entries init,
  iprog_wfb p voff = true ->
  (forall f, f < length p -> build (fn_graph (get_fn p f)) 0 = Some (wtos f)) ->
  (forall f, In f entries -> f < length p) ->
  (forall f, cg_reach p entries f -> cg_path p f f -> In f recset) ->
  let g := td_run p voff None exact delay desc efuel wtos recset depth entries init in
  g_err g = false ->
  forall Init : store -> Prop, (forall s, Init s -> genv init s) ->
  (forall f n s, IRPre p entries Init f n s -> genv (g_pre g f n) s) /\
  (forall f n s, IRPost p entries Init f n s -> genv (g_post g f n) s) /\
  (forall sm, In sm (g_summaries p g) ->
     forall s0 s1, genv (s_pre sm) s0 -> exec_fun p (s_fn sm) s0 s1 -> genv (s_post sm) s1).
Proof. exact td_model_sound. Qed.

(* the recursive set of the model contains every function reachable from an entry that lies on a
   call graph cycle *)
Theorem C09_recursive_set_complete :
  forall p rs, cg_recset p = Some rs ->
  forall f, cg_reach p (cg_entries p) f -> cg_path p f f -> In f rs.
Proof. exact cg_recset_ok. Qed.

(* non-vacuity 1: the hypotheses of C09_model_sound hold for
   f(a,b){ r := a - b }; main { a := 1; b := 10; q := f(b,a) } (caller and callee share names) *)
Example C09_model_sound_example :
  let p := [mkFunc [] [] [[IBase (SAssign 0%N (mkLE [] 1%Z)); IBase (SAssign 1%N (mkLE [] 10%Z));
                           ICall [3%N] 1 [1%N; 0%N]]] [] (Some 0);
            mkFunc [0%N; 1%N] [2%N] [[IBase (SArith OpSub 2%N 0%N (OVar 1%N))]] [] (Some 0)] in
  let voff := prog_voff p in
  exists w0 w1 rs,
    build (fn_graph (get_fn p 0)) 0 = Some w0 /\ build (fn_graph (get_fn p 1)) 0 = Some w1 /\
    cg_recset p = Some rs /\
    let wtos := fun f => if Nat.eqb f 0 then w0 else w1 in
    let g := td_run p voff None true 2 2 100 wtos rs 5 (cg_entries p) e_top in
    iprog_wfb p voff = true /\
    (forall f, f < length p -> build (fn_graph (get_fn p f)) 0 = Some (wtos f)) /\
    g_err g = false /\
    length (g_summaries p g) = 1 /\
    e_at (g_post g 0 0) 3%N = mkI (Fin 9%Z) (Fin 9%Z).
Proof.
  cbv zeta. eexists. eexists. eexists.
  split; [vm_compute; reflexivity|]. split; [vm_compute; reflexivity|]. split; [vm_compute; reflexivity|].
  split; [vm_compute; reflexivity|]. split.
  { intros f L. destruct f as [|[|f]]; [vm_compute; reflexivity|vm_compute; reflexivity|cbn in L; lia]. }
  vm_compute. repeat split; reflexivity.
Qed.

(* non-vacuity 2, recursion: f(a){ if (a >= 1) r := f(a-1) else r := 0 }; main { x := 5; y := f(x) }:
   f is in the recursive set, the model terminates without error, so by C09_model_sound its
   tables contain the states of all the recursive activations *)
Example C09_model_sound_example_recursive :
  let p := [mkFunc [] [] [[IBase (SAssign 4%N (mkLE [] 5%Z)); ICall [5%N] 1 [4%N]]] [] (Some 0);
            mkFunc [0%N] [1%N]
                   [[];
                    [IBase (SAssume (mkLC INEQ (mkLE [((-1)%Z, 0%N)] 1%Z)));
                     IBase (SArith OpSub 2%N 0%N (OCst 1%Z)); ICall [1%N] 1 [2%N]];
                    [IBase (SAssume (mkLC INEQ (mkLE [(1%Z, 0%N)] 0%Z))); IBase (SAssign 1%N (mkLE [] 0%Z))];
                    []]
                   [(0, 1); (0, 2); (1, 3); (2, 3)] (Some 3)] in
  let voff := prog_voff p in
  exists w0 w1,
    build (fn_graph (get_fn p 0)) 0 = Some w0 /\ build (fn_graph (get_fn p 1)) 0 = Some w1 /\
    cg_recset p = Some [1] /\ cg_entries p = [0] /\
    let wtos := fun f => if Nat.eqb f 0 then w0 else w1 in
    let g := td_run p voff None true 2 2 100 wtos [1] 5 (cg_entries p) e_top in
    iprog_wfb p voff = true /\
    (forall f, f < length p -> build (fn_graph (get_fn p f)) 0 = Some (wtos f)) /\
    g_err g = false /\
    (forall Init : store -> Prop, forall f n s, IRPre p (cg_entries p) Init f n s -> genv (g_pre g f n) s).
Proof.
  cbv zeta. eexists. eexists.
  split; [vm_compute; reflexivity|]. split; [vm_compute; reflexivity|].
  split; [vm_compute; reflexivity|]. split; [vm_compute; reflexivity|].
  match goal with |- ?A /\ ?B /\ ?C /\ ?D =>
    assert (HA : A) by (vm_compute; reflexivity);
    assert (HB : B) by (intros f L; destruct f as [|[|f]]; [vm_compute; reflexivity|vm_compute; reflexivity|cbn in L; lia]);
    assert (HC : C) by (vm_compute; reflexivity)
  end.
  split; [exact HA|]. split; [exact HB|]. split; [exact HC|].
  intros Init f n s R.
  refine (proj1 (C09_model_sound _ _ true 2 2 100 _ [1] 5 e_top HA HB _ HC Init _) f n s R).
  - vm_compute. reflexivity.
  - intros; apply genv_top.
Qed.

(* a recursive ENTRY function with an initial value that is not top (fixes/inter-6): the only
   function f(a) { if (a >= 1) r := f(a - 1) else r := 0 } started with a = 5 is analysed from
   top; the activation with a = 4 is in the table of block 0 and block 2 (a <= 0) is reachable *)
Theorem C09_recursive_entry_example :
  exists w0 rs s,
    build (fn_graph (get_fn re_prog 0)) 0 = Some w0 /\ cg_recset re_prog = Some rs /\
    cg_entries re_prog = [0] /\ iprog_wfb re_prog (prog_voff re_prog) = true /\
    let g := td_run re_prog (prog_voff re_prog) None true 2 2 100 (fun _ => w0) rs 5 [0] re_init in
    g_err g = false /\
    IRPre re_prog [0] (genv re_init) 0 0 s /\ s 0%N = 4%Z /\ genv (g_pre g 0 0) s /\
    e_at (g_pre g 0 0) 0%N = itop /\ e_at (g_post g 0 2) 0%N = mkI MInf (Fin 0%Z).
Proof. exact recursive_entry_example. Qed.

Print Assumptions C09_model_sound.
Print Assumptions C09_recursive_entry_example.
Print Assumptions C09_model_sound_any_entries.
Print Assumptions C09_recursive_set_complete.
Print Assumptions C09_model_sound_example.
Print Assumptions C09_model_sound_example_recursive.
