(* Property C12 — intervals, zones and octagons are exact on their constraint language.

   "After assuming any conjunction of constraints of the domain's language over the integers
   (+-x <= k for intervals; additionally x - y <= k for zones; additionally +-x +- y <= k for
   octagons), the value is bottom exactly when the conjunction is unsatisfiable and it entails a
   constraint of the language exactly when the conjunction implies it; join is the least value
   of the domain above both operands, and meet and forget are exact.  The boolean, array and
   region liftings and the reduced products never report looser variable bounds than their
   numerical base domain on straight-line numerical code."

   Models:
   - intervals: the MIRROR model of ikos::interval_domain (Dom/ItvDomain.v, solver included);
     everything below is proved about it outright (Dom/ItvExact.v);
   - zones: SPECIFICATION-level model Dom/Zone.v (closed bound matrices); exactness proved in
     Dom/ZoneSound.v through the potential construction (a closed consistent matrix has an
     integer point attaining each finite entry);
   - octagons: SPECIFICATION-level model Dom/Oct.v (2n nodes, tight closure); soundness AND
     exactness proved in Dom/OctSound.v (tight closure is complete over the integers:
     OctSound.C12_oct_exact_statement is proved as C12_oct_exact);
   - liftings: no theorem; checked by correspondence and oracle only (checks/C12.py).
   All statements are for every dimension, every constant and every history.
   Statements only. *)
From Coq Require Import ZArith NArith List Bool.
From CrabV Require Import Base.ZInf Scalar.Itv Scalar.ItvSound Ir.Syntax
     Dom.ItvEnv Dom.ItvEnvSound Dom.ItvSolver Dom.ItvDomain Dom.History Dom.ItvExact
     Dom.Zone Dom.ZoneSound Dom.Oct Dom.OctSound.
Import ListNotations.
Local Open Scope Z_scope.

(* ================================================================== intervals *)
(* assume any conjunction from top: bottom iff unsatisfiable, entails iff implied *)
Theorem C12_itv_conjunction_exact : forall cs, Forall lang cs ->
  let e := d_add cs e_top in
  (e_is_bot e = true <-> forall s, ~ Forall (fun c => sat c s) cs) /\
  (forall c, lang c ->
     (d_entails c e = true <-> forall s, Forall (fun c => sat c s) cs -> sat c s)).
Proof. exact itv_conjunction_exact. Qed.
Print Assumptions C12_itv_conjunction_exact.

(* on any value of any history: assume is exact *)
Theorem C12_itv_assume_exact : forall cs e, Forall lang cs -> ewf e ->
  ewf (d_add cs e) /\
  forall s, genv (d_add cs e) s <-> (genv e s /\ Forall (fun c => sat c s) cs).
Proof. exact d_add_lang_exact. Qed.
Print Assumptions C12_itv_assume_exact.

Theorem C12_itv_bottom_iff_unsat : forall cs e, Forall lang cs -> ewf e ->
  (e_is_bot (d_add cs e) = true <-> forall s, genv e s -> ~ Forall (fun c => sat c s) cs).
Proof. exact d_add_lang_bottom. Qed.
Print Assumptions C12_itv_bottom_iff_unsat.

Theorem C12_itv_bottom_exact : forall e, ewf e -> (e_is_bot e = true <-> forall s, ~ genv e s).
Proof. exact e_bottom_exact. Qed.
Print Assumptions C12_itv_bottom_exact.

Theorem C12_itv_entails_exact : forall c e, lang c -> ewf e ->
  (d_entails c e = true <-> forall s, genv e s -> sat c s).
Proof. exact d_entails_lang_exact. Qed.
Print Assumptions C12_itv_entails_exact.

Theorem C12_itv_solver_exact : forall cs max m, Forall lang cs -> mwfI m ->
  match solve cs max m with
  | None => forall s, gmap m s -> ~ Forall (fun c => sat c s) cs
  | Some m' => mwfI m' /\ forall s, gmap m' s <-> (gmap m s /\ Forall (fun c => sat c s) cs)
  end.
Proof. exact solve_lang_exact. Qed.
Print Assumptions C12_itv_solver_exact.

Theorem C12_itv_join_upper : forall a b s, genv a s \/ genv b s -> genv (e_join a b) s.
Proof. exact e_join_sound. Qed.
Print Assumptions C12_itv_join_upper.

Theorem C12_itv_join_least : forall a b c, ewf a -> ewf b ->
  (forall s, genv a s -> genv c s) -> (forall s, genv b s -> genv c s) ->
  forall s, genv (e_join a b) s -> genv c s.
Proof. exact e_join_least. Qed.
Print Assumptions C12_itv_join_least.

Theorem C12_itv_meet_exact : forall a b, ewf a -> ewf b ->
  ewf (e_meet a b) /\ forall s, genv (e_meet a b) s <-> (genv a s /\ genv b s).
Proof. exact e_meet_exact. Qed.
Print Assumptions C12_itv_meet_exact.

Theorem C12_itv_forget_exact : forall vs e, ewf e ->
  ewf (d_forget vs e) /\
  forall s', genv (d_forget vs e) s' <-> exists s, genv e s /\ off_eq vs s s'.
Proof. exact d_forget_exact. Qed.
Print Assumptions C12_itv_forget_exact.

(* the invariant under which the theorems above apply holds after ANY history of assumes of
   the language, joins, meets, forgets and copies *)
Theorem C12_itv_history_invariant : forall h rs,
  Forall ewf rs -> Forall ihop_ok h -> Forall ewf (hrun rs h).
Proof. exact ihrun_wf. Qed.
Print Assumptions C12_itv_history_invariant.

(* ================================================================== zones *)
Theorem C12_zone_conjunction_exact : forall n cs, Forall (z_ok n) cs ->
  let z := z_assume n cs (z_top n) in
  (z_is_bot z = true <-> forall s, ~ Forall (fun c => sat c s) cs) /\
  (forall c, z_ok n c ->
     (z_entails c z = true <-> forall s, Forall (fun c => sat c s) cs -> sat c s)).
Proof. exact zone_conjunction_exact. Qed.
Print Assumptions C12_zone_conjunction_exact.

(* every operation is exact (assume, in-language assignments, forget, meet; join = least upper
   bound) on values satisfying the invariant, which top satisfies and every operation keeps *)
Theorem C12_zone_exact : forall n, (0 < n)%nat ->
  exact_dom (zone_dom n) (zwf n) gamma (z_ok n) (za_ok n) (fun v => (node v < n)%nat).
Proof. exact zone_exact_dom. Qed.
Print Assumptions C12_zone_exact.

Theorem C12_zone_history_invariant : forall n, (0 < n)%nat -> forall h rs,
  Forall (zwf n) rs ->
  Forall (gop_ok (z_ok n) (za_ok n) (fun v => (node v < n)%nat)) h ->
  Forall (zwf n) (grun (zone_dom n) rs h).
Proof. exact zone_history_invariant. Qed.
Print Assumptions C12_zone_history_invariant.

Theorem C12_zone_step_exact : forall n, (0 < n)%nat -> forall rs o,
  Forall (zwf n) rs -> gop_ok (z_ok n) (za_ok n) (fun v => (node v < n)%nat) o ->
  (gtarget o < length rs)%nat ->
  step_spec (zone_dom n) (zwf n) gamma rs o (gget (zone_dom n) (gstep (zone_dom n) rs o) (gtarget o)).
Proof. exact zone_step_exact. Qed.
Print Assumptions C12_zone_step_exact.

Theorem C12_zone_bottom_exact : forall n z, zwf n z ->
  (z_is_bot z = true <-> forall s, ~ gamma z s).
Proof. exact zone_bottom_exact. Qed.
Print Assumptions C12_zone_bottom_exact.

Theorem C12_zone_entails_exact : forall n c z, zwf n z -> z_ok n c ->
  (z_entails c z = true <-> forall s, gamma z s -> sat c s).
Proof. exact z_entails_exact. Qed.
Print Assumptions C12_zone_entails_exact.

(* the potential construction *)
Theorem C12_zone_integer_point : forall n m, mwf n m -> exists s, gmat m s.
Proof. exact mwf_inhabited. Qed.
Print Assumptions C12_zone_integer_point.

Theorem C12_zone_entry_attained : forall n m i j k, mwf n m -> (i < n)%nat -> (j < n)%nat ->
  mget m i j = Some k -> exists s, gmat m s /\ val s j - val s i = k.
Proof. exact entry_attained. Qed.
Print Assumptions C12_zone_entry_attained.

Theorem C12_zone_entry_unbounded : forall n m i j K, mwf n m -> (i < n)%nat -> (j < n)%nat ->
  mget m i j = None -> exists s, gmat m s /\ val s j - val s i >= K.
Proof. exact entry_unbounded. Qed.
Print Assumptions C12_zone_entry_unbounded.

(* at(v) is the tightest interval *)
Theorem C12_zone_at_upper_exact : forall n m v, mwf n m -> (node v < n)%nat -> (0 < n)%nat ->
  match z_upper (ZM m) v with
  | Some u => (forall s, gmat m s -> s v <= u) /\ exists s, gmat m s /\ s v = u
  | None => forall K, exists s, gmat m s /\ s v >= K
  end.
Proof. exact z_upper_exact. Qed.
Print Assumptions C12_zone_at_upper_exact.

Theorem C12_zone_at_lower_exact : forall n m v, mwf n m -> (node v < n)%nat -> (0 < n)%nat ->
  match z_lower (ZM m) v with
  | Some l => (forall s, gmat m s -> l <= s v) /\ exists s, gmat m s /\ s v = l
  | None => forall K, exists s, gmat m s /\ s v <= K
  end.
Proof. exact z_lower_exact. Qed.
Print Assumptions C12_zone_at_lower_exact.

(* join is least among ALL bound matrices of the dimension, closed or not *)
Theorem C12_zone_join_least : forall n a b c, zwf n a -> zwf n b -> zdim n c ->
  (forall s, gamma a s -> gamma c s) -> (forall s, gamma b s -> gamma c s) ->
  forall s, gamma (z_join n a b) s -> gamma c s.
Proof. exact z_join_least. Qed.
Print Assumptions C12_zone_join_least.

Theorem C12_zone_meet_exact : forall n a b, zwf n a -> zwf n b ->
  zwf n (z_meet n a b) /\ (forall s, gamma (z_meet n a b) s <-> (gamma a s /\ gamma b s)).
Proof. exact z_meet_spec. Qed.
Print Assumptions C12_zone_meet_exact.

Theorem C12_zone_forget_exact : forall n vs z s', zwf n z ->
  Forall (fun v => (node v < n)%nat) vs ->
  (gamma (z_forget n vs z) s' <-> exists s, gamma z s /\ store_eq_off vs s s').
Proof. exact z_forget_exact. Qed.
Print Assumptions C12_zone_forget_exact.

Theorem C12_zone_inclusion_exact : forall n a b, zwf n a -> zdim n b ->
  (z_leq n a b = true <-> forall s, gamma a s -> gamma b s).
Proof. exact z_leq_exact. Qed.
Print Assumptions C12_zone_inclusion_exact.

Theorem C12_zone_is_top_exact : forall n z, zwf n z ->
  (z_is_top n z = true <-> forall s, gamma z s).
Proof. exact z_is_top_exact. Qed.
Print Assumptions C12_zone_is_top_exact.

(* ================================================================== octagons *)
(* every operation of the octagon specification keeps every integer point (closure steps,
   integer tightening, strengthening, join, meet, forget, assignments) ... *)
Theorem C12_oct_sound : forall n, sound_dom (oct_dom n) ogamma (fun _ => True).
Proof. exact oct_sound_dom. Qed.
Print Assumptions C12_oct_sound.

(* ... hence after ANY history every register describes every store that the corresponding
   concrete operations reach; in particular it is bottom only if no store is reachable *)
Theorem C12_oct_history_sound : forall n h rs cs,
  grel (oct_dom n) ogamma rs cs -> Forall (gop_okc (fun _ => True)) h ->
  grel (oct_dom n) ogamma (grun (oct_dom n) rs h) (fold_left cstepg h cs).
Proof. exact oct_history_sound. Qed.
Print Assumptions C12_oct_history_sound.

Theorem C12_oct_tight_closure_sound : forall n z s, ogamma z s -> ogamma (o_close n z) s.
Proof. exact o_close_sound. Qed.
Print Assumptions C12_oct_tight_closure_sound.

Theorem C12_oct_entails_sound : forall c z s, o_entails c z = true -> ogamma z s -> sat c s.
Proof. exact o_entails_sound. Qed.
Print Assumptions C12_oct_entails_sound.

Theorem C12_oct_at_upper_sound : forall z v s u, ogamma z s -> o_upper z v = Some u -> s v <= u.
Proof. exact o_upper_sound. Qed.
Print Assumptions C12_oct_at_upper_sound.

Theorem C12_oct_at_lower_sound : forall z v s l, ogamma z s -> o_lower z v = Some l -> l <= s v.
Proof. exact o_lower_sound. Qed.
Print Assumptions C12_oct_at_lower_sound.

Theorem C12_oct_inclusion_sound : forall n a b s, zdim n b ->
  o_leq n a b = true -> ogamma a s -> ogamma b s.
Proof. exact o_leq_sound. Qed.
Print Assumptions C12_oct_inclusion_sound.

(* the constraints of the language mean what their edges say (both directions) *)
Theorem C12_oct_language : forall c es s,
  oct_edges c = Some es -> (sat c s <-> Forall (oedge_holds s) es).
Proof. exact oct_edges_spec. Qed.
Print Assumptions C12_oct_language.

(* EXACTNESS: an invariant, established by top and kept by every operation of the language,
   under which every operation is exact, bottom means "no integer point" and entails means
   "implied over the integers" *)
Theorem C12_oct_exact : C12_oct_exact_statement.
Proof. exact oct_exact. Qed.
Print Assumptions C12_oct_exact.

Theorem C12_oct_conjunction_exact : forall n cs, Nat.even n = true -> Forall (o_ok n) cs ->
  let z := o_assume n cs (o_top n) in
  (z_is_bot z = true <-> forall s, ~ Forall (fun c => sat c s) cs) /\
  (forall c, o_ok n c ->
     (o_entails c z = true <-> forall s, Forall (fun c => sat c s) cs -> sat c s)).
Proof. exact oct_conjunction_exact. Qed.
Print Assumptions C12_oct_conjunction_exact.

Theorem C12_oct_exact_operations : forall n, Nat.even n = true ->
  exact_dom (oct_dom n) (ozwf n) ogamma (o_ok n) (oa_ok n) (fun v => (nnode v < n)%nat).
Proof. exact oct_exact_dom. Qed.
Print Assumptions C12_oct_exact_operations.

Theorem C12_oct_history_invariant : forall n, Nat.even n = true -> forall h rs,
  Forall (ozwf n) rs ->
  Forall (gop_ok (o_ok n) (oa_ok n) (fun v => (nnode v < n)%nat)) h ->
  Forall (ozwf n) (grun (oct_dom n) rs h).
Proof. exact oct_history_invariant. Qed.
Print Assumptions C12_oct_history_invariant.

Theorem C12_oct_step_exact : forall n, Nat.even n = true -> forall rs o,
  Forall (ozwf n) rs -> gop_ok (o_ok n) (oa_ok n) (fun v => (nnode v < n)%nat) o ->
  (gtarget o < length rs)%nat ->
  step_spec (oct_dom n) (ozwf n) ogamma rs o (gget (oct_dom n) (gstep (oct_dom n) rs o) (gtarget o)).
Proof. exact oct_step_exact. Qed.
Print Assumptions C12_oct_step_exact.

Theorem C12_oct_bottom_exact : forall n z, Nat.even n = true -> ozwf n z ->
  (z_is_bot z = true <-> forall s, ~ ogamma z s).
Proof. exact oct_bottom_exact. Qed.
Print Assumptions C12_oct_bottom_exact.

Theorem C12_oct_entails_exact : forall n c z, Nat.even n = true -> ozwf n z -> o_ok n c ->
  (o_entails c z = true <-> forall s, ogamma z s -> sat c s).
Proof. exact o_entails_exact. Qed.
Print Assumptions C12_oct_entails_exact.

(* the tight closure of a closed coherent matrix satisfies the invariant and keeps exactly the
   integer points *)
Theorem C12_oct_tight_closure_invariant : forall n m, Nat.even n = true -> mwf n m ->
  coherent (mget m) -> ozwf n (o_close n (ZM m)).
Proof. exact o_close_owf. Qed.
Print Assumptions C12_oct_tight_closure_invariant.

Theorem C12_oct_tight_closure_exact : forall n m, Nat.even n = true -> mwf n m ->
  forall s, ogamma (o_close n (ZM m)) s <-> gfun (mget m) (oval s).
Proof. exact o_close_gamma. Qed.
Print Assumptions C12_oct_tight_closure_exact.

Theorem C12_oct_integer_point : forall n m, Nat.even n = true -> mwf n m -> coherent (mget m) ->
  feasible (mget m) -> exists s, gfun (mget m) (oval s).
Proof. exact oct_inhabited. Qed.
Print Assumptions C12_oct_integer_point.

Theorem C12_oct_entry_attained : forall n m i j k, Nat.even n = true -> owf n m ->
  (i < n)%nat -> (j < n)%nat ->
  mget m i j = Some k -> exists s, gfun (mget m) (oval s) /\ oval s j - oval s i = k.
Proof. exact oct_entry_attained. Qed.
Print Assumptions C12_oct_entry_attained.

Theorem C12_oct_join_least : forall n a b c, Nat.even n = true -> ozwf n a -> ozwf n b -> zdim n c ->
  (forall s, ogamma a s -> ogamma c s) -> (forall s, ogamma b s -> ogamma c s) ->
  forall s, ogamma (o_join n a b) s -> ogamma c s.
Proof. exact o_join_least. Qed.
Print Assumptions C12_oct_join_least.

Theorem C12_oct_meet_exact : forall n a b, Nat.even n = true -> ozwf n a -> ozwf n b ->
  ozwf n (o_meet n a b) /\ forall s, ogamma (o_meet n a b) s <-> (ogamma a s /\ ogamma b s).
Proof. exact o_meet_spec. Qed.
Print Assumptions C12_oct_meet_exact.

Theorem C12_oct_forget_exact : forall n vs, Nat.even n = true -> forall z s', ozwf n z ->
  Forall (fun v => (nnode v < n)%nat) vs ->
  (ogamma (o_forget n vs z) s' <-> exists s, ogamma z s /\ store_eq_off vs s s').
Proof. exact o_forget_exact. Qed.
Print Assumptions C12_oct_forget_exact.
