(* Property C09, analyze_recursive_functions = true: the model of the top-down analyzer with the
   precise handling of recursive functions (Ana/InterTDRec.v: a fixpoint over each head of the call
   graph WTO cycles, widening of the callee entry / exit, pre-fixpoint summaries, calling contexts
   of the members of a cycle) is sound without the checker. *)
From Coq Require Import ZArith NArith List Bool Arith Lia.
From CrabV Require Import Base.ZInf Scalar.Itv Ir.Syntax Ir.Cfg Dom.ItvEnv Dom.ItvEnvSound Dom.ItvDomain
     Fix.Wto Ana.Transformer Ana.InterSyntax Ana.InterSem Ana.InterTD Ana.InterTDSound
     Ana.InterTDModelSound Ana.InterTDRecset Ana.InterTDRec Ana.InterTDRecSound.
Import ListNotations.

(* the model's own result is sound, directly (no checker), when max_call_contexts is not bounded:
   any program and call graph (direct, mutual, nested recursion), exact_summary_reuse, widening
   delay, descending iterations, fuels; entries, call graph orderings, widening set and recursive
   set as the analyzer computes them.  rec_run_checked = rec_run when the executable side
   conditions rec_cfg_okb hold (it sets the error flag otherwise): the call graph orderings nest the
   call graph cycles, an entry function of the recursive set is a head, the entry block of a head
   is not a loop head of its CFG *)
Theorem C09_rec_model_sound :
  forall p voff exact delay desc efuel ifuel wtos rs depth init,
  iprog_wfb p voff = true ->
  (forall f, f < length p -> build (fn_graph (get_fn p f)) 0 = Some (wtos f)) ->
  cg_recset p = Some rs ->
  let g := rec_run_checked p voff None exact delay desc efuel ifuel wtos (cg_wto p) (cg_wset p) rs depth
                           (cg_entries p) init in
  g_err (r_g g) = false ->
  forall Init : store -> Prop, (forall s, Init s -> genv init s) ->
  (forall f n s, IRPre p (cg_entries p) Init f n s -> genv (g_pre (r_g g) f n) s) /\
  (forall f n s, IRPost p (cg_entries p) Init f n s -> genv (g_post (r_g g) f n) s) /\
  (forall sm, In sm (g_summaries p (r_g g)) ->
     forall s0 s1, genv (s_pre sm) s0 -> exec_fun p (s_fn sm) s0 s1 -> genv (s_post sm) s1).
Proof. exact td_rec_model_sound_cfg. Qed.

(* any list of entry functions, call graph orderings, widening set and recursive set that pass the
   executable side conditions, the recursive set containing the functions reachable from the
   entries that lie on a call graph cycle *)
Theorem C09_rec_model_sound_any_config :
  forall p voff exact delay desc efuel ifuel wtos cgwto wset recset depth entries init,
  iprog_wfb p voff = true ->
  (forall f, f < length p -> build (fn_graph (get_fn p f)) 0 = Some (wtos f)) ->
  (forall f, In f entries -> f < length p) ->
  (forall f, cg_reach p entries f -> cg_path p f f -> In f recset) ->
  let g := rec_run_checked p voff None exact delay desc efuel ifuel wtos cgwto wset recset depth entries init in
  g_err (r_g g) = false ->
  forall Init : store -> Prop, (forall s, Init s -> genv init s) ->
  (forall f n s, IRPre p entries Init f n s -> genv (g_pre (r_g g) f n) s) /\
  (forall f n s, IRPost p entries Init f n s -> genv (g_post (r_g g) f n) s) /\
  (forall sm, In sm (g_summaries p (r_g g)) ->
     forall s0 s1, genv (s_pre sm) s0 -> exec_fun p (s_fn sm) s0 s1 -> genv (s_post sm) s1).
Proof. exact td_rec_model_sound. Qed.

(* the side condition on the call graph orderings is what the proof needs: in the ordering of the
   call graph built from an entry function e, a call graph cycle through a function f that is not a head goes
   through a head of the nesting of f *)
Theorem C09_rec_nesting_condition :
  forall p voff cgwto wset entries, iprog_wfb p voff = true -> nest_okb p cgwto wset entries = true ->
  forall e f hs K, In e entries -> nesting (cgwto e) f = Some hs -> ~ In f wset -> reach p e f ->
    chain p (f :: K) -> cg_edge p (last K f) f -> exists m, In m hs /\ In m K.
Proof. exact nest_okb_sound. Qed.

(* non-vacuity, and precise recursion is better than top:
     main { havoc x; assume 0 <= x <= 5; y := f(x) }
     f(a) -> r { if (a >= 1) { t := a - 1; r := f(t); r := r + 1 } else { r := 0 } }
   the side conditions hold, the model terminates without error, stores the summary
   a in [0,5] => r >= 0 and reports y >= 0 after the call; the imprecise mode (td_run) analyses f
   from top and reports nothing about y.  By C09_rec_model_sound the tables of the precise run
   contain the states of all the recursive activations. *)
Example C09_rec_example :
  let p := [mkFunc [] [] [[IBase (SHavoc 3%N);
                    IBase (SAssume (mkLC INEQ (mkLE [((-1)%Z, 3%N)] 0%Z)));
                    IBase (SAssume (mkLC INEQ (mkLE [(1%Z, 3%N)] (-5)%Z)));
                    ICall [4%N] 1 [3%N]]] [] (Some 0);
     mkFunc [0%N] [1%N]
            [[];
             [IBase (SAssume (mkLC INEQ (mkLE [((-1)%Z, 0%N)] 1%Z)));
              IBase (SArith OpSub 2%N 0%N (OCst 1%Z)); ICall [1%N] 1 [2%N];
              IBase (SArith OpAdd 1%N 1%N (OCst 1%Z))];
             [IBase (SAssume (mkLC INEQ (mkLE [(1%Z, 0%N)] 0%Z))); IBase (SAssign 1%N (mkLE [] 0%Z))];
             []]
            [(0, 1); (0, 2); (1, 3); (2, 3)] (Some 3)] in
  let voff := prog_voff p in
  exists w0 w1,
    build (fn_graph (get_fn p 0)) 0 = Some w0 /\ build (fn_graph (get_fn p 1)) 0 = Some w1 /\
    cg_recset p = Some [1] /\ cg_wset p = [1] /\ cg_entries p = [0] /\
    let wtos := fun f => if Nat.eqb f 0 then w0 else w1 in
    let g := rec_run_checked p voff None true 2 2 100 50 wtos (cg_wto p) (cg_wset p) [1] 5 (cg_entries p) e_top in
    let g' := td_run p voff None true 2 2 100 wtos [1] 5 (cg_entries p) e_top in
    iprog_wfb p voff = true /\
    (forall f, f < length p -> build (fn_graph (get_fn p f)) 0 = Some (wtos f)) /\
    rec_cfg_okb p wtos (cg_wto p) (cg_wset p) [1] (cg_entries p) = true /\
    g_err (r_g g) = false /\
    map (fun sm => (s_fn sm, e_at (s_pre sm) 0%N, e_at (s_post sm) 1%N)) (g_summaries p (r_g g)) =
      [(1, mkI (Fin 0%Z) (Fin 5%Z), mkI (Fin 0%Z) PInf)] /\
    e_at (g_post (r_g g) 0 0) 4%N = mkI (Fin 0%Z) PInf /\
    e_at (g_pre (r_g g) 1 0) 0%N = mkI (Fin 0%Z) (Fin 5%Z) /\
    g_err g' = false /\ e_at (g_post g' 0 0) 4%N = itop /\ e_at (g_pre g' 1 0) 0%N = itop /\
    (forall Init : store -> Prop, forall f n s, IRPre p (cg_entries p) Init f n s -> genv (g_pre (r_g g) f n) s).
Proof.
  cbv zeta. eexists. eexists.
  split; [vm_compute; reflexivity|]. split; [vm_compute; reflexivity|].
  split; [vm_compute; reflexivity|]. split; [vm_compute; reflexivity|]. split; [vm_compute; reflexivity|].
  match goal with |- ?A /\ ?B /\ ?C /\ ?D /\ ?E =>
    assert (HA : A) by (vm_compute; reflexivity);
    assert (HB : B) by (intros f L; destruct f as [|[|f]]; [vm_compute; reflexivity|vm_compute; reflexivity|cbn in L; lia]);
    assert (HC : C) by (vm_compute; reflexivity);
    assert (HD : D) by (vm_compute; reflexivity)
  end.
  split; [exact HA|]. split; [exact HB|]. split; [exact HC|]. split; [exact HD|].
  split; [vm_compute; reflexivity|]. split; [vm_compute; reflexivity|]. split; [vm_compute; reflexivity|].
  split; [vm_compute; reflexivity|]. split; [vm_compute; reflexivity|]. split; [vm_compute; reflexivity|].
  intros Init f n s R.
  refine (proj1 (C09_rec_model_sound _ _ true 2 2 100 50 _ [1] 5 e_top HA HB _ HD Init _) f n s R).
  - vm_compute. reflexivity.
  - intros; apply genv_top.
Qed.

Print Assumptions C09_rec_model_sound.
Print Assumptions C09_rec_model_sound_any_config.
Print Assumptions C09_rec_nesting_condition.
Print Assumptions C09_rec_example.
