(* Properties C03 / C04 (and the lifting clause of C12) for the boolean domain
   crab::domains::flat_boolean_numerical_domain<interval_domain<z_number>>.
   Model: Dom/FlatBool.v (mirror of flat_boolean_domain.hpp after the repairs bool-1 .. bool-9:
   flat Boolean environment x interval domain with the bottom flag and lazy canonicalisation of
   basic_domain_product2, the constraints remembered by b := cst, the implied Booleans, the
   unchanged variables), tied to the code by the correspondence stream bool-itv-histories.
   Concrete states: pairs (integer store, Boolean store).  gfb st s t = the abstract value st
   describes the pair (s, t): the product describes both stores; for every Boolean b and every
   constraint c remembered for b, c is well formed and, if all its variables are unchanged,
   t b = true <-> c holds on s; b true implies b' true for every b' remembered for b.
   Statements only. *)
From Coq Require Import ZArith NArith List Bool.
From CrabV Require Import Base.ZInf Scalar.Itv Scalar.ItvSound Ir.Syntax Dom.ItvEnv Dom.ItvEnvSound
     Dom.ItvSolver Dom.ItvSolverSound Dom.ItvDomain Dom.ItvDomainSound Dom.History Dom.HistorySound
     Dom.FlatBool Dom.FlatBoolSound.
Import ListNotations.
Local Open Scope Z_scope.

(* C03.  Starting from top in every register and applying ANY finite history over several
   registers (all numerical operations, casts between integers and Booleans, b := cst,
   b := b' / not b', and / or / xor, select_bool, assume_bool of both polarities, weak Boolean
   assignments, havoc, forget / project / rename / expand, join, meet, widening with and
   without thresholds, narrowing, copies), every register describes every pair of stores
   obtained by the corresponding concrete operations (fcstep; a Boolean variable lives in the
   Boolean store, an integer variable in the integer store, isb gives the types).  fhist_ok
   (fhop_ok at every step) asks for well-typed use within the preconditions of the API:
   constraints in canonical form; casts integer -> integer, integer -> Boolean (trunc) and
   Boolean -> integer (zext / sext); rename with distinct, unbound new names, each of the type
   of the variable it replaces; the renamed / expanded variables are not bound in the
   component of the other type. *)
Theorem C03_flatbool_history_sound : forall isb h n,
  fhist_ok isb (repeat fb_top n) h ->
  frel (frun isb (repeat fb_top n) h) (fold_left (fcstep isb) h (repeat (fun _ _ => True) n)).
Proof. exact fhistory_sound_top. Qed.

Theorem C03_flatbool_history_sound_from_any_state : forall isb h rs cs,
  frel rs cs -> fhist_ok isb rs h -> frel (frun isb rs h) (fold_left (fcstep isb) h cs).
Proof. exact fhistory_sound. Qed.

(* consequently the answers are sound *)
Theorem C03_flatbool_boolean_query_sound : forall rs cs r s t b,
  frel rs cs -> fcget cs r s t -> gbv (fb_bool_at (frget rs r) b) (t b).
Proof. exact frel_bool_at. Qed.
Theorem C03_flatbool_not_bottom_while_a_state_exists : forall rs cs r s t,
  frel rs cs -> fcget cs r s t -> fb_is_bot (frget rs r) = false.
Proof. exact frel_not_bot. Qed.
Theorem C03_flatbool_entails_sound : forall rs cs r s t c,
  frel rs cs -> fcget cs r s t -> wf_lc c -> fb_entails c (frget rs r) = true -> sat c s.
Proof. exact frel_entails. Qed.
(* at(v): the integer value of a variable about which nothing Boolean is known, the 0/1 value
   of a variable about which nothing numerical is known *)
Theorem C03_flatbool_at_sound_integer : forall st s t v, gfb st s t ->
  be_at (p_fst (f_prod st)) v = BvTop -> gamma (fb_at st v) (s v).
Proof. exact fb_at_sound_int. Qed.
Theorem C03_flatbool_at_sound_boolean : forall st s t v, gfb st s t ->
  is_top (e_at (p_snd (f_prod st)) v) = true -> gamma (fb_at st v) (b2z (t v)).
Proof. exact fb_at_sound_bool. Qed.
Theorem C03_flatbool_exported_constraints_sound : forall st s t c,
  gfb st s t -> In c (fb_to_csts st) -> sat c s \/ bool_cst t c.
Proof. exact fb_to_csts_sound. Qed.

(* per-operation soundness of the Boolean operations *)
Theorem C03_flatbool_assign_bool_cst_sound : forall x c st s t,
  wf_lc c -> gfb st s t -> gfb (fb_assign_bool_cst x c st) s (bupd t x (satb c s)).
Proof. exact fb_assign_bool_cst_sound. Qed.
Theorem C03_flatbool_assign_bool_var_sound : forall x y neg st s t,
  gfb st s t -> gfb (fb_assign_bool_var x y neg st) s (bupd t x (if neg then negb (t y) else t y)).
Proof. exact fb_assign_bool_var_sound. Qed.
Theorem C03_flatbool_apply_binary_bool_sound : forall op x y z st s t,
  gfb st s t -> gfb (fb_apply_binary_bool op x y z st) s (bupd t x (bool_sem op (t y) (t z))).
Proof. exact fb_apply_binary_bool_sound. Qed.
Theorem C03_flatbool_assume_bool_sound : forall x neg st s t,
  gfb st s t -> t x = negb neg -> gfb (fb_assume_bool x neg st) s t.
Proof. exact fb_assume_bool_sound. Qed.
Theorem C03_flatbool_select_bool_sound : forall lhs cond b1 b2 st s t,
  gfb st s t ->
  gfb (fb_select_bool lhs cond b1 b2 st) s (bupd t lhs (if t cond then t b1 else t b2)).
Proof. exact fb_select_bool_sound. Qed.
Theorem C03_flatbool_assign_sound : forall x ex st s t,
  gfb st s t -> gfb (fb_assign x ex st) (upd s x (eval_le ex s)) t.
Proof. exact fb_assign_sound. Qed.
Theorem C03_flatbool_assume_sound : forall cs st s t,
  (forall c, In c cs -> wf_lc c /\ sat c s) -> gfb st s t -> gfb (fb_add cs st) s t.
Proof. exact fb_add_sound. Qed.
Theorem C03_flatbool_forget_sound : forall isb vs st s t s' t',
  gfb st s t -> typed_frame isb vs s s' t t' -> gfb (fb_forget isb vs st) s' t'.
Proof. exact fb_forget_sound. Qed.
Theorem C03_flatbool_trunc_to_bool_sound : forall dst src w st s t,
  gfb st s t -> gfb (fb_cast CTrunc dst src true false w st) s (bupd t dst (negb (s src =? 0))).
Proof. exact fb_cast_to_bool_sound. Qed.
Theorem C03_flatbool_ext_from_bool_sound : forall op dst src w st s t,
  op <> CTrunc -> gfb st s t ->
  gfb (fb_cast op dst src false true w st) (upd s dst (b2z (t src))) t.
Proof. exact fb_cast_from_bool_sound. Qed.

(* non-vacuity and the repaired behaviour (bool-2): b0 := (x <= 0); x := 5; b1 := (x <= 10);
   assume(b0) is NOT bottom and keeps x = 5 (the constraint x <= 0 remembered for b0 is not
   revived when x re-enters the unchanged variables); without the assignment, assume(b0)
   gives x <= 0.  Variables: x = 0, b0 = 1, b1 = 2. *)
Example C03_flatbool_example :
  let x := 0%N in let b0 := 1%N in let b1 := 2%N in
  let isb := fun v => N.leb 1 v in
  let h := [FBAssign 0%nat b0 (mkLC INEQ (mkLE [(1, x)] 0));          (* b0 := (x <= 0) *)
            FCopy 1%nat 0%nat;
            FAssign 0%nat x (mkLE [] 5);                              (* x := 5 *)
            FBAssign 0%nat b1 (mkLC INEQ (mkLE [(1, x)] (-10)));      (* b1 := (x <= 10) *)
            FBAssume 0%nat b0 false;                                  (* assume(b0) *)
            FBAssume 1%nat b0 false] in
  let rs := frun isb (repeat fb_top 2%nat) h in
  fhist_ok isb (repeat fb_top 2%nat) h /\
  fb_is_bot (frget rs 0%nat) = false /\
  fb_at (frget rs 0%nat) x = mkI (Fin 5) (Fin 5) /\
  fb_bool_at (frget rs 0%nat) b0 = BvTrue /\ fb_bool_at (frget rs 0%nat) b1 = BvTrue /\
  fb_at (frget rs 1%nat) x = mkI MInf (Fin 0).
Proof.
  cbv zeta. split; [|vm_compute; repeat split; reflexivity].
  cbn [fhist_ok fhop_ok fstep].
  repeat match goal with |- _ /\ _ => split end; try exact I;
    apply wf_lcb_sound; reflexivity.
Qed.

Print Assumptions C03_flatbool_history_sound.
Print Assumptions C03_flatbool_history_sound_from_any_state.
Print Assumptions C03_flatbool_boolean_query_sound.
Print Assumptions C03_flatbool_not_bottom_while_a_state_exists.
Print Assumptions C03_flatbool_entails_sound.
Print Assumptions C03_flatbool_at_sound_integer.
Print Assumptions C03_flatbool_at_sound_boolean.
Print Assumptions C03_flatbool_exported_constraints_sound.
Print Assumptions C03_flatbool_assign_bool_cst_sound.
Print Assumptions C03_flatbool_assign_bool_var_sound.
Print Assumptions C03_flatbool_apply_binary_bool_sound.
Print Assumptions C03_flatbool_assume_bool_sound.
Print Assumptions C03_flatbool_select_bool_sound.
Print Assumptions C03_flatbool_assign_sound.
Print Assumptions C03_flatbool_assume_sound.
Print Assumptions C03_flatbool_forget_sound.
Print Assumptions C03_flatbool_trunc_to_bool_sound.
Print Assumptions C03_flatbool_ext_from_bool_sound.
