(* Property C08 — scalar value abstractions are sound, interval arithmetic is tight.
   This file contains statements only; every proof is a reference to a lemma of the
   development.  Model: Scalar/Itv.v (mirror of ikos::interval<z_number>). *)
From Coq Require Import ZArith.
From CrabV Require Import Base.ZInf Scalar.Itv Scalar.ItvSound Scalar.ItvTight.
Local Open Scope Z_scope.

Theorem C08_itv_add_sound : forall a b x y, gamma a x -> gamma b y -> gamma (iadd a b) (x + y).
Proof. exact iadd_sound. Qed.
Theorem C08_itv_sub_sound : forall a b x y, gamma a x -> gamma b y -> gamma (isub a b) (x - y).
Proof. exact isub_sound. Qed.
Theorem C08_itv_neg_sound : forall a x, gamma a x -> gamma (ineg a) (- x).
Proof. exact ineg_sound. Qed.
Theorem C08_itv_mul_sound : forall a b x y, gamma a x -> gamma b y -> gamma (imul a b) (x * y).
Proof. exact imul_sound. Qed.
Theorem C08_itv_sdiv_sound :
  forall a b x y, gamma a x -> gamma b y -> y <> 0 -> gamma (idiv a b) (Z.quot x y).
Proof. exact idiv_sound. Qed.
Theorem C08_itv_srem_sound :
  forall a b x y, gamma a x -> gamma b y -> y <> 0 -> gamma (isrem a b) (Z.rem x y).
Proof. exact isrem_sound. Qed.
Theorem C08_itv_urem_sound :
  forall a b x x' y, gamma a x -> gamma b y -> 0 < y -> 0 <= x' -> (x' = x \/ x < 0) ->
  gamma (iurem a b) (Z.rem x' y).
Proof. exact iurem_sound. Qed.
Theorem C08_itv_udiv_sound : forall a b x y z, gamma a x -> gamma b y -> gamma (iudiv a b) z.
Proof. exact iudiv_sound. Qed.
Theorem C08_itv_and_sound : forall a b x y, gamma a x -> gamma b y -> gamma (iand a b) (Z.land x y).
Proof. exact iand_sound. Qed.
Theorem C08_itv_or_sound : forall a b x y, gamma a x -> gamma b y -> gamma (ior a b) (Z.lor x y).
Proof. exact ior_sound. Qed.
Theorem C08_itv_xor_sound : forall a b x y, gamma a x -> gamma b y -> gamma (ixor a b) (Z.lxor x y).
Proof. exact ixor_sound. Qed.
Theorem C08_itv_shl_sound :
  forall a b x k, gamma a x -> gamma b k -> 0 <= k -> gamma (ishl a b) (Z.shiftl x k).
Proof. exact ishl_sound. Qed.
Theorem C08_itv_ashr_sound :
  forall a b x k, gamma a x -> gamma b k -> 0 <= k -> gamma (iashr a b) (Z.shiftr x k).
Proof. exact iashr_sound. Qed.
Theorem C08_itv_lshr_sound :
  forall a b x k, gamma a x -> gamma b k -> 0 <= k ->
  forall r, (0 <= x -> r = Z.shiftr x k) -> gamma (ilshr a b) r.
Proof. exact ilshr_sound. Qed.

Theorem C08_itv_join_sound : forall a b x, gamma a x \/ gamma b x -> gamma (ijoin a b) x.
Proof. intros a b x [H|H]; [apply ijoin_sound_l | apply ijoin_sound_r]; exact H. Qed.
Theorem C08_itv_meet_exact : forall a b x, gamma (imeet a b) x <-> (gamma a x /\ gamma b x).
Proof. exact imeet_exact. Qed.
Theorem C08_itv_widen_sound : forall a b x, gamma a x \/ gamma b x -> gamma (iwiden a b) x.
Proof. exact iwiden_sound. Qed.
Theorem C08_itv_widen_thresholds_sound :
  forall gp gn a b, (forall v, ble (gp v) v = true) -> (forall v, ble v (gn v) = true) ->
  forall x, gamma a x \/ gamma b x -> gamma (iwiden_thr gp gn a b) x.
Proof. exact iwiden_thr_sound. Qed.
Theorem C08_itv_narrow_sound : forall a b x, gamma a x -> gamma b x -> gamma (inarrow a b) x.
Proof. exact inarrow_sound. Qed.
Theorem C08_itv_leq_sound : forall a b, ileq a b = true -> forall x, gamma a x -> gamma b x.
Proof. exact ileq_sound. Qed.
Theorem C08_itv_leq_complete :
  forall a b, wf a -> (forall x, gamma a x -> gamma b x) -> ileq a b = true.
Proof. exact ileq_complete. Qed.
Theorem C08_itv_eq_sound : forall a b, ieq a b = true -> forall x, gamma a x <-> gamma b x.
Proof. exact ieq_sound. Qed.
Theorem C08_itv_mem_exact : forall a n, imem a n = true <-> gamma a n.
Proof. exact imem_spec. Qed.
Theorem C08_itv_singleton_exact : forall a n, isingleton a = Some n -> forall x, gamma a x <-> x = n.
Proof. exact isingleton_spec. Qed.
Theorem C08_itv_trim_sound :
  forall i j x c, gamma i x -> isingleton j = Some c -> x <> c -> gamma (itrim i j) x.
Proof. exact itrim_sound. Qed.

(* Tightness: the result is below every interval that contains all concrete results. *)
Theorem C08_itv_add_tight : forall a b i, wf a -> wf b ->
  (forall x y, gamma a x -> gamma b y -> gamma i (x + y)) -> ileq (iadd a b) i = true.
Proof. exact iadd_tight. Qed.
Theorem C08_itv_sub_tight : forall a b i, wf a -> wf b ->
  (forall x y, gamma a x -> gamma b y -> gamma i (x - y)) -> ileq (isub a b) i = true.
Proof. exact isub_tight. Qed.
Theorem C08_itv_neg_tight : forall a i, wf a ->
  (forall x, gamma a x -> gamma i (- x)) -> ileq (ineg a) i = true.
Proof. exact ineg_tight. Qed.
Theorem C08_itv_mul_tight : forall a b i, wf a -> wf b ->
  (forall x y, gamma a x -> gamma b y -> gamma i (x * y)) -> ileq (imul a b) i = true.
Proof. exact imul_tight. Qed.
Theorem C08_itv_join_tight : forall a b i, wf a -> wf b ->
  (forall x, gamma a x \/ gamma b x -> gamma i x) -> ileq (ijoin a b) i = true.
Proof. exact ijoin_tight. Qed.
Theorem C08_itv_meet_tight : forall a b i, wf a -> wf b ->
  (forall x, gamma a x -> gamma b x -> gamma i x) -> ileq (imeet a b) i = true.
Proof. exact imeet_tight. Qed.
(* well-formedness (the representation invariant the tightness theorems assume) is
   established by the constructors and preserved *)
Theorem C08_itv_wf_preserved : forall a b, wf a -> wf b ->
  wf (iadd a b) /\ wf (isub a b) /\ wf (ineg a) /\ wf (ijoin a b) /\ wf (imeet a b).
Proof. intros a b Wa Wb. repeat split; [apply wf_iadd|apply wf_isub|apply wf_ineg|apply wf_ijoin|apply wf_imeet]; assumption. Qed.


Print Assumptions C08_itv_add_sound.
Print Assumptions C08_itv_sub_sound.
Print Assumptions C08_itv_neg_sound.
Print Assumptions C08_itv_mul_sound.
Print Assumptions C08_itv_sdiv_sound.
Print Assumptions C08_itv_srem_sound.
Print Assumptions C08_itv_urem_sound.
Print Assumptions C08_itv_udiv_sound.
Print Assumptions C08_itv_and_sound.
Print Assumptions C08_itv_or_sound.
Print Assumptions C08_itv_xor_sound.
Print Assumptions C08_itv_shl_sound.
Print Assumptions C08_itv_ashr_sound.
Print Assumptions C08_itv_lshr_sound.
Print Assumptions C08_itv_join_sound.
Print Assumptions C08_itv_meet_exact.
Print Assumptions C08_itv_widen_sound.
Print Assumptions C08_itv_widen_thresholds_sound.
Print Assumptions C08_itv_narrow_sound.
Print Assumptions C08_itv_leq_sound.
Print Assumptions C08_itv_leq_complete.
Print Assumptions C08_itv_eq_sound.
Print Assumptions C08_itv_mem_exact.
Print Assumptions C08_itv_singleton_exact.
Print Assumptions C08_itv_trim_sound.
Print Assumptions C08_itv_add_tight.
Print Assumptions C08_itv_sub_tight.
Print Assumptions C08_itv_neg_tight.
Print Assumptions C08_itv_mul_tight.
Print Assumptions C08_itv_join_tight.
Print Assumptions C08_itv_meet_tight.
Print Assumptions C08_itv_wf_preserved.
