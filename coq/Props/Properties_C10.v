(* Property C10 — bottom-up + top-down inter-procedural analysis: every summary of the bottom-up
   phase contains the (inputs, outputs) pair of each terminating concrete execution of its
   function, whatever the inputs, and the invariants of the subsequent top-down phase contain
   every concrete state reaching each block from an entry function.  Models: Ana/InterSyntax.v,
   Ana/InterSem.v, Ana/InterBU.v (mirror of bottom_up_inter_analyzer.hpp with intervals for both
   phases, after fixes/inter-2, call graphs without cycles).  Statements only.

   Proved: the verified certificate checker (ig_check of Ana/InterTD.v, instantiated by
   bu_validate: the context-insensitive tables of the top-down phase are themselves the contexts
   that cover the executions; every summary, of precondition top, is justified by tables
   recomputed from top) — ANY tables and summaries it accepts, for any call graph (recursive ones
   included), are sound.  The check runs it on the model's result and on the invariants and
   summaries exported by the implementation.
   Also proved: reuse_summary (the re-instantiation of a summary through the internal names) is
   sound for arbitrary name sharing.
   The model's own result is proved sound directly in Props/Properties_C10_model.v
   (C10_model_sound: summaries hold for every input, tables contain every reachable state, for
   non-recursive call graphs - on recursive ones the model raises its error flag).
   C10_model_statement (the model's result is always accepted by the checker) stays corresponded.
   Summary domain different from the invariant domain (zones / intervals): not modelled, covered
   by the concrete oracle only. *)
From Coq Require Import ZArith NArith List Bool Arith.
From CrabV Require Import Base.ZInf Scalar.Itv Ir.Syntax Ir.Cfg Dom.ItvEnv Dom.ItvEnvSound Dom.ItvDomain
     Fix.Wto Ana.Transformer Ana.InterSyntax Ana.InterSem Ana.InterTD Ana.InterTDSound Ana.InterBU Ana.InterBUSound.
Import ListNotations.

Theorem C10_validated_results_sound :
  forall p voff entries init tpre tpost S delay desc efuel wtos,
  bu_validate p voff entries init tpre tpost S delay desc efuel wtos = true ->
  forall Init : store -> Prop, (forall s, Init s -> genv init s) ->
  (forall f n s, IRPre p entries Init f n s -> genv (tpre f n) s) /\
  (forall f n s, IRPost p entries Init f n s -> genv (tpost f n) s) /\
  (forall sm, In sm S ->
     forall s0 s1, genv (s_pre sm) s0 -> exec_fun p (s_fn sm) s0 s1 -> genv (s_post sm) s1).
Proof. exact bu_validate_sound. Qed.

(* the summaries of the bottom-up phase hold whatever the inputs *)
Theorem C10_summary_any_input :
  forall p voff entries init tpre tpost sums delay desc efuel wtos,
  bu_validate p voff entries init tpre tpost (bu_summaries p sums) delay desc efuel wtos = true ->
  forall Init : store -> Prop, (forall s, Init s -> genv init s) ->
  forall f sum, f < length p -> sums f = Some sum ->
  forall s0 s1, exec_fun p f s0 s1 -> genv sum s1.
Proof. exact bu_summary_any_input. Qed.

(* the general checker behind both analyzers: rcerts cover the executions, scerts justify the
   summaries *)
Theorem C10_checked_results_sound :
  forall p voff entries init tpre tpost rcerts scerts,
  ig_check p voff entries init tpre tpost rcerts scerts = true ->
  forall Init : store -> Prop, (forall s, Init s -> genv init s) ->
  (forall f n s, IRPre p entries Init f n s -> genv (tpre f n) s) /\
  (forall f n s, IRPost p entries Init f n s -> genv (tpost f n) s) /\
  (forall sm, In sm (map fst scerts) ->
     forall s0 s1, genv (s_pre sm) s0 -> exec_fun p (s_fn sm) s0 s1 -> genv (s_post sm) s1).
Proof. exact ig_check_sound. Qed.

(* the re-instantiation of a summary at a callsite (bu_summ_abs_transformer::reuse_summary, through
   the internal names $0,$1,..) is sound for arbitrary name sharing between caller and callee.
   The caller's value must not constrain the internal names (the analyzer forgets them after
   every callsite) and the summary is over the formal parameters: imposed here by a forget and a
   projection *)
Theorem C10_reuse_summary_sound :
  forall voff outs ins fins fouts,
  NoDup (fins ++ fouts) -> length fins = length ins -> length fouts = length outs -> NoDup outs ->
  (forall x, In x (fins ++ fouts) -> (x < voff)%N) -> (forall x, In x ins -> (x < voff)%N) ->
  (forall x, In x outs -> (x < voff)%N) ->
  forall caller sum a s1 b, genv caller a -> genv sum s1 ->
  (forall f y, In (f, y) (combine fins ins) -> s1 f = a y) ->
  (forall k, b k = assign_outs a outs fouts s1 k) ->
  genv (bu_reuse voff outs ins fins fouts
                 (d_forget (iins voff fins ++ iouts voff fins fouts) caller)
                 (e_project sum (fins ++ fouts))) b.
Proof. exact bu_reuse_sound. Qed.

Definition C10_model_statement : Prop :=
  forall p delay desc efuel wtos init,
    let voff := prog_voff p in
    let r := bu_run p voff delay desc efuel wtos init in
    b_err r = false ->
    bu_validate p voff (cg_entries p) init (b_pre r) (b_post r) (bu_summaries p (b_sum r)) delay desc efuel wtos = true.

(* non-vacuity: f(a,b){ r := a - b }; main { a := 1; b := 10; q := f(b,a) } with a=v0 b=v1 r=v2
   q=v3: the summary of f is top on r (intervals cannot relate r to a and b), the calling context
   of f is a=10, b=1 and the tables of the top-down phase give r = 9 at the exit of f *)
Example C10_example_swapped_arguments :
  let p := [mkFunc [] [] [[IBase (SAssign 0%N (mkLE [] 1%Z)); IBase (SAssign 1%N (mkLE [] 10%Z));
                           ICall [3%N] 1 [1%N; 0%N]]] [] (Some 0);
            mkFunc [0%N; 1%N] [2%N] [[IBase (SArith OpSub 2%N 0%N (OVar 1%N))]] [] (Some 0)] in
  let voff := prog_voff p in
  exists w0 w1,
    build (fn_graph (get_fn p 0)) 0 = Some w0 /\ build (fn_graph (get_fn p 1)) 0 = Some w1 /\
    let wtos := fun f => if Nat.eqb f 0 then w0 else w1 in
    let r := bu_run p voff 2 2 100 wtos e_top in
    b_err r = false /\
    bu_validate p voff (cg_entries p) e_top (b_pre r) (b_post r) (bu_summaries p (b_sum r)) 2 2 100 wtos = true /\
    length (bu_summaries p (b_sum r)) = 1 /\
    e_at (b_pre r 1 0) 0%N = mkI (Fin 10%Z) (Fin 10%Z) /\ e_at (b_pre r 1 0) 1%N = mkI (Fin 1%Z) (Fin 1%Z) /\
    e_at (b_post r 1 0) 2%N = mkI (Fin 9%Z) (Fin 9%Z).
Proof.
  cbv zeta. eexists. eexists.
  split; [vm_compute; reflexivity|]. split; [vm_compute; reflexivity|].
  vm_compute. repeat split; reflexivity.
Qed.

Print Assumptions C10_validated_results_sound.
Print Assumptions C10_summary_any_input.
Print Assumptions C10_checked_results_sound.
Print Assumptions C10_reuse_summary_sound.
