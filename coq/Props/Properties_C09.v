(* Property C09 — top-down inter-procedural analysis: the context-insensitive invariants
   contain every reachable state and every stored (precondition, postcondition) summary is a
   summary.  Models: Ana/InterSyntax.v (programs with callsites), Ana/InterSem.v (concrete
   semantics with a call stack), Ana/InterTD.v (mirror of top_down_inter_analyzer.hpp over
   intervals, after fixes/inter-1 and inter-3).  Statements only.

   Proved: (1) the restrict / extend operations of the analyzer (get_callee_entry,
   get_caller_continuation as repaired) are sound for ARBITRARY name sharing between caller and
   callee; (2) the verified certificate checker: ANY context-insensitive tables and ANY list of
   (function, precondition, postcondition) summaries accepted by td_check — for any call graph
   (direct and mutual recursion included), any parameter setting, whatever produced them —
   contain every state in which an execution started at an entry function enters / leaves each
   block, and relate the inputs and outputs of every concrete call whose inputs satisfy the
   precondition.  The check runs td_check (through td_validate, which only builds the
   certificate) on the model's result and on the invariants and summaries exported by the
   implementation.
   The model's own result is proved sound directly, without the checker, in
   Props/Properties_C09_model.v (C09_model_sound: any call graph, direct and mutual recursion in
   the imprecise mode, any parameters and fuels, max_call_contexts unbounded).  C09_model_statement
   below (acceptance of the model's result by the checker) stays corresponded only and is
   superseded by it; with a bound on the calling contexts the statement is
   refuted on the model of the code as it is (C09_joined_contexts_refuted, known finding);
   analyze_recursive_functions = true is not mirrored (covered by the checker on the
   implementation's output and by the concrete oracle). *)
From Coq Require Import ZArith NArith List Bool Arith.
From CrabV Require Import Base.ZInf Scalar.Itv Ir.Syntax Ir.Cfg Dom.ItvEnv Dom.ItvEnvSound Dom.ItvDomain
     Fix.Wto Ana.Transformer Ana.InterSyntax Ana.InterSem Ana.InterTD Ana.InterTDSound.
Import ListNotations.

(* restrict: the state at the entry of the callee *)
Theorem C09_callee_entry_sound :
  forall voff outs ins fins fouts,
  length fins = length ins -> length fouts = length outs ->
  (forall x, In x (fins ++ fouts) -> (x < voff)%N) -> (forall x, In x ins -> (x < voff)%N) ->
  forall e a s0, genv e a -> bind_ins fins ins a s0 ->
  genv (callee_entry voff outs ins fins fouts e) s0.
Proof. exact callee_entry_sound. Qed.

(* extend: the state of the caller after the call, from the caller's state before the call and
   an abstraction of the callee's final store; inputs are read-only in the callee *)
Theorem C09_continuation_sound :
  forall voff outs ins fins fouts,
  NoDup (fins ++ fouts) -> length fins = length ins -> length fouts = length outs -> NoDup outs ->
  (forall x, In x (fins ++ fouts) -> (x < voff)%N) -> (forall x, In x ins -> (x < voff)%N) ->
  (forall x, In x outs -> (x < voff)%N) ->
  forall e sum a s1 b, genv e a -> genv sum s1 ->
  (forall f y, In (f, y) (combine fins ins) -> s1 f = a y) ->
  (forall k, b k = assign_outs a outs fouts s1 k) ->
  genv (cont voff outs ins fins fouts e (e_project sum (fins ++ fouts))) b.
Proof. exact cont_sound. Qed.

(* a well-formed function never changes its formal inputs *)
Theorem C09_inputs_read_only :
  forall p voff, iprog_wfb p voff = true ->
  forall g s0 s1, exec_fun p g s0 s1 -> g < length p ->
  forall x, In x (f_ins (get_fn p g)) -> s1 x = s0 x.
Proof. intros p voff W g s0 s1 X L x I. eapply exec_fun_frame; eauto. Qed.

(* the main theorem: checked tables and summaries are sound *)
Theorem C09_checked_results_sound :
  forall p voff entries init tpre tpost roots scerts,
  td_check p voff entries init tpre tpost roots scerts = true ->
  forall Init : store -> Prop, (forall s, Init s -> genv init s) ->
  (forall f n s, IRPre p entries Init f n s -> genv (tpre f n) s) /\
  (forall f n s, IRPost p entries Init f n s -> genv (tpost f n) s) /\
  (forall sm, In sm (map fst scerts) ->
     forall s0 s1, genv (s_pre sm) s0 -> exec_fun p (s_fn sm) s0 s1 -> genv (s_post sm) s1).
Proof. exact td_check_sound. Qed.

Theorem C09_validated_results_sound :
  forall p voff entries init tpre tpost S delay desc efuel wtos,
  td_validate p voff entries init tpre tpost S delay desc efuel wtos = true ->
  forall Init : store -> Prop, (forall s, Init s -> genv init s) ->
  (forall f n s, IRPre p entries Init f n s -> genv (tpre f n) s) /\
  (forall f n s, IRPost p entries Init f n s -> genv (tpost f n) s) /\
  (forall sm, In sm S ->
     forall s0 s1, genv (s_pre sm) s0 -> exec_fun p (s_fn sm) s0 s1 -> genv (s_post sm) s1).
Proof. exact td_validate_sound. Qed.

Theorem C09_bottom_block_never_entered :
  forall p voff entries init tpre tpost S delay desc efuel wtos,
  td_validate p voff entries init tpre tpost S delay desc efuel wtos = true ->
  forall Init : store -> Prop, (forall s, Init s -> genv init s) ->
  forall f n, e_is_bot (tpre f n) = true -> forall s, ~ IRPre p entries Init f n s.
Proof. exact td_bottom_never_entered. Qed.

(* Known finding (max_call_contexts finite): the join of two calling contexts is stored and
   reused as a summary although it is not one.  The model mirrors the code; on
   f(a) { r := (a == 1) ? 100 : a }  main { f(0); f(2); f(7); f(1) }  with max_call_contexts = 1
   the stored summary (a in [0,2] => r in [0,2]) is violated by the call f(1), which returns 100. *)
Theorem C09_joined_contexts_refuted :
  exists w0 w1 rs sm s0 s1,
    build (fn_graph (get_fn jc_prog 0)) 0 = Some w0 /\
    build (fn_graph (get_fn jc_prog 1)) 0 = Some w1 /\
    cg_recset jc_prog = Some rs /\
    let wtos := fun f => if Nat.eqb f 0 then w0 else w1 in
    let g := td_run jc_prog (prog_voff jc_prog) (Some 1) true 2 2 100 wtos rs 5 (cg_entries jc_prog) e_top in
    g_err g = false /\ In sm (g_summaries jc_prog g) /\
    genv (s_pre sm) s0 /\ exec_fun jc_prog (s_fn sm) s0 s1 /\ ~ genv (s_post sm) s1.
Proof. exact joined_contexts_refuted. Qed.

(* the model's own result is always accepted: corresponded on every generated program (the
   driver reports MODEL-NOT-VALIDATED otherwise), not proved; superseded by C09_model_sound
   (Properties_C09_model.v), which proves the soundness of the result itself *)
Definition C09_model_statement : Prop :=
  forall p exact delay desc efuel wtos rs depth init,
    let voff := prog_voff p in
    let g := td_run p voff None exact delay desc efuel wtos rs depth (cg_entries p) init in
    g_err g = false ->
    td_validate p voff (cg_entries p) init (g_pre g) (g_post g) (g_summaries p g) delay desc efuel wtos = true.

(* non-vacuity: f(a,b){ r := a - b }; main { a := 1; b := 10; q := f(b,a) } with a=v0 b=v1 r=v2
   q=v3 (caller and callee share names, arguments swapped): the model's tables and summary are
   accepted by the checker and q = 9 after the call *)
Example C09_example_swapped_arguments :
  let p := [mkFunc [] [] [[IBase (SAssign 0%N (mkLE [] 1%Z)); IBase (SAssign 1%N (mkLE [] 10%Z));
                           ICall [3%N] 1 [1%N; 0%N]]] [] (Some 0);
            mkFunc [0%N; 1%N] [2%N] [[IBase (SArith OpSub 2%N 0%N (OVar 1%N))]] [] (Some 0)] in
  let voff := prog_voff p in
  exists w0 w1 rs,
    build (fn_graph (get_fn p 0)) 0 = Some w0 /\ build (fn_graph (get_fn p 1)) 0 = Some w1 /\
    cg_recset p = Some rs /\
    let wtos := fun f => if Nat.eqb f 0 then w0 else w1 in
    let g := td_run p voff None true 2 2 100 wtos rs 5 (cg_entries p) e_top in
    g_err g = false /\
    td_validate p voff (cg_entries p) e_top (g_pre g) (g_post g) (g_summaries p g) 2 2 100 wtos = true /\
    length (g_summaries p g) = 1 /\
    e_at (g_post g 0 0) 3%N = mkI (Fin 9%Z) (Fin 9%Z) /\
    e_at (g_pre g 1 0) 0%N = mkI (Fin 10%Z) (Fin 10%Z) /\ e_at (g_pre g 1 0) 1%N = mkI (Fin 1%Z) (Fin 1%Z).
Proof.
  cbv zeta. eexists. eexists. eexists.
  split; [vm_compute; reflexivity|]. split; [vm_compute; reflexivity|]. split; [vm_compute; reflexivity|].
  vm_compute. repeat split; reflexivity.
Qed.

Print Assumptions C09_callee_entry_sound.
Print Assumptions C09_continuation_sound.
Print Assumptions C09_inputs_read_only.
Print Assumptions C09_checked_results_sound.
Print Assumptions C09_validated_results_sound.
Print Assumptions C09_bottom_block_never_entered.
Print Assumptions C09_joined_contexts_refuted.
