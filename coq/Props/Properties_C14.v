(* Property C14 — the array domains never lose a value.

   "With either array domain on top of any numerical base domain, every value that a
   concrete execution can read from an array cell is contained in the abstract value of the
   variable receiving the load, for any interleaving of initialisations, strong and weak
   stores, range stores, array copies, joins and widenings, with constant or symbolic
   indices and for every parameter setting of the adaptive domain.  Array operations never
   turn a state that some execution reaches into bottom."

   The full statement for one array domain is [ArraySmashSound.C14_statement] (a domain
   is given by its history machine; the concrete semantics is [ArraySmashSound.cstep]:
   stores of scalars, arrays as partial maps offset -> value, one element size per array,
   is_strong_update = promise that the array has one cell).

   PROVED (unbounded, by induction over histories):
     - [C14_array_smashing_interval]: the full statement for the mirror model of
       array_smashing<interval_domain> (Dom/ArraySmash.v, with the repairs of
       fixes/arrays-2, arrays-3), for histories without meet/narrowing and with one-variable renames ([hop_ok]); and the
       step-indexed forms it follows from.
   array_adaptive_domain<interval_domain> (mirror model Dom/ArrayAdapt.v, corresponded on histories
   for 16 parameter settings; proofs in Dom/ArrayAdaptSound.v), PARTIAL:
     - [C14_adaptive_step_sound_partial] / [C14_adaptive_history_sound_partial]: every state
       reached by the concrete operations (aligned accesses, cells lb, lb+sz, .. <= ub for
       array_init / array_store_range) is described by the abstract value of its register,
       for every parameter setting, under the side conditions [hop_okA]: expressions over
       program scalars, the word-level assumption checked on the abstract state (element size
       = the one of the array, constant indexes aligned, ranges that fit into max_array_size),
       and, WHERE AN ARRAY IS SMASHED (store that smashes, join with a smashed operand), the
       hypothesis that every defined cell of that array is tracked; joins also ask for
       well-formed operands ([join_ok]: executable checks that hold on every value seen so
       far and whose preservation is not proved).  Not covered: meet / narrowing, project,
       rename / expand of arrays.
     - [C14_adaptive_history_sound_nonsmashable_partial]: for the settings with is_smashable =
       false no array is ever smashed and the hypothesis on tracked cells disappears: the side
       conditions [hop_okB] look at the abstract states only.
     - [C14_adaptive_history_sound_tracked_partial]: for the smashable settings the hypothesis
       is discharged by the invariant [trk] "every defined cell of an array that is not
       smashed is tracked", carried along histories of initialisations, loads, stores (constant
       or symbolic index, smashing included), range stores, numerical operations, joins and
       widenings of values that track the same cells (an array that only one operand has smashed
       is smashed on the other side), started from empty arrays, under the executable side
       conditions [hop_okT]; the invariant is NOT preserved by top, forget / copy of arrays,
       joins of values that track different cells, or a symbolic store that can only kill
       cells ([store_keeps]): there the code loses values (known finding,
       C14_adaptive_smash_untracked_refuted).
     - [C14_adaptive_nonvacuous_*]: an admissible history with a smashing store.
   The cell algebra (Dom/ArrayAdaptCore.v, corresponded by the unit stream):
     - overlap = intersection of byte ranges; kill lemmas for constant and symbolic
       indices; coverage test of the symbolic load (fixes/arrays-5);
     - [C14_adaptive_store_decision_partial] / [C14_adaptive_load_decision_partial]:
       soundness of the store/load decision table on a value-level reading of one array
       state, under the word-level assumption.  The smashing store needs the hypothesis
       that every defined cell is tracked; [C14_adaptive_smash_untracked_refuted] shows it
       cannot be dropped (the code does not establish it: known finding).
   MISSING for the full statement: the cases listed above, base domains other than
   intervals: oracle search only. *)
From Coq Require Import ZArith NArith List Bool Lia.
From CrabV Require Import Base.ZInf Scalar.Itv Scalar.ItvSound Ir.Syntax Dom.ItvEnv Dom.ItvEnvSound
     Dom.ItvSolverSound Dom.ItvDomain Dom.History Dom.ArraySmash Dom.ArraySmashSound
     Dom.ArrayAdaptCore Dom.ArrayAdaptCoreSound.
From CrabV Require Dom.ArrayAdapt Dom.ArrayAdaptSound Dom.ArrayAdaptWf.
Import ListNotations.
Local Open Scope Z_scope.

(* ---- array_smashing<interval_domain> ---- *)

Theorem C14_array_smashing_interval : C14_statement smash_interval.
Proof. exact smash_interval_C14. Qed.

(* the step-indexed form: any related pair of register files stays related *)
Theorem C14_smash_history_sound : forall esz onecell h rs cs rs',
  rel esz onecell rs cs -> hist_ok esz onecell rs h -> arun rs h = Some rs' ->
  rel esz onecell rs' (fold_left (cstep esz onecell) h cs).
Proof. exact ahistory_sound. Qed.

Theorem C14_smash_step_sound : forall esz onecell rs cs o rs',
  rel esz onecell rs cs -> hop_ok esz onecell rs o -> astep rs o = Some rs' ->
  rel esz onecell rs' (cstep esz onecell cs o).
Proof. exact astep_sound. Qed.

(* every value read from a cell is in gamma (at lhs) after the load *)
Theorem C14_smash_load_value : forall esz onecell rs cs r lhs a e idx rs',
  rel esz onecell rs cs -> hop_ok esz onecell rs (ALoad r lhs a e idx) ->
  astep rs (ALoad r lhs a e idx) = Some rs' -> (r < length rs)%nat ->
  forall s mu v, cget cs r (s, mu) ->
    eval_le e s = esz a -> cell_ok onecell a (eval_le idx s) -> mu a (eval_le idx s) = Some v ->
    gamma (s_at (aget rs' r) lhs) v.
Proof. exact aload_value_sound. Qed.

(* no reached state is bottom *)
Theorem C14_smash_not_bottom : forall esz onecell rs cs r c,
  rel esz onecell rs cs -> cget cs r c -> s_is_bottom (aget rs r) = false.
Proof. exact areach_not_bottom. Qed.

(* non-vacuity: an admissible history, its abstract run and a state reached concretely *)
Theorem C14_smash_nonvacuous_ok : hist_ok ex_esz ex_one [s_top] ex_hist.
Proof. exact ex_hist_ok. Qed.
Theorem C14_smash_nonvacuous_run :
  exists rs', arun [s_top] ex_hist = Some rs' /\ s_at (aget rs' 0%nat) (sv 0) = mkI (Fin 5) (Fin 7).
Proof. exact ex_hist_run. Qed.
Theorem C14_smash_nonvacuous_reached :
  exists c, cget (fold_left (cstep ex_esz ex_one) ex_hist [fun _ => True]) 0%nat c /\ fst c (sv 0) = 5.
Proof. exact ex_hist_reached. Qed.

(* ---- the cell algebra of array_adaptive_domain ---- *)

Theorem C14_cell_overlap_spec : forall c o sz,
  c_overlap c o sz = true <-> c_rem c = false /\ ranges_meet (c_off c) (c_size c) o sz.
Proof. exact c_overlap_spec. Qed.

Theorem C14_cell_aligned_overlap_same : forall k c o,
  0 < k -> c_size c = k -> aligned k (c_off c) -> aligned k o -> c_overlap c o k = true -> c_off c = o.
Proof. exact aligned_overlap_same. Qed.

Theorem C14_get_overlap_cells_sound : forall m o sz x, In x (om_get_overlap m o sz) ->
  In x m /\ c_overlap x o sz = true /\ ~ (c_off x = o /\ c_size x = sz).
Proof. exact om_get_overlap_sound. Qed.

(* a cell not killed does not overlap the written range: constant index *)
Theorem C14_const_store_kill_lemma : forall k m o c,
  0 < k -> wl k m -> aligned k o -> In c m -> c_off c <> o -> c_overlap c o k = false.
Proof. exact const_store_kill_lemma. Qed.

(* a cell not killed does not overlap the written range: symbolic index *)
Theorem C14_sym_store_kill_lemma : forall m slb sub dom k c s,
  uniq m -> (forall d, In d m -> c_size d = k) -> 0 < k -> wf_le slb -> wf_le sub ->
  In c m -> c_rem c = false -> ~ In c (om_get_overlap_sym m slb sub dom) -> genv dom s ->
  eval_le sub s = eval_le slb s + k - 1 ->
  ~ ranges_meet (c_off c) k (eval_le slb s) k.
Proof. exact sym_store_kill_lemma. Qed.

Theorem C14_symbolic_overlap_false : forall slb sub dom c s,
  wf_le slb -> wf_le sub -> c_rem c = false -> c_sym_overlap c slb sub dom = false -> genv dom s ->
  ~ (eval_le slb s <= c_off c <= eval_le sub s) /\
  ~ (eval_le slb s <= c_off c + c_size c - 1 <= eval_le sub s).
Proof. exact c_sym_overlap_false. Qed.

Theorem C14_covers_all_offsets_sound : forall cells idx esz i, 0 < esz ->
  covers_all_offsets cells idx esz = true -> gamma idx i -> aligned esz i ->
  exists c, In c cells /\ c_off c = i.
Proof. exact covers_all_offsets_sound. Qed.

(* the store / load decision table *)
Theorem C14_adaptive_store_decision_partial : forall k, 0 < k ->
  forall p a idx slb sub dom i v val mu,
  wf_state k a -> access k idx slb sub dom i -> gamma val v -> gam k a mu ->
  (match store_decide p (v_st a) idx slb sub dom k with SSmash _ => tracked a mu | _ => True end) ->
  gam k (store_val p a (store_decide p (v_st a) idx slb sub dom k) k val) (mstore mu i v).
Proof. exact store_decide_sound. Qed.

Theorem C14_adaptive_load_decision_partial : forall k, 0 < k ->
  forall p a idx slb sub dom i v mu,
  wf_state k a -> access k idx slb sub dom i -> gam k a mu -> mu i = Some v ->
  gamma (load_val a (load_decide p (v_st a) idx slb sub dom k) k) v.
Proof. exact load_decide_sound. Qed.

(* without "every defined cell is tracked" the smashing store loses a value *)
Theorem C14_adaptive_smash_untracked_refuted :
  wf_state 4 rf_a /\ access 4 (mkI (Fin 0) (Fin 4)) rf_slb rf_sub rf_dom 0 /\
  gamma (iconst 7) 7 /\ gam 4 rf_a rf_mu /\
  store_decide rf_p (v_st rf_a) (mkI (Fin 0) (Fin 4)) rf_slb rf_sub rf_dom 4 = SSmash [mkC 0 4 false] /\
  ~ gam 4 (store_val rf_p rf_a (SSmash [mkC 0 4 false]) 4 (iconst 7)) (mstore rf_mu 0 7).
Proof. exact smash_untracked_refuted. Qed.

(* ---- array_adaptive_domain<interval_domain> (mirror model Dom/ArrayAdapt.v) ---- *)

Theorem C14_adaptive_step_sound_partial : forall esz onecell, (forall a, 0 < esz a) ->
  forall p rs cs o rs',
  ArrayAdaptSound.rel esz onecell rs cs -> ArrayAdaptSound.hop_okA esz onecell p rs cs o ->
  ArrayAdapt.dstep p rs o = Some rs' ->
  ArrayAdaptSound.rel esz onecell rs' (ArrayAdaptSound.cstepA esz onecell cs o).
Proof. exact ArrayAdaptSound.dstep_sound. Qed.

Theorem C14_adaptive_history_sound_partial : forall esz onecell, (forall a, 0 < esz a) ->
  forall p h rs cs rs',
  ArrayAdaptSound.rel esz onecell rs cs -> ArrayAdaptSound.hist_okA esz onecell p rs cs h ->
  ArrayAdapt.drun p rs h = Some rs' ->
  ArrayAdaptSound.rel esz onecell rs' (fold_left (ArrayAdaptSound.cstepA esz onecell) h cs).
Proof. exact ArrayAdaptSound.dhistory_sound. Qed.

(* histories start from top: every state is described *)
Theorem C14_adaptive_top_related : forall esz onecell, (forall a, 0 < esz a) -> forall n,
  ArrayAdaptSound.rel esz onecell (repeat ArrayAdapt.a_top n) (repeat (fun _ => True) n).
Proof. exact ArrayAdaptSound.rel_top. Qed.

(* every value read from a cell is in gamma (at lhs) after the load *)
Theorem C14_adaptive_load_value_partial : forall esz onecell, (forall a, 0 < esz a) ->
  forall p rs cs r lhs a e idx rs',
  ArrayAdaptSound.rel esz onecell rs cs ->
  ArrayAdaptSound.hop_okA esz onecell p rs cs (ALoad r lhs a e idx) ->
  ArrayAdapt.dstep p rs (ALoad r lhs a e idx) = Some rs' -> (r < length rs)%nat ->
  forall s mu v, cget cs r (s, mu) ->
    eval_le e s = esz a -> aligned (esz a) (eval_le idx s) -> cell_ok onecell a (eval_le idx s) ->
    mu a (eval_le idx s) = Some v ->
    gamma (ArrayAdapt.a_at (ArrayAdapt.dget rs' r) lhs) v.
Proof. exact ArrayAdaptSound.dload_value_sound. Qed.

(* no reached state is bottom; the scalars of a reached state are described *)
Theorem C14_adaptive_not_bottom : forall esz onecell rs cs r c,
  ArrayAdaptSound.rel esz onecell rs cs -> cget cs r c ->
  ArrayAdapt.a_is_bottom (ArrayAdapt.dget rs r) = false.
Proof. exact ArrayAdaptSound.dreach_not_bottom. Qed.

Theorem C14_adaptive_at_sound : forall esz onecell rs cs r s mu x,
  ArrayAdaptSound.rel esz onecell rs cs -> cget cs r (s, mu) -> ArrayAdaptSound.is_pv x ->
  gamma (ArrayAdapt.a_at (ArrayAdapt.dget rs r) x) (s x).
Proof. exact ArrayAdaptSound.dreach_at_sound. Qed.

(* settings with is_smashable = false: no array is ever smashed, the side conditions [hop_okB] only look at
   the abstract states (no hypothesis on the concrete executions) *)
Theorem C14_adaptive_history_sound_nonsmashable_partial : forall esz onecell, (forall a, 0 < esz a) ->
  forall p, p_smashable p = false -> forall h rs cs rs',
  ArrayAdaptSound.rel esz onecell rs cs -> ArrayAdaptSound.nosmash_all rs ->
  ArrayAdaptSound.hist_okB esz onecell p rs h -> ArrayAdapt.drun p rs h = Some rs' ->
  ArrayAdaptSound.rel esz onecell rs' (fold_left (ArrayAdaptSound.cstepA esz onecell) h cs) /\
  ArrayAdaptSound.nosmash_all rs'.
Proof. exact ArrayAdaptSound.dhistory_sound_nonsmashable. Qed.

Theorem C14_adaptive_top_nosmash : forall n, ArrayAdaptSound.nosmash_all (repeat ArrayAdapt.a_top n).
Proof. exact ArrayAdaptSound.nosmash_all_top. Qed.

(* the invariant "every defined cell of an array that is not smashed is tracked" carried
   along a history: smashable settings, side conditions on the abstract states only *)
Theorem C14_adaptive_step_sound_tracked_partial : forall esz onecell, (forall a, 0 < esz a) ->
  forall p rs cs o rs', p_smashable p = true ->
  ArrayAdaptSound.relT esz onecell rs cs -> ArrayAdaptSound.hop_okT esz p rs o ->
  ArrayAdapt.dstep p rs o = Some rs' ->
  ArrayAdaptSound.relT esz onecell rs' (ArrayAdaptSound.cstepA esz onecell cs o).
Proof. exact ArrayAdaptSound.dstep_sound_tracked. Qed.

Theorem C14_adaptive_history_sound_tracked_partial : forall esz onecell, (forall a, 0 < esz a) ->
  forall p h, p_smashable p = true -> forall rs cs rs',
  ArrayAdaptSound.relT esz onecell rs cs -> ArrayAdaptSound.hist_okT esz p rs h ->
  ArrayAdapt.drun p rs h = Some rs' ->
  ArrayAdaptSound.relT esz onecell rs' (fold_left (ArrayAdaptSound.cstepA esz onecell) h cs).
Proof. exact ArrayAdaptSound.dhistory_sound_tracked. Qed.

(* executions that start with no cell defined *)
Theorem C14_adaptive_top_related_tracked : forall esz onecell, (forall a, 0 < esz a) -> forall n,
  ArrayAdaptSound.relT esz onecell (repeat ArrayAdapt.a_top n) (repeat ArrayAdaptSound.empty_mem n).
Proof. exact ArrayAdaptSound.relT_top. Qed.

(* the invariant is kept by a store whose side condition [store_keeps] holds ... *)
Theorem C14_adaptive_store_keeps_tracked : forall esz onecell, (forall a, 0 < esz a) ->
  forall p a ez idx val strong d d' s mu mu1, p_smashable p = true ->
  ArrayAdaptSound.inv esz d -> ArrayAdaptSound.le_pv idx -> aligned (esz a) (eval_le idx s) ->
  ArrayAdaptSound.szok esz d a ez ->
  ArrayAdaptSound.Ga esz onecell d (s, mu) -> ArrayAdaptSound.trk esz onecell d (s, mu) ->
  ArrayAdaptSound.store_keeps esz p d a idx -> same_mem_but a mu1 mu ->
  (forall i, mu1 a i = if i =? eval_le idx s then Some (eval_le val s) else mu a i) ->
  ArrayAdapt.a_array_store p a ez idx val strong d = Some d' ->
  ArrayAdaptSound.trk esz onecell d' (s, mu1).
Proof. exact ArrayAdaptSound.store_trk. Qed.

(* ... by a load, an initialisation with constant bounds, a range store with constant bounds *)
Theorem C14_adaptive_load_keeps_tracked : forall esz onecell, (forall a, 0 < esz a) ->
  forall p lhs a ez idx d d' s s1 mu,
  ArrayAdaptSound.inv esz d -> ArrayAdaptSound.szok esz d a ez -> ArrayAdaptSound.le_pv idx ->
  aligned (esz a) (eval_le idx s) ->
  ArrayAdaptSound.Ga esz onecell d (s, mu) -> ArrayAdaptSound.trk esz onecell d (s, mu) ->
  ArrayAdapt.a_array_load p lhs a ez idx d = Some d' ->
  ArrayAdaptSound.trk esz onecell d' (s1, mu).
Proof. exact ArrayAdaptSound.load_trk. Qed.

(* ... and by a join / widening of two values that track the same cells ([shape_ok]; an array
   that only one side has smashed is smashed in the result) *)
Theorem C14_adaptive_join_keeps_tracked : forall esz onecell p k x y d' s mu,
  ArrayAdaptSound.inv esz x -> ArrayAdaptSound.inv esz y -> NoDup (map fst (ArrayAdapt.d_arrs x)) ->
  ArrayAdaptSound.jreg p x y -> ArrayAdaptSound.shape_ok x y ->
  ArrayAdapt.a_is_top x = false -> ArrayAdapt.a_is_top y = false ->
  (ArrayAdaptSound.Ga esz onecell x (s, mu) /\ ArrayAdaptSound.trk esz onecell x (s, mu)) \/
  (ArrayAdaptSound.Ga esz onecell y (s, mu) /\ ArrayAdaptSound.trk esz onecell y (s, mu)) ->
  ArrayAdaptSound.jk_run p k x y = Some d' -> ArrayAdaptSound.trk esz onecell d' (s, mu).
Proof. exact ArrayAdaptSound.jk_trk. Qed.

(* non-vacuity: the shape of a loop (head initialised cell by cell, body with a store at a symbolic
   index that smashes the array, widening of the head with the body): the history is admissible,
   the abstract run smashes the array (the load returns [5, +oo]), a state is reached concretely *)
Theorem C14_adaptive_nonvacuous_ok :
  ArrayAdaptSound.hist_okT ArrayAdaptSound.ex_esz ArrayAdaptSound.ex_p ArrayAdaptSound.ex_rs0 ArrayAdaptSound.ex_hist.
Proof. exact ArrayAdaptSound.ex_hist_okT. Qed.
Theorem C14_adaptive_nonvacuous_run :
  ArrayAdapt.drun ArrayAdaptSound.ex_p ArrayAdaptSound.ex_rs0 ArrayAdaptSound.ex_hist = Some ArrayAdaptSound.ex_rs6 /\
  ArrayAdapt.a_at (ArrayAdapt.dget ArrayAdaptSound.ex_rs6 0%nat) (ArrayAdapt.pv 0) = mkI (Fin 5) PInf /\
  (exists st, ArrayAdapt.am_find (ArrayAdapt.d_arrs (ArrayAdapt.dget ArrayAdaptSound.ex_rs4 0%nat)) ArrayAdaptSound.ex_A = Some st /\
              as_smashed st = false) /\
  (exists st, ArrayAdapt.am_find (ArrayAdapt.d_arrs (ArrayAdapt.dget ArrayAdaptSound.ex_rs4 1%nat)) ArrayAdaptSound.ex_A = Some st /\
              as_smashed st = true) /\
  (exists st, ArrayAdapt.am_find (ArrayAdapt.d_arrs (ArrayAdapt.dget ArrayAdaptSound.ex_rs6 0%nat)) ArrayAdaptSound.ex_A = Some st /\
              as_smashed st = true).
Proof. exact ArrayAdaptSound.ex_run. Qed.
Theorem C14_adaptive_nonvacuous_reached :
  exists c, cget (fold_left (ArrayAdaptSound.cstepA ArrayAdaptSound.ex_esz ArrayAdaptSound.ex_one)
                            ArrayAdaptSound.ex_hist [ArrayAdaptSound.empty_mem; ArrayAdaptSound.empty_mem]) 0%nat c /\
            fst c (ArrayAdapt.pv 0) = 5.
Proof. exact ArrayAdaptSound.ex_hist_reached. Qed.

Print Assumptions C14_array_smashing_interval.
Print Assumptions C14_smash_history_sound.
Print Assumptions C14_smash_step_sound.
Print Assumptions C14_smash_load_value.
Print Assumptions C14_smash_not_bottom.
Print Assumptions C14_smash_nonvacuous_ok.
Print Assumptions C14_smash_nonvacuous_run.
Print Assumptions C14_smash_nonvacuous_reached.
Print Assumptions C14_cell_overlap_spec.
Print Assumptions C14_cell_aligned_overlap_same.
Print Assumptions C14_get_overlap_cells_sound.
Print Assumptions C14_const_store_kill_lemma.
Print Assumptions C14_sym_store_kill_lemma.
Print Assumptions C14_symbolic_overlap_false.
Print Assumptions C14_covers_all_offsets_sound.
Print Assumptions C14_adaptive_store_decision_partial.
Print Assumptions C14_adaptive_load_decision_partial.
Print Assumptions C14_adaptive_smash_untracked_refuted.
Print Assumptions C14_adaptive_step_sound_partial.
Print Assumptions C14_adaptive_history_sound_partial.
Print Assumptions C14_adaptive_top_related.
Print Assumptions C14_adaptive_load_value_partial.
Print Assumptions C14_adaptive_not_bottom.
Print Assumptions C14_adaptive_at_sound.
Print Assumptions C14_adaptive_history_sound_nonsmashable_partial.
Print Assumptions C14_adaptive_top_nosmash.
Print Assumptions C14_adaptive_step_sound_tracked_partial.
Print Assumptions C14_adaptive_history_sound_tracked_partial.
Print Assumptions C14_adaptive_top_related_tracked.
Print Assumptions C14_adaptive_store_keeps_tracked.
Print Assumptions C14_adaptive_load_keeps_tracked.
Print Assumptions C14_adaptive_join_keeps_tracked.
Print Assumptions C14_adaptive_nonvacuous_ok.
Print Assumptions C14_adaptive_nonvacuous_run.
Print Assumptions C14_adaptive_nonvacuous_reached.

(* ---- the well-formedness invariant awf (Dom/ArrayAdaptWf.v): it holds for top / bottom, is preserved by every
   covered operation and implies the four executable checks that the join theorems above take as hypotheses;
   the history theorem then needs, for a join or widening, only that both operands are not bottom (and the two
   semantic tracked-cell conditions) ---- *)
Theorem C14_adaptive_wf_join_checks : forall esz onecell p X Y cX cY,
  ArrayAdaptWf.awf esz X -> ArrayAdaptWf.awf esz Y ->
  ArrayAdaptSound.inv esz X -> ArrayAdaptSound.inv esz Y ->
  ArrayAdaptWf.join_ok_wf esz onecell X Y cX cY -> ArrayAdaptSound.join_ok esz onecell p X Y cX cY.
Proof. exact ArrayAdaptWf.join_ok_of_wf. Qed.

Theorem C14_adaptive_step_sound_wf_partial : forall esz onecell, (forall a, 0 < esz a) ->
  forall p rs cs o rs', ArrayAdaptWf.awf_all esz rs ->
  ArrayAdaptSound.rel esz onecell rs cs -> ArrayAdaptWf.hop_okA_wf esz onecell p rs cs o ->
  ArrayAdapt.dstep p rs o = Some rs' ->
  ArrayAdaptSound.rel esz onecell rs' (ArrayAdaptSound.cstepA esz onecell cs o) /\ ArrayAdaptWf.awf_all esz rs'.
Proof. exact ArrayAdaptWf.dstep_sound_wf. Qed.

Theorem C14_adaptive_history_sound_wf_partial : forall esz onecell, (forall a, 0 < esz a) ->
  forall p h rs cs rs', ArrayAdaptWf.awf_all esz rs ->
  ArrayAdaptSound.rel esz onecell rs cs -> ArrayAdaptWf.hist_okA_wf esz onecell p rs cs h ->
  ArrayAdapt.drun p rs h = Some rs' ->
  ArrayAdaptSound.rel esz onecell rs' (fold_left (ArrayAdaptSound.cstepA esz onecell) h cs) /\
  ArrayAdaptWf.awf_all esz rs'.
Proof. exact ArrayAdaptWf.dhistory_sound_wf. Qed.

(* histories that start from top states: no hypothesis on the initial registers *)
Theorem C14_adaptive_history_sound_wf_top_partial : forall esz onecell, (forall a, 0 < esz a) ->
  forall p h n rs',
  ArrayAdaptWf.hist_okA_wf esz onecell p (repeat ArrayAdapt.a_top n) (repeat (fun _ => True) n) h ->
  ArrayAdapt.drun p (repeat ArrayAdapt.a_top n) h = Some rs' ->
  ArrayAdaptSound.rel esz onecell rs' (fold_left (ArrayAdaptSound.cstepA esz onecell) h (repeat (fun _ => True) n)) /\
  ArrayAdaptWf.awf_all esz rs'.
Proof. exact ArrayAdaptWf.dhistory_sound_wf_top. Qed.

Print Assumptions C14_adaptive_wf_join_checks.
Print Assumptions C14_adaptive_step_sound_wf_partial.
Print Assumptions C14_adaptive_history_sound_wf_partial.
Print Assumptions C14_adaptive_history_sound_wf_top_partial.
