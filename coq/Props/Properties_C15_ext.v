(* Property C15, extension — unknown regions and region_cast, the offset / size ghost variables of
   region.is_dereferenceable, int_to_ref / ref_to_int.

   Model: Dom/RegionCore2.v (mirror of region_domain.hpp + region/ghost_variables.hpp +
   region/ghost_variable_manager.hpp over the interval domain, with fixes/regions-1..9 applied;
   differential testing: stream model2-itvx of checks/C15.py).  Concrete semantics and proofs:
   Dom/RegionCore2Sound.v.  Statements only.

   All theorems are PARTIAL: the history theorem covers ref_make (with size), ref_free, ref_load
   (typed and unknown regions, tracked or not), ref_gep (with offsets), ref_assume (with the offset
   and size constraints), int_to_ref, ref_to_int, operator-= on integers and references, the
   is_dereferenceable intrinsic, assign / arithmetic / assume, top / bottom / copies, for every
   setting of the parameters.  Mirrored and tested but not in the theorem: ref_store (its base-domain
   part and everything but the base domain are proved separately: the C15x_store theorems), region_init,
   region_copy, region_cast, operator-= on regions, forget, project, add_tag, select_ref and the
   lattice operations on the extended state (for typed regions without offsets these are covered by
   Properties_C15.v).  Meet and narrowing with unknown regions are refuted (known finding). *)
From Coq Require Import ZArith NArith List Bool.
From CrabV Require Import Base.ZInf Scalar.Itv Scalar.ItvSound Scalar.SmallRange Scalar.Boolean Ir.Syntax
     Dom.ItvEnv Dom.ItvEnvSound Dom.ItvSolverSound Dom.ItvDomain Dom.RegionCore Dom.RegionCoreSound
     Dom.RegionCore2 Dom.RegionCore2Sound.
Import ListNotations.
Local Open Scope Z_scope.

(* [naming_ok C prog]: the ghost names (.address / .offset / .size / dup) are outside the program,
   injective and pairwise disjoint (Dom/RegionCore2Sound.v) *)

(* After ANY admissible history of the covered operations every register describes every concrete
   state produced by the corresponding concrete operations. *)
Theorem C15x_history_sound_partial :
  forall C prog, naming_ok C prog -> forall h, Forall (op_ok2 C prog) h -> forall rs cs rs',
  rels2 C prog rs cs -> prun C rs h = Some rs' -> rels2 C prog rs' (fold_left (cstepS2 C) h cs).
Proof. exact nm_history. Qed.

(* loads: typed and unknown regions, every parameter setting *)
Theorem C15x_load_sound_partial :
  forall C prog, naming_ok C prog -> forall a c c' w r x p g,
  rel2 C prog a c w -> agree C w c -> is_ref_var C prog p -> prog x = true ->
  vk_is_rgn (k_kind C g) = true ->
  (k_kind C g = VRgnInt -> k_kind C x = VInt) -> (k_kind C g = VRgnRef -> k_kind C x = VRef) ->
  cstep2 C (PLd r x p g) c c' -> relv2 C prog (u_load C x p g a) c'.
Proof. exact nm_load. Qed.

(* definite null / non-null answers *)
Theorem C15x_null_answers_sound_partial :
  forall C prog, naming_ok C prog -> forall rs cs r c p, rels2 C prog rs cs -> cgetS cs r c -> is_ref_var C prog p ->
  (o_null C (wget rs r) p = BTrue -> m_st c (ga C p) = 0) /\
  (o_null C (wget rs r) p = BFalse -> m_st c (ga C p) <> 0).
Proof. exact nm_null. Qed.

(* the offset and size ghost variables contain the ghost offset and size of the reference *)
Theorem C15x_offset_size_sound_partial :
  forall C prog, naming_ok C prog -> forall rs cs r c p io iz, rels2 C prog rs cs -> cgetS cs r c -> is_ref_var C prog p ->
  o_offsize C (wget rs r) p = Some (io, iz) -> gamma io (m_st c (go C p)) /\ gamma iz (m_st c (gz C p)).
Proof. exact nm_offsize. Qed.

(* a positive is_dereferenceable answer: size - offset - sz < 0 is impossible *)
Theorem C15x_is_dereferenceable_sound_partial :
  forall C prog, naming_ok C prog -> forall rs cs r c p e, rels2 C prog rs cs -> cgetS cs r c -> is_ref_var C prog p ->
  scalar_exp C e -> wf_le e -> o_deref C (wget rs r) p e = Some (Some true) ->
  forall w, (forall v, ~ rgn_name C v -> w v = m_st c v) -> ~ eval_le e w < 0.
Proof. exact nm_deref. Qed.

(* allocation sites of references *)
Theorem C15x_allocation_sites_sound_partial :
  forall C prog, naming_ok C prog -> forall rs cs r c p ss, rels2 C prog rs cs -> cgetS cs r c -> is_ref_var C prog p ->
  o_sites (wget rs r) p = Some ss ->
  m_st c (ga C p) = 0 \/ exists site, m_asite c (m_st c (ga C p)) = Some site /\ In site ss.
Proof. exact nm_sites. Qed.

(* ref_store, part 1: the write to the ghost variables of a tracked region (do_mem_write) *)
Theorem C15x_store_base_sound_partial :
  forall C prog, naming_ok C prog -> forall a hp w E g a0 v f strong,
  RBA (allowed (live C a) hp w) E ->
  match v with SVar x true => is_ref_var C prog x | SVar x false => is_int_var C prog x | _ => True end ->
  sval_cell C v w f -> live_ty C (typ a g) (k_kind C g) = Some (sval_rty v) ->
  (strong = true -> forall k y, y <> a0 -> hp g k y = None) ->
  exists w', (forall u, ~ rgn_name C u -> w' u = w u) /\
    RBA (allowed (live C a) (hwrite hp g a0 f) w') (mem_write C a (gv_of C a g) v (negb strong) E).
Proof. exact nm_store_base. Qed.

(* the known finding: the history of checks/C15.py (two registers holding the same memory, one with
   dynamic type region(ref), one with region(int)) ends in bottom *)
Theorem C15x_meet_unknown_types_refuted :
  match prun exm_C [Some s_top; Some s_top; Some s_top] exm_hist with
  | Some [Some x; Some y; None] => true
  | _ => false
  end = true.
Proof. exact meet_unknown_types_refuted. Qed.

(* non-vacuity (vm_compute): make_ref with size 16, gep by 4, is_dereferenceable for 12 / 13 bytes *)
Theorem C15x_example_offsets :
  match prun exd_C [Some s_top] exd_hist with
  | Some [Some s] =>
    (o_offsize exd_C (Some s) 5%N,
     o_deref exd_C (Some s) 5%N (mkLE [(-1, 205%N); (1, 305%N)] (-12)),
     o_deref exd_C (Some s) 5%N (mkLE [(-1, 205%N); (1, 305%N)] (-13)),
     s_alloc s 5%N)
  | _ => (None, None, None, None)
  end = (Some (iconst 4, iconst 16), Some (Some true), Some (Some false), Some [1]).
Proof. exact exd_abstract. Qed.

Print Assumptions C15x_history_sound_partial.
Print Assumptions C15x_load_sound_partial.
Print Assumptions C15x_null_answers_sound_partial.
Print Assumptions C15x_offset_size_sound_partial.
Print Assumptions C15x_is_dereferenceable_sound_partial.
Print Assumptions C15x_allocation_sites_sound_partial.
Print Assumptions C15x_store_base_sound_partial.
Print Assumptions C15x_meet_unknown_types_refuted.
Print Assumptions C15x_example_offsets.
