(* Property C15, extension, second part — ref_store as a whole, region_init, join and widening on the
   extended region-domain model (unknown regions, dynamic types, offset / size ghost variables).

   Model: Dom/RegionCore2.v.  Concrete semantics and relation: Dom/RegionCore2Sound.v (unchanged).
   Proofs: Dom/RegionCore2Sound2.v.  Statements only.

   C15x2_history_sound_partial has the relation (rels2) and the concrete semantics of
   C15x_history_sound_partial (Properties_C15_ext.v) and a larger operation set (op_ok3): in addition
   ref_store (typed / unknown region, tracked / untracked, strong / weak, first store that sets the
   dynamic type, reinterpreting store, stores not written to the base domain), region_init, join and
   widening (concrete semantics: union).  C15x2_subsumes_ext: every history admissible for the old theorem is
   admissible for the new one with the same concrete semantics.  The lattice operations need the
   invariant tyokv (no region has dynamic type bottom; such a value is bottom in the C++); it holds
   for top / bottom and is preserved by every covered operation (second conjunct).
   Still PARTIAL — outside op_ok3: region_copy, region_cast, select_ref, add_tag, operator-= on regions,
   forget, project, and on purpose meet / narrowing (C15x_meet_unknown_types_refuted). *)
From Coq Require Import ZArith NArith List Bool.
From CrabV Require Import Base.ZInf Scalar.Itv Scalar.ItvSound Scalar.SmallRange Scalar.Boolean Ir.Syntax
     Dom.ItvEnv Dom.ItvEnvSound Dom.ItvSolverSound Dom.ItvDomain Dom.RegionCore Dom.RegionCoreSound
     Dom.RegionCore2 Dom.RegionCore2Sound Dom.RegionCore2Sound2.
Import ListNotations.
Local Open Scope Z_scope.

Theorem C15x2_history_sound_partial :
  forall C prog, naming_ok C prog -> forall h, Forall (op_ok3 C prog) h -> forall rs cs rs',
  rels2 C prog rs cs -> Forall tyokv rs -> prun C rs h = Some rs' ->
  rels2 C prog rs' (fold_left (cstepS3 C) h cs) /\ Forall tyokv rs'.
Proof. exact nm2_history. Qed.

Theorem C15x2_subsumes_ext :
  forall C prog h, Forall (op_ok2 C prog) h ->
  Forall (op_ok3 C prog) h /\ forall cs, fold_left (cstepS3 C) h cs = fold_left (cstepS2 C) h cs.
Proof. exact nm2_subsumes. Qed.

(* ref_store, every case *)
Theorem C15x2_store_sound :
  forall C prog, naming_ok C prog -> forall a c c' w r p g v res,
  rel2 C prog a c w -> agree C w c -> is_ref_var C prog p -> vk_is_rgn (k_kind C g) = true ->
  sval_ok2 C prog g v -> cstep2 C (PSt r p g v) c c' -> u_store C p g v a = Some res -> relv2 C prog res c'.
Proof. exact nm2_store. Qed.

Theorem C15x2_init_sound :
  forall C prog, naming_ok C prog -> forall a c c' w r g res,
  rel2 C prog a c w -> agree C w c -> vk_is_rgn (k_kind C g) = true ->
  cstep2 C (PInit r g) c c' -> u_init C g a = Some res -> relv2 C prog res c'.
Proof. exact nm2_init. Qed.

Theorem C15x2_join_sound :
  forall C prog, naming_ok C prog -> forall x y c,
  tyokv x -> tyokv y -> relv2 C prog x c \/ relv2 C prog y c -> relv2 C prog (w_join x y) c.
Proof. exact nm2_join. Qed.

Theorem C15x2_widen_sound :
  forall C prog, naming_ok C prog -> forall x y c,
  tyokv x -> tyokv y -> relv2 C prog x c \/ relv2 C prog y c -> relv2 C prog (w_widen x y) c.
Proof. exact nm2_widen. Qed.

(* answers after any history over the larger operation set *)
Theorem C15x2_load_sound_partial :
  forall C prog, naming_ok C prog -> forall h rs rs' cs r x p g c,
  Forall (op_ok3 C prog) (h ++ [PLd r x p g]) -> rels2 C prog rs cs -> Forall tyokv rs ->
  prun C rs (h ++ [PLd r x p g]) = Some rs' ->
  cgetS (fold_left (cstepS3 C) (h ++ [PLd r x p g]) cs) r c -> is_int_var C prog x ->
  gamma (o_at C (wget rs' r) x) (m_st c x).
Proof. exact hist2_load. Qed.

Theorem C15x2_value_sound_partial :
  forall C prog, naming_ok C prog -> forall h rs rs' cs,
  Forall (op_ok3 C prog) h -> rels2 C prog rs cs -> Forall tyokv rs -> prun C rs h = Some rs' ->
  forall r c x, cgetS (fold_left (cstepS3 C) h cs) r c -> is_int_var C prog x ->
  gamma (o_at C (wget rs' r) x) (m_st c x).
Proof. exact hist2_at. Qed.

Theorem C15x2_null_answers_sound_partial :
  forall C prog, naming_ok C prog -> forall h rs rs' cs,
  Forall (op_ok3 C prog) h -> rels2 C prog rs cs -> Forall tyokv rs -> prun C rs h = Some rs' ->
  forall r c p, cgetS (fold_left (cstepS3 C) h cs) r c -> is_ref_var C prog p ->
  (o_null C (wget rs' r) p = BTrue -> m_st c (ga C p) = 0) /\
  (o_null C (wget rs' r) p = BFalse -> m_st c (ga C p) <> 0).
Proof. exact hist2_null. Qed.

Theorem C15x2_allocation_sites_sound_partial :
  forall C prog, naming_ok C prog -> forall h rs rs' cs,
  Forall (op_ok3 C prog) h -> rels2 C prog rs cs -> Forall tyokv rs -> prun C rs h = Some rs' ->
  forall r c p ss, cgetS (fold_left (cstepS3 C) h cs) r c -> is_ref_var C prog p ->
  o_sites (wget rs' r) p = Some ss ->
  m_st c (ga C p) = 0 \/ exists site, m_asite c (m_st c (ga C p)) = Some site /\ In site ss.
Proof. exact hist2_sites. Qed.

Theorem C15x2_offset_size_sound_partial :
  forall C prog, naming_ok C prog -> forall h rs rs' cs,
  Forall (op_ok3 C prog) h -> rels2 C prog rs cs -> Forall tyokv rs -> prun C rs h = Some rs' ->
  forall r c p io iz, cgetS (fold_left (cstepS3 C) h cs) r c -> is_ref_var C prog p ->
  o_offsize C (wget rs' r) p = Some (io, iz) -> gamma io (m_st c (go C p)) /\ gamma iz (m_st c (gz C p)).
Proof. exact hist2_offsize. Qed.

(* non-vacuity: the hypotheses hold for a concrete configuration and history ... *)
Theorem C15x2_example_naming : naming_ok ex2_C ex2_prog.
Proof. exact ex2_naming. Qed.
Theorem C15x2_example_admissible : Forall (op_ok3 ex2_C ex2_prog) ex2_hist.
Proof. exact ex2_ops_ok. Qed.
(* ... U := region_init; p, q := make_ref(U); *p := 5; *q := 9; copy; in the copy *p := 20; join;
   x := *p: x in [5, 20], U is a region of integers with more than one reference *)
Example C15x2_example_store_join_load :
  match prun ex2_C [Some s_top; Some s_top] ex2_hist with
  | Some [Some s; _] => Some (o_at ex2_C (Some s) 1%N, s_rgn s 7%N, s_alloc s 4%N)
  | _ => None
  end = Some (mkI (Fin 5) (Fin 20), (ROneOrMore, BTop, Ty TInt), Some [1; 1]).
Proof. vm_compute. reflexivity. Qed.

Print Assumptions C15x2_history_sound_partial.
Print Assumptions C15x2_subsumes_ext.
Print Assumptions C15x2_store_sound.
Print Assumptions C15x2_init_sound.
Print Assumptions C15x2_join_sound.
Print Assumptions C15x2_widen_sound.
Print Assumptions C15x2_load_sound_partial.
Print Assumptions C15x2_value_sound_partial.
Print Assumptions C15x2_null_answers_sound_partial.
Print Assumptions C15x2_allocation_sites_sound_partial.
Print Assumptions C15x2_offset_size_sound_partial.
Print Assumptions C15x2_example_naming.
Print Assumptions C15x2_example_admissible.
Print Assumptions C15x2_example_store_join_load.
