(* Property C17, for EVERY statement language — cfg::simplify (merge_blocks, remove_unreachable_blocks,
   remove_useless_blocks, merge_blocks) preserves behaviour.  Statements only.

   cfg::simplify of cfg/cfg.hpp never inspects a statement: it moves statement lists between
   blocks and edits edge vectors, and the C++ is the same for numeric, boolean, array, ...
   statements.  Ana/SimplifyGen.v repeats the model of Ana/Simplify.v and the proofs of
   Ana/SimplifySound.v for an arbitrary statement type and an arbitrary statement step relation

     exec : stmt -> store -> list sev -> option store -> Prop
            (events emitted by the statement; Some s' = next store, None = the execution stops in
             the error configuration, e.g. a failing assertion)
     obs_out : odecl -> store -> out       (what is observed at the end of the exit block)

   with NO hypothesis on them (no determinism, totality or frame condition).  Traces consist of
   EvStmt e (statement events), EvGoto l (branches) and a final EvExit o; the observation of an
   execution is its trace without the goto events; exit_obs P s t: some execution of P from the
   entry with initial store s reaches the end of the exit block with observation t;
   beh_eq P Q: exit_obs P = exit_obs Q.  wf: no duplicate labels, entry and exit are blocks, the
   edge vectors mention blocks only and are symmetric (decidable: wfb).

   (a) the generic theorems, quantified over the statement language;
   (b) the link with the concrete development: Ana/Simplify.v is the instance at the numeric
       language of Ana/CfgSem.v (functions, wf, beh_eq coincide) and the concrete
       C17_simplify_behaviour / C17_simplify_wellformed follow from the generic theorems;
   (c) the instance at the extended language of Ana/CfgSemExt.v (numeric + boolean + array
       statements with the semantics of the oracle interpreter of the streams transforms-bool /
       transforms-array);
   (d) non-vacuity: a chain of four blocks with an array range store in a middle block is well
       formed, simplify folds the two middle blocks into the entry block (the statement list is
       displayed), the chain has an exit-reaching execution and so has its simplification. *)
From Coq Require Import ZArith List Bool.
From CrabV Require Import Ir.Syntax Ana.CfgSem Ana.Simplify Ana.SimplifySound.
From CrabV Require Import Ana.SimplifyGenInst Ana.CfgSemExt.
From CrabV Require Ana.SimplifyGen.
Import ListNotations.
Module G := SimplifyGen.

(* ------------------------------------------------------------------ (a) every statement language *)
Theorem C17_generic_simplify_wellformed :
  forall (stmt odecl : Type) (P Q : G.cfg stmt odecl),
  G.simplify P = Some Q -> G.wf P -> G.wf Q /\ G.keeps P Q.
Proof. exact G.simplify_wf. Qed.
Print Assumptions C17_generic_simplify_wellformed.

Theorem C17_generic_simplify_behaviour :
  forall (stmt store sev out odecl : Type)
         (exec : stmt -> store -> list sev -> option store -> Prop)
         (obs_out : odecl -> store -> out) (P Q : G.cfg stmt odecl),
  G.simplify P = Some Q -> G.wf P -> G.beh_eq exec obs_out P Q.
Proof. exact G.simplify_beh. Qed.
Print Assumptions C17_generic_simplify_behaviour.

Theorem C17_generic_merge_blocks :
  forall (stmt store sev out odecl : Type)
         (exec : stmt -> store -> list sev -> option store -> Prop)
         (obs_out : odecl -> store -> out) (P Q : G.cfg stmt odecl),
  G.merge_blocks P = Some Q -> G.wf P -> G.wf Q /\ G.beh_eq exec obs_out P Q.
Proof. exact G.merge_blocks_beh. Qed.
Print Assumptions C17_generic_merge_blocks.

Theorem C17_generic_remove_unreachable_blocks :
  forall (stmt store sev out odecl : Type)
         (exec : stmt -> store -> list sev -> option store -> Prop)
         (obs_out : odecl -> store -> out) (P : G.cfg stmt odecl),
  G.wf P -> G.beh_eq exec obs_out P (G.remove_unreachable_blocks P).
Proof. exact G.remove_unreachable_beh. Qed.
Print Assumptions C17_generic_remove_unreachable_blocks.

Theorem C17_generic_remove_useless_blocks :
  forall (stmt store sev out odecl : Type)
         (exec : stmt -> store -> list sev -> option store -> Prop)
         (obs_out : odecl -> store -> out) (P : G.cfg stmt odecl),
  G.wf P -> G.beh_eq exec obs_out P (G.remove_useless_blocks P).
Proof. exact G.remove_useless_beh. Qed.
Print Assumptions C17_generic_remove_useless_blocks.

Theorem C17_generic_wellformedness_is_decidable :
  forall (stmt odecl : Type) (P : G.cfg stmt odecl), G.wfb P = true -> G.wf P.
Proof. exact G.wfb_sound. Qed.
Print Assumptions C17_generic_wellformedness_is_decidable.

(* ------------------------------------------------------------------ (b) Ana/Simplify.v is the numeric instance *)
Theorem C17_simplify_is_generic_instance :
  forall P : cfg, simplify P = option_map of_gen (G.simplify (to_gen P)).
Proof. exact simplify_is_instance. Qed.
Print Assumptions C17_simplify_is_generic_instance.

Theorem C17_to_gen_of_gen_inverse :
  (forall P, of_gen (to_gen P) = P) /\ (forall P, to_gen (of_gen P) = P).
Proof. exact to_of_gen_inverse. Qed.
Print Assumptions C17_to_gen_of_gen_inverse.

Theorem C17_wf_is_generic_instance : forall P : cfg, G.wf (to_gen P) <-> wf P.
Proof. exact wf_to_gen. Qed.
Print Assumptions C17_wf_is_generic_instance.

Theorem C17_exit_obs_is_generic_instance : forall (P : cfg) s t,
  exit_obs P s t <-> G.exit_obs exec_c obs_c (to_gen P) s (map tr_ev t).
Proof. exact exit_obs_to_gen. Qed.
Print Assumptions C17_exit_obs_is_generic_instance.

Theorem C17_beh_eq_is_generic_instance : forall P Q : cfg,
  G.beh_eq exec_c obs_c (to_gen P) (to_gen Q) <-> beh_eq P Q.
Proof. exact beh_eq_to_gen. Qed.
Print Assumptions C17_beh_eq_is_generic_instance.

(* the statements of Props/Properties_C17.v, obtained from the generic theorems *)
Theorem C17_simplify_wellformed_from_generic :
  forall P Q : cfg, simplify P = Some Q -> wf P -> wf Q /\ keeps P Q.
Proof. exact simplify_wf_from_generic. Qed.
Print Assumptions C17_simplify_wellformed_from_generic.

Theorem C17_simplify_behaviour_from_generic :
  forall P Q : cfg, simplify P = Some Q -> wf P -> beh_eq P Q.
Proof. exact simplify_beh_from_generic. Qed.
Print Assumptions C17_simplify_behaviour_from_generic.

(* ------------------------------------------------------------------ (c) numeric + boolean + array statements *)
Theorem C17_simplify_wellformed_ext :
  forall P Q : xcfg, G.simplify P = Some Q -> G.wf P -> G.wf Q /\ G.keeps P Q.
Proof. exact simplify_wf_ext. Qed.
Print Assumptions C17_simplify_wellformed_ext.

Theorem C17_simplify_behaviour_ext :
  forall P Q : xcfg, G.simplify P = Some Q -> G.wf P ->
  forall s t, G.exit_obs exec_x obs_x P s t <-> G.exit_obs exec_x obs_x Q s t.
Proof. exact simplify_beh_ext. Qed.
Print Assumptions C17_simplify_behaviour_ext.

Theorem C17_merge_blocks_ext :
  forall P Q : xcfg, G.merge_blocks P = Some Q -> G.wf P -> G.wf Q /\ G.beh_eq exec_x obs_x P Q.
Proof. exact merge_blocks_beh_ext. Qed.
Print Assumptions C17_merge_blocks_ext.

Theorem C17_remove_unreachable_blocks_ext :
  forall P : xcfg, G.wf P -> G.beh_eq exec_x obs_x P (G.remove_unreachable_blocks P).
Proof. exact remove_unreachable_beh_ext. Qed.
Print Assumptions C17_remove_unreachable_blocks_ext.

Theorem C17_remove_useless_blocks_ext :
  forall P : xcfg, G.wf P -> G.beh_eq exec_x obs_x P (G.remove_useless_blocks P).
Proof. exact remove_useless_beh_ext. Qed.
Print Assumptions C17_remove_useless_blocks_ext.

(* on the numeric statements the extended relation is the concrete one, on the integer valuation *)
Theorem C17_ext_is_conservative : forall st s ev o,
  exec_x (XNum st) s ev o <-> exists oi, exec_c st (x_int s) ev oi /\ o = option_map (set_int s) oi.
Proof. exact exec_x_num. Qed.
Print Assumptions C17_ext_is_conservative.

(* range stores write lb, lb+1, ..., ub and nothing else *)
Theorem C17_ext_range_store : forall m l u v i,
  (l <= i <= u -> write_range m l u v i = Some v)%Z /\ ((i < l \/ u < i) -> write_range m l u v i = m i)%Z.
Proof. exact write_range_spec. Qed.
Print Assumptions C17_ext_range_store.

(* ------------------------------------------------------------------ (d) non-vacuity *)
Theorem C17_ext_example_wellformed : G.wf ex_chain.
Proof. exact ex_chain_wf. Qed.
Print Assumptions C17_ext_example_wellformed.

Theorem C17_ext_example_merged_block :
  exists Q, G.simplify ex_chain = Some Q /\ G.labels Q = [0%N; 3%N] /\ G.succs Q 0%N = [3%N] /\
  G.stmts_of Q 0%N = [XAInit 0%N (cst 0) (cst 9) (cst 0);
                      XBAssign 0%N (mkLC INEQ (mkLE [(1%Z, 0%N)] (-5)%Z));
                      XAStoreRange 0%N (cst 2) (cst 4) (cst 7); XBAssert 0%N 1%N].
Proof. exact ex_chain_merged_block. Qed.
Print Assumptions C17_ext_example_merged_block.

Theorem C17_ext_example_runs :
  G.exit_obs exec_x obs_x ex_chain ex_store [G.EvStmt (EvAssert 1%N true); G.EvExit [7%Z; 1%Z]] /\
  G.exit_obs exec_x obs_x ex_chain_simplified ex_store [G.EvStmt (EvAssert 1%N true); G.EvExit [7%Z; 1%Z]].
Proof. exact ex_chain_both_run. Qed.
Print Assumptions C17_ext_example_runs.
