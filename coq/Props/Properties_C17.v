(* Property C17 — CFG simplification, dead-code elimination and lowering of proven assertions
   preserve behaviour.  Statements only.

   Models: Ana/Simplify.v (cfg::simplify of cfg.hpp after fix transforms-3: merge_blocks_rec,
   remove, remove_unreachable_blocks, remove_useless_blocks; lower_safe_assertions.hpp),
   Ana/Dce.v (dce.hpp; liveness of Ana/Liveness.v recomputed per round).  Semantics:
   Ana/CfgSem.v.  An execution "ends at the exit block" when it reaches the configuration Done
   (end of the exit block; its last event carries the final values of the outputs).

   Dead-code elimination (conditional on the validated liveness solution, C18): every execution
   of the original has an execution of the transformed CFG with the SAME trace (branches,
   evaluated conditions, assertion outcomes, outputs) ending in the same kind of configuration;
   the converse holds provided no removed statement can fail (dce_provisos); the graph is
   unchanged.
   cfg::simplify: the result is well formed (no duplicate labels, entry and exit are blocks,
   edge vectors mention blocks only and are symmetric), the entry label and the presence of
   an exit are kept, and the executions that end at the exit have exactly the same
   observations (conditions, assertion outcomes, outputs; goto events are not observations
   since blocks are merged) in both directions.  Unbounded: all well-formed CFGs (loops, self
   loops, blocks unreachable from the entry or not reaching the exit), all executions.
   Lowering: exact on the executions that end at the exit (an assertion that fails ends the
   execution, so those executions passed every lowered assertion); the safety of the listed
   assertions is only needed for the failing executions, which the property does not cover.

   Everything below is proved about the models; agreement of the models with the C++ (the
   transformed CFGs are equal, statement by statement and edge by edge) is corresponded. *)
From Coq Require Import ZArith List Bool.
From CrabV Require Import Ir.Syntax Ana.CfgSem Ana.Liveness Ana.LivenessSound Ana.Dce Ana.DceSound
     Ana.Simplify Ana.SimplifySound.
Import ListNotations.

Theorem C17_dce_forward : forall P Q s tr o,
  dce P = Some Q -> beh P s tr o -> beh Q s tr o.
Proof. exact dce_forward. Qed.
Print Assumptions C17_dce_forward.

Theorem C17_dce_backward : forall P Q s tr o,
  dce P = Some Q -> dce_provisos 10 P -> beh Q s tr o -> beh P s tr o.
Proof. exact dce_backward. Qed.
Print Assumptions C17_dce_backward.

Theorem C17_dce_exit_executions : forall P Q,
  dce P = Some Q ->
  (forall s tr, star P (init P s) tr Done -> star Q (init Q s) tr Done) /\
  (dce_provisos 10 P -> forall s tr, star Q (init Q s) tr Done -> star P (init P s) tr Done).
Proof. exact dce_preserves_exit_executions. Qed.
Print Assumptions C17_dce_exit_executions.

Theorem C17_dce_same_graph : forall P Q, dce P = Some Q -> same_graph P Q.
Proof. exact dce_same_graph. Qed.
Print Assumptions C17_dce_same_graph.

Theorem C17_dce_wellformed : forall P Q, dce P = Some Q -> wf P -> wf Q.
Proof. exact dce_wf. Qed.
Print Assumptions C17_dce_wellformed.

Theorem C17_simplify_wellformed : forall P Q, simplify P = Some Q -> wf P -> wf Q /\ keeps P Q.
Proof. exact simplify_wf. Qed.
Print Assumptions C17_simplify_wellformed.

Theorem C17_simplify_behaviour : forall P Q, simplify P = Some Q -> wf P -> beh_eq P Q.
Proof. exact simplify_beh. Qed.
Print Assumptions C17_simplify_behaviour.

Theorem C17_merge_blocks : forall P Q, merge_blocks P = Some Q -> wf P -> wf Q /\ beh_eq P Q.
Proof. exact merge_blocks_beh. Qed.
Print Assumptions C17_merge_blocks.

Theorem C17_remove_unreachable_blocks : forall P, wf P -> beh_eq P (remove_unreachable_blocks P).
Proof. exact remove_unreachable_beh. Qed.
Print Assumptions C17_remove_unreachable_blocks.

Theorem C17_remove_useless_blocks : forall P, wf P -> beh_eq P (remove_useless_blocks P).
Proof. exact remove_useless_beh. Qed.
Print Assumptions C17_remove_useless_blocks.

Theorem C17_lower_wellformed : forall safe P, wf P -> wf (lower safe P) /\ same_shape P (lower safe P).
Proof. exact lower_wf. Qed.
Print Assumptions C17_lower_wellformed.

Theorem C17_lower_behaviour : forall safe P s t,
  exit_obs (lower safe P) s t <-> exists t0, exit_obs P s t0 /\ lower_tr safe t0 = t.
Proof. exact lower_beh. Qed.
Print Assumptions C17_lower_behaviour.

Theorem C17_pipeline : forall safe P P1 Q,
  dce (lower safe P) = Some P1 -> simplify P1 = Some Q -> wf P ->
  wf Q /\
  (forall s t0, exit_obs P s t0 -> exit_obs Q s (lower_tr safe t0)) /\
  (dce_provisos 10 (lower safe P) ->
   forall s t, exit_obs Q s t -> exists t0, exit_obs P s t0 /\ lower_tr safe t0 = t).
Proof. exact pipeline_beh. Qed.
Print Assumptions C17_pipeline.

Theorem C17_wellformedness_is_decidable : forall P, wfb P = true -> wf P.
Proof. exact wfb_sound. Qed.
Print Assumptions C17_wellformedness_is_decidable.
