(* Property C19, refinement part — the two models of crab's interval environments are
   connected inside Coq:

     L1  Map/SepDomain.v, Map/SepItv.v : separate_domain<variable, interval> over patricia
         trees ([ienv]: bottom flag + tree, top never stored; invariant [ie_ok]);
     L2  Dom/ItvEnv.v : [env] = EBot | EMap (association list read as a total map with
         default top), the layer under Dom/ItvDomain.v, Dom/History.v and the analyzers.

   [IR s e]  :=  ie_ok s  /\  sbot s = e_is_bot e  /\  forall k, ie_at s k = e_at e k
   (keys are [N] = Ir.Syntax.var at both levels).  Every L2 environment operation is
   simulated by its L1 counterpart, the boolean queries return the same answers, iteration
   yields the same list, any history of operations keeps the two runs related, and the
   theorems about the total-map model (soundness, widening termination) hold for the trees.

   Statements only; every proof is a reference to a lemma of Map/SepItvRefine*.v,
   Map/SepItvTransfer.v. *)
From Coq Require Import NArith ZArith Bool List.
From CrabV Require Import Base.ZInf Scalar.Itv Scalar.ItvSound Ir.Syntax.
From CrabV Require Import Map.Patricia Map.SepDomain Map.SepDomainSound Map.SepItv.
From CrabV Require Import Dom.ItvEnv Dom.ItvEnvSound Dom.ItvEnvWiden Dom.ItvDomain.
From CrabV Require Import Map.SepItvRefine Map.SepItvRefineRun Map.SepItvRefineDom Map.SepItvTransfer.
From CrabV Require Fix.Thresholds Fix.ThresholdsSound.
Import ListNotations.

(* the relation is what its name says, is total on the tree side (every tree satisfying the
   invariant implements the list read off it), and pointwise equality alone implies it *)
Theorem C19_refine_relation : forall s e,
  IR s e <-> (ie_ok s /\ sbot s = e_is_bot e /\ forall k, ie_at s k = e_at e k).
Proof. exact (fun s e => conj (fun H => H) (fun H => H)). Qed.

Theorem C19_refine_total : forall s, ie_ok s -> IR s (ie_abs s).
Proof. exact IR_abs. Qed.

Theorem C19_refine_of_lookups : forall s e,
  ie_ok s -> (forall k, ie_at s k = e_at e k) -> IR s e.
Proof. exact IR_of_same_at. Qed.

(* the relation implies the L2 invariant of Dom/ItvEnvWiden.v *)
Theorem C19_refine_env_ok : forall s e, IR s e -> env_ok e.
Proof. exact IR_env_ok. Qed.

(* queries: the same booleans, the same intervals *)
Theorem C19_refine_queries : forall s e s' e',
  IR s e -> IR s' e' ->
  s_is_bottom s = e_is_bot e /\ s_is_top s = e_is_top e /\ ie_leq s s' = e_leq e e' /\
  forall k, ie_at s k = e_at e k.
Proof.
  exact (fun s e s' e' H H' =>
           conj (IR_is_bottom s e H) (conj (IR_is_top s e H)
                (conj (IR_leq s e s' e' H H') (fun k => IR_at s e k H)))).
Qed.

(* iteration over the tree = the canonical listing of the association list, same order *)
Theorem C19_refine_iteration : forall s m, IR s (EMap m) -> s_elements s = Some (bindings m).
Proof. exact IR_bindings. Qed.

(* updates; [iwf v]: v is not one of the junk intervals [+oo,_] / [_,-oo] *)
Theorem C19_refine_updates : forall s e k v,
  IR s e -> iwf v ->
  IR (ie_set s k v) (e_set e k v) /\ IR (ie_forget s k) (e_forget e k) /\
  IR (ie_join_kv s k v) (e_join_key e k v).
Proof.
  exact (fun s e k v H W =>
           conj (IR_set s e k v H W) (conj (IR_forget s e k H) (IR_join_kv s e k v H W))).
Qed.

(* lattice operations *)
Theorem C19_refine_lattice : forall s e s' e',
  IR s e -> IR s' e' ->
  IR (ie_join s s') (e_join e e') /\ IR (ie_meet s s') (e_meet e e') /\
  IR (ie_widen s s') (e_widen e e') /\ IR (ie_narrow s s') (e_narrow e e').
Proof.
  exact (fun s e s' e' H H' =>
           conj (IR_join s e s' e' H H') (conj (IR_meet s e s' e' H H')
                (conj (IR_widen s e s' e' H H') (IR_narrow s e s' e' H H')))).
Qed.

(* widening with thresholds: the same threshold functions on both sides, moving outwards
   and never returning the junk infinities ... *)
Theorem C19_refine_widen_thresholds : forall gp gn s e s' e',
  (forall v, ble (gp v) v = true) -> (forall v, ble v (gn v) = true) ->
  (forall v, gp v <> PInf) -> (forall v, gn v <> MInf) ->
  IR s e -> IR s' e' ->
  IR (s_lub itv is_top ieq (iwiden_thr gp gn) s s') (e_widen_thr gp gn e e').
Proof. exact IR_widen_thr. Qed.

(* ... which holds for the sorted-list thresholds of the C19 harness and for well-formed
   crab::thresholds vectors (Fix/Thresholds.v, used by Dom/History.v and the engine) *)
Theorem C19_refine_widen_thresholds_instances :
  (forall ts s e s' e', IR s e -> IR s' e' ->
     IR (ie_widen_thr ts s s') (e_widen_thr (SepDomain.thr_prev ts) (SepDomain.thr_next ts) e e')) /\
  (forall t s e s' e', ThresholdsSound.wf_thr t -> IR s e -> IR s' e' ->
     IR (s_lub itv is_top ieq (iwiden_thr (Thresholds.thr_prev t) (Thresholds.thr_next t)) s s')
        (e_widen_thr (Thresholds.thr_prev t) (Thresholds.thr_next t) e e')).
Proof. exact (conj IR_widen_thr_list IR_widen_crab_thr). Qed.

(* project (both C++ branches), and rename: the tree version succeeds and is related as
   soon as the two vectors have the same length (otherwise crab raises CRAB_ERROR and the
   list model truncates); no freshness hypothesis is needed for the simulation *)
Theorem C19_refine_project_rename : forall s e,
  IR s e ->
  (forall vs, IR (ie_project s vs) (e_project e vs)) /\
  (forall from to, length from = length to ->
     exists r, ie_rename s from to = Some r /\ IR r (e_rename e from to)).
Proof. exact (fun s e H => conj (fun vs => IR_project s e vs H) (fun f t => IR_rename s e f t H)). Qed.

(* any history: the same program run on trees and on lists, from top *)
Theorem C19_refine_any_history : forall ops n,
  Forall op_ok ops ->
  let rs1 := run tree_ops ops (repeat ie_top n) in
  let rs2 := run list_ops ops (repeat e_top n) in
  Forall2 IR rs1 rs2 /\
  (forall r,
     let s := rget tree_ops rs1 r in
     let e := rget list_ops rs2 r in
     (forall k, ie_at s k = e_at e k) /\
     s_is_bottom s = e_is_bot e /\ s_is_top s = e_is_top e /\
     o_bindings tree_ops s = o_bindings list_ops e /\
     (forall r', ie_leq s (rget tree_ops rs1 r') = e_leq e (rget list_ops rs2 r'))) /\
  (forall r, ie_ok (rget tree_ops rs1 r)).
Proof. exact refine_any_history. Qed.

(* what an admissible program is *)
Theorem C19_refine_op_ok : forall o,
  op_ok o <->
  match o with
  | OSet _ _ F | OJoinKv _ _ F =>
      (forall f g, (forall k, f k = g k) -> F f = F g) /\
      (forall f, (forall k, ItvSound.wf (f k)) -> iwf (F f))
  | OWidenThr _ _ _ gp gn =>
      (forall v, ble (gp v) v = true) /\ (forall v, ble v (gn v) = true) /\
      (forall v, gp v <> PInf) /\ (forall v, gn v <> MInf)
  | ORename _ from to => length from = length to
  | OWhen q _ o' =>
      match q with
      | QRead _ P => forall f g, (forall k, f k = g k) -> P f = P g
      | _ => True
      end /\ op_ok o'
  | _ => True
  end.
Proof. exact op_ok_unfold. Qed.

(* the solver-free transfer functions of interval_domain: the functions of Dom/ItvDomain.v
   are the association-list instances of generic code whose tree instances are related *)
Theorem C19_refine_interval_domain : forall s e,
  IR s e ->
  (forall x ex, IR (g_assign tree_ops x ex s) (d_assign x ex e)) /\
  (forall x ex, IR (g_weak_assign tree_ops x ex s) (d_weak_assign x ex e)) /\
  (forall op x y z, op = OpAdd \/ op = OpSub \/ op = OpMul ->
     IR (g_apply tree_ops (arith_itv op) x y z s) (d_apply_arith op x y z e)) /\
  (forall vs, IR (g_forget tree_ops vs s) (d_forget vs e)) /\
  (forall x nx, IR (g_expand tree_ops x nx s) (d_expand x nx e)).
Proof.
  exact (fun s e H =>
           conj (fun x ex => IR_assign x ex s e H)
          (conj (fun x ex => IR_weak_assign x ex s e H)
          (conj (fun op x y z Hop => IR_apply_arith op x y z s e Hop H)
          (conj (fun vs => IR_d_forget vs s e H) (fun x nx => IR_d_expand x nx s e H))))).
Qed.

Theorem C19_refine_interval_domain_instances :
  (forall x ex e, g_assign list_ops x ex e = d_assign x ex e) /\
  (forall x ex e, g_weak_assign list_ops x ex e = d_weak_assign x ex e) /\
  (forall op x y z e, g_apply list_ops (arith_itv op) x y z e = d_apply_arith op x y z e) /\
  (forall op x y z e, g_apply list_ops (bit_itv op) x y z e = d_apply_bit op x y z e) /\
  (forall vs e, g_forget list_ops vs e = d_forget vs e) /\
  (forall x nx e, g_expand list_ops x nx e = d_expand x nx e).
Proof.
  exact (conj g_assign_list (conj g_weak_assign_list (conj g_apply_arith_list
        (conj g_apply_bit_list (conj g_forget_list g_expand_list))))).
Qed.

(* ---------------------------------------------------------------- transfer *)
(* related environments have the same concretisation ... *)
Theorem C19_transfer_concretisation : forall s e st,
  IR s e -> ((sbot s = false /\ forall k, gamma (ie_at s k) (st k)) <-> genv e st).
Proof. exact IR_gamma. Qed.

(* ... so the soundness theorems of Dom/ItvEnvSound.v hold for the tree operations *)
Theorem C19_transfer_soundness : forall a b st,
  ie_ok a -> ie_ok b ->
  (ie_gamma a st \/ ie_gamma b st -> ie_gamma (ie_join a b) st) /\
  (ie_gamma a st \/ ie_gamma b st -> ie_gamma (ie_widen a b) st) /\
  (ie_gamma a st -> ie_gamma b st -> ie_gamma (ie_meet a b) st) /\
  (ie_gamma a st -> ie_gamma b st -> ie_gamma (ie_narrow a b) st) /\
  (ie_leq a b = true -> ie_gamma a st -> ie_gamma b st) /\
  (forall x v z, iwf v -> ie_gamma a st -> gamma v z -> ie_gamma (ie_set a x v) (upd st x z)) /\
  (forall x z, ie_gamma a st -> ie_gamma (ie_forget a x) (upd st x z)).
Proof.
  exact (fun a b st Oa Ob =>
           conj (ie_join_sound a b st Oa Ob) (conj (ie_widen_sound a b st Oa Ob)
          (conj (ie_meet_sound a b st Oa Ob) (conj (ie_narrow_sound a b st Oa Ob)
          (conj (ie_leq_sound a b st Oa Ob)
          (conj (fun x v z W => ie_set_sound a st x v z Oa W)
                (fun x z => ie_forget_sound a st x z Oa))))))).
Qed.

(* property C05 on the tree representation: the widening (plain, and with crab::thresholds)
   moves strictly down a well-founded order whenever the tree inclusion test fails *)
Theorem C19_transfer_widening_progress :
  well_founded ie_lt /\
  (forall a b, ie_ok a -> ie_ok b -> ie_leq b a = false -> ie_lt (ie_widen a b) a) /\
  (forall t, well_founded (ie_lt_thr t)) /\
  (forall t a b, ThresholdsSound.wf_thr t -> ie_ok a -> ie_ok b -> ie_leq b a = false ->
     ie_lt_thr t (ie_widen_crab_thr t a b) a).
Proof. exact (conj ie_lt_wf (conj ie_widen_progress (conj ie_lt_thr_wf ie_widen_thr_progress))). Qed.

(* widening chains of tree environments x_{i+1} = x_i widen y_i, arbitrary y_i: at most
   1 + (number of finite bounds stored in the first non-bottom iterate) steps change the
   iterate, and the inclusion test fails at most that many times *)
Theorem C19_transfer_widening_chains : forall x0 ys,
  ie_ok x0 -> (forall i, ie_ok (ys i)) ->
  forall j, sbot (iechain x0 ys j) = false -> (forall i, (i < j)%nat -> sbot (iechain x0 ys i) = true) ->
  forall n,
    (length (filter (ie_nonstationary x0 ys) (seq 0 n)) <= 1 + ie_measure (iechain x0 ys j))%nat /\
    (length (filter (ie_refused x0 ys) (seq 0 n)) <= 1 + ie_measure (iechain x0 ys j))%nat.
Proof.
  exact (fun x0 ys O0 Oy j Hb B n =>
           conj (ie_widen_chain_stabilises x0 ys O0 Oy j Hb B n)
                (ie_widen_chain_refusals x0 ys O0 Oy j Hb B n)).
Qed.

(* ---------------------------------------------------------------- examples (non-vacuity) *)
Theorem C19_refine_example_pair :
  let s := ie_set (ie_set ie_top 1 (ex_i 0 0)) 9223372036854775808 (mkI (Fin 1) PInf) in
  let e := EMap [(9223372036854775808%N, mkI (Fin 1) PInf); (1%N, ex_i 0 0);
                 (9223372036854775808%N, ex_i 5 6)] in
  IR s e /\
  s_elements s = Some (bindings [(9223372036854775808%N, mkI (Fin 1) PInf); (1%N, ex_i 0 0);
                                 (9223372036854775808%N, ex_i 5 6)]) /\
  s_size s = Some 2%N /\ ie_leq s (ie_forget s 1) = true /\ e_leq e (e_forget e 1%N) = true.
Proof. exact ex_pair. Qed.

Theorem C19_refine_example_program :
  Forall op_ok ex_prog /\
  map (o_bindings tree_ops) (run tree_ops ex_prog (repeat ie_top 4)) =
  map (o_bindings list_ops) (run list_ops ex_prog (repeat e_top 4)) /\
  map (o_bindings list_ops) (run list_ops ex_prog (repeat e_top 4)) =
  [ Some [(1%N, ex_i 0 30); (9223372036854775808%N, mkI (Fin 1) PInf)];
    Some [(7%N, ex_i 1 11); (8%N, ex_i 1 11); (9223372036854775808%N, mkI (Fin 1) PInf)];
    Some [(1%N, ex_i 0 30)];
    Some [(1%N, ex_i 0 100); (7%N, ex_i 1 11); (8%N, ex_i 1 11);
          (9223372036854775808%N, mkI (Fin 1) PInf)] ].
Proof. exact (conj ex_prog_ok ex_prog_run). Qed.

Print Assumptions C19_refine_relation.
Print Assumptions C19_refine_total.
Print Assumptions C19_refine_of_lookups.
Print Assumptions C19_refine_env_ok.
Print Assumptions C19_refine_queries.
Print Assumptions C19_refine_iteration.
Print Assumptions C19_refine_updates.
Print Assumptions C19_refine_lattice.
Print Assumptions C19_refine_widen_thresholds.
Print Assumptions C19_refine_widen_thresholds_instances.
Print Assumptions C19_refine_project_rename.
Print Assumptions C19_refine_any_history.
Print Assumptions C19_refine_op_ok.
Print Assumptions C19_refine_interval_domain.
Print Assumptions C19_refine_interval_domain_instances.
Print Assumptions C19_transfer_concretisation.
Print Assumptions C19_transfer_soundness.
Print Assumptions C19_transfer_widening_progress.
Print Assumptions C19_transfer_widening_chains.
Print Assumptions C19_refine_example_pair.
Print Assumptions C19_refine_example_program.
