(* Property C10, recursive call graphs — the model of bottom_up_inter_analyzer.hpp for ANY call
   graph (Ana/InterBURec.v: bur_run; intervals for both phases, after fixes/inter-2 and inter-7) is
   sound, directly (no checker): whenever bur_run returns without error flag - the flag is raised
   by fuel exhaustion only, never by the shape of the call graph -
     - every summary of the bottom-up phase contains the final store of every terminating
       concrete execution of its function, whatever the inputs; members of recursive components of
       the call graph get a summary too (a callsite whose callee has no summary yet forgets its
       lhs variables);
     - the tables of the top-down phase contain every state with which an execution started at an
       entry function enters / leaves a block, in any frame of the call stack, recursive
       activations included.  Entry functions (bur_entries): the functions without callers,
       started in an initial state, and the members of recursive components, started in ANY
       state (they are analysed from a top calling context).
   Any program, widening delay, descending iterations, fuel; the initial value must not constrain
   the internal names (the variables >= voff).
   C10_rec_model_sound_any_orders: the same for arbitrary orders of the two phases (the member
   order inside a component of the call graph, the topological order of the components): the
   result is sound for every choice; the orders of the code (cg_post / cg_rpost: finish order of
   the depth-first search of sccg.hpp) are one instance.  The exact agreement of bur_run with the
   code is the correspondence stream bu-rec1 of checks/C10.py.
   C10_rec_order_ok / C10_rec_td_callers_done / C10_rec_isrec_complete (Ana/InterBURecOrder.v): the
   orders of the mirror have the properties the code relies on - every function once; a
   non-recursive function after all its callers, so that it is analysed from a complete call
   table; a function declared non-recursive is on no cycle of the call graph.  Statements only. *)
From Coq Require Import ZArith NArith List Bool Arith Lia.
From CrabV Require Import Base.ZInf Scalar.Itv Ir.Syntax Ir.Cfg Dom.ItvEnv Dom.ItvEnvSound Dom.ItvDomain
     Fix.Wto Ana.Transformer Ana.InterSyntax Ana.InterSem Ana.InterTD Ana.InterTDSound Ana.InterBU Ana.InterBUSound
     Ana.InterBUModelSound Ana.InterBURec Ana.InterBURecSound Ana.InterBURecOrder.
Import ListNotations.

Theorem C10_rec_model_sound :
  forall p delay desc efuel wtos init,
  let voff := prog_voff p in
  iprog_wfb p voff = true ->
  (forall f, f < length p -> build (fn_graph (get_fn p f)) 0 = Some (wtos f)) ->
  let r := bur_run p voff delay desc efuel wtos init in
  b_err r = false ->
  forall Init : store -> Prop,
  (forall s s', Init s -> (forall k, (k < voff)%N -> s' k = s k) -> genv init s') ->
  (forall f n s, IRPre p (bur_entries p) Init f n s -> genv (b_pre r f n) s) /\
  (forall f n s, IRPost p (bur_entries p) Init f n s -> genv (b_post r f n) s) /\
  (forall sm, In sm (bu_summaries p (b_sum r)) ->
     forall s0 s1, genv (s_pre sm) s0 -> exec_fun p (s_fn sm) s0 s1 -> genv (s_post sm) s1).
Proof. exact bur_model_sound. Qed.

(* any orders obu (bottom-up phase) and otd (top-down phase), any first internal name voff above
   the variables of the program, any list of entry functions that have no callers or belong to a
   recursive component *)
Theorem C10_rec_model_sound_any_orders :
  forall p voff, iprog_wfb p voff = true -> iprog_lowb p voff = true ->
  forall delay desc efuel wtos,
  (forall f, f < length p -> build (fn_graph (get_fn p f)) 0 = Some (wtos f)) ->
  forall obu otd entries init,
  (forall f, In f entries -> f < length p /\ (cg_preds p f = [] \/ cg_isrec p f = true)) ->
  let r := bur_run_ord p voff delay desc efuel wtos obu otd init in
  b_err r = false ->
  forall Init : store -> Prop, (forall s, Init s -> genvL voff init s) ->
  (forall f n s, IRPre p entries Init f n s -> genv (b_pre r f n) s) /\
  (forall f n s, IRPost p entries Init f n s -> genv (b_post r f n) s) /\
  (forall sm, In sm (bu_summaries p (b_sum r)) ->
     forall s0 s1, genv (s_pre sm) s0 -> exec_fun p (s_fn sm) s0 s1 -> genv (s_post sm) s1).
Proof. exact bur_run_ord_sound. Qed.

(* the summaries of the model hold whatever the inputs, members of recursive components included *)
Theorem C10_rec_model_summary_any_input :
  forall p delay desc efuel wtos init,
  let voff := prog_voff p in
  iprog_wfb p voff = true ->
  (forall f, f < length p -> build (fn_graph (get_fn p f)) 0 = Some (wtos f)) ->
  let r := bur_run p voff delay desc efuel wtos init in
  b_err r = false ->
  forall f sum, f < length p -> b_sum r f = Some sum ->
  forall s0 s1, exec_fun p f s0 s1 -> genv sum s1.
Proof. exact bur_model_summary_any_input. Qed.

(* the orders of the mirror are what its comments claim: the top-down order cg_rpost (reverse finish
   order of the depth-first search of the call graph) lists every function exactly once, and a
   function that is not recursive comes after all its callers *)
Theorem C10_rec_order_ok :
  forall p voff, iprog_wfb p voff = true ->
  NoDup (cg_rpost p) /\ (forall f, f < length p -> In f (cg_rpost p)) /\
  (forall l1 f l2, cg_rpost p = l1 ++ f :: l2 -> cg_isrec p f = false ->
     forall h, In h (cg_preds p f) -> In h l1).
Proof. exact cg_rpost_ok. Qed.

(* hence, whenever the top-down phase of bur_run reaches a non-recursive function f (after the
   functions l1, from any state st0), all the callers of f have been analysed: f starts from a call
   table to which all its callers have contributed (or from init), never from the defensive top of
   bur_td_step *)
Theorem C10_rec_td_callers_done :
  forall p voff delay desc efuel wtos sums init, iprog_wfb p voff = true ->
  forall l1 f l2 st0, cg_rpost p = l1 ++ f :: l2 -> cg_isrec p f = false ->
  all_in (cg_preds p f) (t_done (fold_left (bur_td_step p voff delay desc efuel wtos sums init) l1 st0)) = true.
Proof. exact bur_td_callers_done. Qed.

(* the recursion test is complete: a function declared non-recursive is on no cycle of the call graph *)
Theorem C10_rec_isrec_complete :
  forall p f, cg_isrec p f = false -> ~ Ana.InterTDModelSound.cg_path p f f.
Proof. exact cg_isrec_false_no_cycle. Qed.

(* non-vacuity: mutual recursion.  a=v0 r=v1 t=v2 b=v3 s=v4 x=v5 q=v6
     main { x := 5; q := f(x) }
     f(a) -> r { if (a >= 1) { t := a - 1; r := g(t) } else { r := 0 } }
     g(b) -> s { s := f(b); s := 7 }
   f and g form a recursive component; the depth-first search finishes g, then f, then main.
   Bottom-up phase: g first (its call of f has no summary yet: s is forgotten, then s = 7), then f
   with g's summary: r in [0, 7] (in the other member order f's summary would be top).  Top-down
   phase: f and g are analysed from a top calling context (a is unconstrained at f's entry), main
   gets q in [0, 7].  The hypotheses of C10_rec_model_sound hold, the error flag is not raised. *)
Example C10_rec_model_sound_example :
  let ge1 x := mkLC INEQ (mkLE [((-1)%Z, x)] 1%Z) in
  let le0 x := mkLC INEQ (mkLE [(1%Z, x)] 0%Z) in
  let p := [mkFunc [] [] [[IBase (SAssign 5%N (mkLE [] 5%Z)); ICall [6%N] 1 [5%N]]] [] (Some 0);
            mkFunc [0%N] [1%N]
                   [[]; [IBase (SAssume (ge1 0%N)); IBase (SArith OpSub 2%N 0%N (OCst 1%Z)); ICall [1%N] 2 [2%N]];
                    [IBase (SAssume (le0 0%N)); IBase (SAssign 1%N (mkLE [] 0%Z))]; []]
                   [(0, 1); (0, 2); (1, 3); (2, 3)] (Some 3);
            mkFunc [3%N] [4%N] [[ICall [4%N] 1 [3%N]; IBase (SAssign 4%N (mkLE [] 7%Z))]] [] (Some 0)] in
  let voff := prog_voff p in
  exists w0 w1 w2,
    build (fn_graph (get_fn p 0)) 0 = Some w0 /\ build (fn_graph (get_fn p 1)) 0 = Some w1 /\
    build (fn_graph (get_fn p 2)) 0 = Some w2 /\
    let wtos := fun f => match f with 0 => w0 | 1 => w1 | _ => w2 end in
    let r := bur_run p voff 2 2 100 wtos e_top in
    iprog_wfb p voff = true /\
    (forall f, f < length p -> build (fn_graph (get_fn p f)) 0 = Some (wtos f)) /\
    b_err r = false /\
    cg_post p = [2; 1; 0] /\ map (cg_isrec p) [0; 1; 2] = [false; true; true] /\ bur_entries p = [0; 1; 2] /\
    length (bu_summaries p (b_sum r)) = 2 /\
    (exists sf, b_sum r 1 = Some sf /\ e_at sf 1%N = mkI (Fin 0%Z) (Fin 7%Z)) /\
    e_at (b_pre r 1 0) 0%N = mkI MInf PInf /\
    e_at (b_post r 1 2) 1%N = mkI (Fin 0%Z) (Fin 0%Z) /\
    e_at (b_post r 0 0) 6%N = mkI (Fin 0%Z) (Fin 7%Z) /\
    (forall f n s, IRPre p (bur_entries p) (fun _ => True) f n s -> genv (b_pre r f n) s).
Proof.
  cbv zeta. eexists. eexists. eexists.
  split; [vm_compute; reflexivity|]. split; [vm_compute; reflexivity|]. split; [vm_compute; reflexivity|].
  match goal with |- ?A /\ ?B /\ ?C /\ ?D =>
    assert (HA : A) by (vm_compute; reflexivity);
    assert (HB : B) by (intros f L; destruct f as [|[|[|f]]];
                        [vm_compute; reflexivity|vm_compute; reflexivity|vm_compute; reflexivity|cbn in L; lia]);
    assert (HC : C) by (vm_compute; reflexivity)
  end.
  split; [exact HA|]. split; [exact HB|]. split; [exact HC|].
  split; [vm_compute; reflexivity|]. split; [vm_compute; reflexivity|]. split; [vm_compute; reflexivity|].
  split; [vm_compute; reflexivity|].
  split; [eexists; split; vm_compute; reflexivity|].
  split; [vm_compute; reflexivity|]. split; [vm_compute; reflexivity|]. split; [vm_compute; reflexivity|].
  intros f n s R.
  refine (proj1 (C10_rec_model_sound _ 2 2 100 _ e_top HA HB HC (fun _ => True) _) f n s R).
  intros; apply genv_top.
Qed.

Print Assumptions C10_rec_model_sound.
Print Assumptions C10_rec_model_sound_any_orders.
Print Assumptions C10_rec_model_summary_any_input.
Print Assumptions C10_rec_order_ok.
Print Assumptions C10_rec_td_callers_done.
Print Assumptions C10_rec_isrec_complete.
Print Assumptions C10_rec_model_sound_example.
