(* Property C12, lifting clause, for the Coq mirrors of array_smashing<interval_domain>
   (Dom/ArraySmash.v) and array_adaptive_domain<interval_domain> (Dom/ArrayAdapt.v): on
   straight-line numerical code the array lifting evolves exactly like the bare interval
   domain.  Statements only; definitions and proofs in Dom/ArrayLift.v (and the
   representation invariant of environments in Dom/ItvEnvNoTop.v). *)
From Coq Require Import ZArith NArith List Bool.
From CrabV Require Import Base.ZInf Scalar.Itv Ir.Syntax Dom.ItvEnv Dom.ItvSolver Dom.ItvDomain
     Dom.History Dom.ArraySmash Dom.ArrayAdaptCore Dom.ArrayAdapt Dom.ItvEnvNoTop Dom.ArrayLift.
Import ListNotations.
Local Open Scope Z_scope.

(* C12, lifting clause, array_smashing.  h is any history of the interval-domain language
   (History.hop) without weak_assign, bitwise apply, int-cast and select, which the mirror
   of the array domains does not have (smash_ok); scalars are embedded as VS x (alift).
   The run of the smashing model never stops with CRAB_ERROR, its scalar component is the
   value of the bare interval-domain model, and is_bottom / at(v) agree. *)
Theorem C12_smash_lifting_numerical : forall h n,
  Forall smash_ok h ->
  exists rs, arun (repeat s_top n) (map alift h) = Some rs /\
    forall r,
      let st := aget rs r in
      let e := rget (hrun (repeat e_top n) h) r in
      a_base st = e /\ s_is_bottom st = e_is_bot e /\ forall v, s_at st v = e_at e v.
Proof. exact smash_lifting_numerical. Qed.

Print Assumptions C12_smash_lifting_numerical.

(* C12, lifting clause, array_adaptive (any parameters p).  adapt_ok excludes, besides the
   four operations above, meet (the adaptive domain returns an operand unchanged when the
   other one is top; the interval domain rebuilds the environment: same bindings, another
   term in the association-list model) and rename with lists of different lengths
   (CRAB_ERROR in array_adaptive).  The array map and the ghost map stay empty. *)
Theorem C12_adapt_lifting_numerical : forall p h n,
  Forall adapt_ok h ->
  exists rs, drun p (repeat a_top n) (map alift h) = Some rs /\
    forall r,
      let st := dget rs r in
      let e := rget (hrun (repeat e_top n) h) r in
      a_base (d_base st) = e /\ d_arrs st = [] /\ d_gh st = [] /\
      a_is_bottom st = e_is_bot e /\ forall v, a_at st v = e_at e v.
Proof. exact adapt_lifting_numerical. Qed.

Print Assumptions C12_adapt_lifting_numerical.

(* the same with meets: a meet is covered when, in the state it is run in (adapt_hist_ok
   follows hrun), one operand is bottom or no operand is top (meet_fine) *)
Theorem C12_adapt_lifting_numerical_meet : forall p h n,
  adapt_hist_ok (repeat e_top n) h ->
  exists rs, drun p (repeat a_top n) (map alift h) = Some rs /\
    forall r,
      let st := dget rs r in
      let e := rget (hrun (repeat e_top n) h) r in
      a_base (d_base st) = e /\ d_arrs st = [] /\ d_gh st = [] /\
      a_is_bottom st = e_is_bot e /\ forall v, a_at st v = e_at e v.
Proof. exact adapt_lifting_numerical_meet. Qed.

Print Assumptions C12_adapt_lifting_numerical_meet.

(* the hypotheses are satisfiable by a non-trivial history (assignments, arithmetic, the
   solver, widening with and without thresholds, narrowing, joins, expand, rename, empty
   assume and project, forget; lift_hist_meet ends with a meet), and the three models do
   compute the same non-trivial environments on it *)
Example C12_arraylift_example :
  Forall smash_ok lift_hist_meet /\ Forall adapt_ok lift_hist /\
  adapt_hist_ok (repeat e_top 4) lift_hist_meet /\
  e_at (rget (hrun (repeat e_top 4) lift_hist_meet) 1%nat) 3%N = mkI (Fin 50) (Fin 50) /\
  e_at (rget (hrun (repeat e_top 4) lift_hist_meet) 2%nat) 3%N = mkI (Fin 3) (Fin 203) /\
  e_at (rget (hrun (repeat e_top 4) lift_hist_meet) 3%nat) 9%N = mkI (Fin 1) (Fin 512) /\
  option_map (map a_base) (arun (repeat s_top 4) (map alift lift_hist_meet))
    = Some (hrun (repeat e_top 4) lift_hist_meet) /\
  option_map (map (fun d => a_base (d_base d)))
             (drun (mkP true false 8 8) (repeat a_top 4) (map alift lift_hist_meet))
    = Some (hrun (repeat e_top 4) lift_hist_meet).
Proof.
  split; [repeat constructor|]. split; [repeat constructor|].
  split; [exact lift_hist_meet_ok|].
  vm_compute. repeat split; reflexivity.
Qed.
