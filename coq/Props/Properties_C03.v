(* Property C03 — every abstract-domain operation is sound under arbitrary operation
   histories.  Model: Dom/ItvDomain.v (mirror of ikos::interval_domain<z_number> with its
   linear interval solver, disequality lowering and cast traits) over Dom/ItvEnv.v
   (environments as total maps, the abstraction C19 establishes for separate_domain);
   register machine Dom/History.v.  Concrete semantics: mathematical integers
   (Ir/Syntax.v).  Statements only. *)
From Coq Require Import ZArith List Bool.
From CrabV Require Import Base.ZInf Scalar.Itv Scalar.ItvSound Ir.Syntax Dom.ItvEnv Dom.ItvEnvSound
     Dom.ItvSolver Dom.ItvSolverSound Dom.ItvDomain Dom.ItvDomainSound Dom.History Dom.HistorySound.
Import ListNotations.
Local Open Scope Z_scope.

(* Starting from top in every register and applying ANY finite history (operations over
   several abstract values: assignments, arithmetic, bitwise, casts, assume, select,
   forget/project/rename/expand, weak assignment, join, meet, widening with and without
   thresholds, narrowing, copies), every register describes every concrete store obtained
   by the corresponding concrete operations. *)
Theorem C03_history_sound : forall h n,
  hist_ok (repeat e_top n) h ->
  rel (hrun (repeat e_top n) h) (fold_left cstep h (repeat (fun _ => True) n)).
Proof. intros h n H. apply history_sound. apply rel_top. exact H. Qed.

Theorem C03_history_sound_from_any_state : forall h rs cs,
  rel rs cs -> hist_ok rs h -> rel (hrun rs h) (fold_left cstep h cs).
Proof. exact history_sound. Qed.

(* consequently the answers are sound *)
Theorem C03_at_sound : forall rs cs r s v,
  rel rs cs -> cget cs r s -> gamma (e_at (rget rs r) v) (s v).
Proof. intros rs cs r s v [_ R] C. apply e_at_sound. apply R. exact C. Qed.

Theorem C03_entails_sound : forall rs cs r s c,
  rel rs cs -> cget cs r s -> wf_lc c -> d_entails c (rget rs r) = true -> sat c s.
Proof. intros rs cs r s c [_ R] C W E. eapply d_entails_sound; eauto. Qed.

Theorem C03_exported_constraints_sound : forall rs cs r s c,
  rel rs cs -> cget cs r s -> In c (d_to_csts (rget rs r)) -> sat c s.
Proof. intros rs cs r s c [_ R] C I. eapply d_to_csts_sound; eauto. Qed.

Theorem C03_not_bottom_while_a_state_exists : forall rs cs r s,
  rel rs cs -> cget cs r s -> e_is_bot (rget rs r) = false.
Proof. intros rs cs r s [_ R] C. eapply genv_not_bot. apply R. exact C. Qed.

(* per-operation transfer soundness *)
Theorem C03_assign_sound : forall x ex e s, genv e s -> genv (d_assign x ex e) (upd s x (eval_le ex s)).
Proof. exact d_assign_sound. Qed.
Theorem C03_arith_sound : forall op x y z e s r, genv e s ->
  arith_sem op (s y) (operand_val z s) = Some r -> genv (d_apply_arith op x y z e) (upd s x r).
Proof. exact d_apply_arith_sound. Qed.
Theorem C03_bitwise_sound : forall op x y z e s r, genv e s ->
  bit_sem op (s y) (operand_val z s) = Some r -> genv (d_apply_bit op x y z e) (upd s x r).
Proof. exact d_apply_bit_sound. Qed.
Theorem C03_assume_sound : forall cs e s,
  (forall c, In c cs -> wf_lc c /\ sat c s) -> genv e s -> genv (d_add cs e) s.
Proof. exact d_add_sound. Qed.
Theorem C03_solver_sound : forall cs n m s,
  (forall c, In c cs -> wf_lc c /\ sat c s) -> gmap m s ->
  match solve cs n m with Some m' => gmap m' s | None => False end.
Proof. exact solve_sound. Qed.
Theorem C03_select_sound : forall lhs c e1 e2 e s, wf_lc c -> genv e s ->
  genv (d_select lhs c e1 e2 e) (upd s lhs (if satb c s then eval_le e1 s else eval_le e2 s)).
Proof. exact d_select_sound. Qed.
Theorem C03_cast_sound : forall op dst src db sb w e s v,
  genv e s -> (if db || sb then (if db then True else v = s src) else v = s src) ->
  cast_pre op sb w v -> genv (d_cast op dst src db sb w e) (upd s dst v).
Proof. exact d_cast_sound. Qed.

(* non-vacuity: a history mixing a relational assume, arithmetic and a join reaches a
   value that is neither top nor bottom, and its side conditions hold *)
Example C03_example :
  let x := 0%N in let y := 1%N in
  let h := [HAssume 0%nat [mkLC INEQ (mkLE [(-1, x)] 1); mkLC INEQ (mkLE [(1, x)] (-5))];   (* 1 <= x <= 5 *)
            HArith 0%nat OpMul y x (OCst 3);                                              (* y := x * 3 *)
            HCopy 1%nat 0%nat;
            HAssume 1%nat [mkLC STRICT (mkLE [(2, x)] (-3))];                             (* 2x < 3 *)
            HJoin 0%nat 0%nat 1%nat] in
  hist_ok (repeat e_top 2%nat) h /\
  e_at (rget (hrun (repeat e_top 2%nat) h) 0%nat) y = mkI (Fin 3) (Fin 15) /\
  e_at (rget (hrun (repeat e_top 2%nat) h) 1%nat) x = mkI (Fin 1) (Fin 1).
Proof.
  cbv zeta. split; [|split; vm_compute; reflexivity].
  cbn [hist_ok hop_ok hstep].
  repeat match goal with |- _ /\ _ => split end; try exact I;
    intros c IN; apply wf_lcb_sound;
    repeat (destruct IN as [<-|IN]; [reflexivity|]); destruct IN.
Qed.

Print Assumptions C03_history_sound.
Print Assumptions C03_history_sound_from_any_state.
Print Assumptions C03_at_sound.
Print Assumptions C03_entails_sound.
Print Assumptions C03_exported_constraints_sound.
Print Assumptions C03_not_bottom_while_a_state_exists.
Print Assumptions C03_assign_sound.
Print Assumptions C03_arith_sound.
Print Assumptions C03_bitwise_sound.
Print Assumptions C03_assume_sound.
Print Assumptions C03_solver_sound.
Print Assumptions C03_select_sound.
Print Assumptions C03_cast_sound.
