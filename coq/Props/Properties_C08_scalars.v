(* Property C08, second half — congruences, signs, constants, three-valued booleans, small
   ranges, the reduced product interval x congruence and disjunctive intervals
   over-approximate the concrete operations.  Statements only; every proof is a reference to a lemma of the development.
   Models (mirrors of the C++ with fixes/scalars2-*.diff applied): Scalar/Congruence.v, Sign.v,
   Constant.v, Boolean.v, SmallRange.v, ItvCongruence.v, DisItv.v.
   Concrete operators: Coq Z ([Z.quot]/[Z.rem] truncate like z_number; [Z.land]/[Z.lor]/[Z.lxor];
   shifts [Z.shiftl] = * 2^k and [Z.shiftr] = floor division by 2^k, for amounts k >= 0).
   Unsigned division/remainder and logical shift right depend on a bit width that these
   domains do not know: UDiv/URem results are proved to contain *every* integer (congruences,
   signs, constants) or stated as for intervals (C08_itv_urem_sound); LShr is constrained only
   where it is independent of the width (non-negative shifted value; amount 0 for signs).
   [cwf] is the normal form a >= 0, 0 <= b < a that every constructor establishes
   (C08_cg_normal_form); the shift-amount operand of Shl is assumed to satisfy it.
   A small_range abstracts a set of variable indexes ([vset] = Z -> Prop).
   [dwf] is the invariant of a normalised dis_interval (non-empty intervals with
   non-decreasing bounds) which every constructor establishes (C08_di_normalize_wf);
   the operations that use the hull of the list (widening, approx, singleton) assume it. *)
From Coq Require Import ZArith Bool Znumtheory.
From CrabV Require Import Base.ZInf Scalar.Itv Scalar.ItvSound
  Scalar.Congruence Scalar.CongruenceSound Scalar.Sign Scalar.SignSound
  Scalar.Constant Scalar.ConstantSound Scalar.Boolean Scalar.BooleanSound
  Scalar.SmallRange Scalar.SmallRangeSound Scalar.ItvCongruence Scalar.ItvCongruenceSound
  Scalar.DisItv Scalar.DisItvSound.
Local Open Scope Z_scope.

Theorem C08_cg_add_sound :
  forall a b x y, cgamma a x -> cgamma b y -> cgamma (cg_add a b) (x + y).
Proof. exact cg_add_sound. Qed.
Theorem C08_cg_sub_sound :
  forall a b x y, cgamma a x -> cgamma b y -> cgamma (cg_sub a b) (x - y).
Proof. exact cg_sub_sound. Qed.
Theorem C08_cg_neg_sound :
  forall a x, cgamma a x -> cgamma (cg_neg a) (- x).
Proof. exact cg_neg_sound. Qed.
Theorem C08_cg_mul_sound :
  forall a b x y, cgamma a x -> cgamma b y -> cgamma (cg_mul a b) (x * y).
Proof. exact cg_mul_sound. Qed.
Theorem C08_cg_sdiv_sound :
  forall a b x y, cgamma a x -> cgamma b y -> y <> 0 -> cgamma (cg_div a b) (Z.quot x y).
Proof. exact cg_div_sound. Qed.
Theorem C08_cg_srem_sound :
  forall a b x y, cgamma a x -> cgamma b y -> y <> 0 -> cgamma (cg_rem a b) (Z.rem x y).
Proof. exact cg_rem_sound. Qed.
Theorem C08_cg_udiv_sound :
  forall a b (r : Z), cgamma (cg_udiv a b) r.
Proof. exact cg_udiv_sound. Qed.
Theorem C08_cg_urem_sound :
  forall a b (r : Z), cgamma (cg_urem a b) r.
Proof. exact cg_urem_sound. Qed.
Theorem C08_cg_and_sound :
  forall a b x y, cgamma a x -> cgamma b y -> cgamma (cg_and a b) (Z.land x y).
Proof. exact cg_and_sound. Qed.
Theorem C08_cg_or_sound :
  forall a b x y, cgamma a x -> cgamma b y -> cgamma (cg_or a b) (Z.lor x y).
Proof. exact cg_or_sound. Qed.
Theorem C08_cg_xor_sound :
  forall a b x y, cgamma a x -> cgamma b y -> cgamma (cg_xor a b) (Z.lxor x y).
Proof. exact cg_xor_sound. Qed.
Theorem C08_cg_shl_sound :
  forall a b x k, cwf b -> cgamma a x -> cgamma b k -> 0 <= k -> cgamma (cg_shl a b) (Z.shiftl x k).
Proof. exact cg_shl_sound. Qed.
Theorem C08_cg_ashr_sound :
  forall a b x k, cgamma a x -> cgamma b k -> 0 <= k -> cgamma (cg_ashr a b) (Z.shiftr x k).
Proof. exact cg_ashr_sound. Qed.
Theorem C08_cg_lshr_sound :
  forall a b x k, cgamma a x -> cgamma b k -> 0 <= k ->
  forall r, (0 <= x -> r = Z.shiftr x k) -> cgamma (cg_lshr a b) r.
Proof. exact cg_lshr_sound. Qed.
Theorem C08_cg_join_sound :
  forall a b x, cgamma a x \/ cgamma b x -> cgamma (cg_join a b) x.
Proof. exact cg_join_sound. Qed.
Theorem C08_cg_join_least :
  forall a b c, (forall x, cgamma a x -> cgamma c x) -> (forall x, cgamma b x -> cgamma c x) ->
  forall x, cgamma (cg_join a b) x -> cgamma c x.
Proof. exact cg_join_least. Qed.
Theorem C08_cg_meet_exact :
  forall a b x, cgamma (cg_meet a b) x <-> (cgamma a x /\ cgamma b x).
Proof. exact cg_meet_exact. Qed.
Theorem C08_cg_widen_sound :
  forall a b x, cgamma a x \/ cgamma b x -> cgamma (cg_widen a b) x.
Proof. exact cg_widen_sound. Qed.
Theorem C08_cg_narrow_sound :
  forall a b x, cgamma a x -> cgamma b x -> cgamma (cg_narrow a b) x.
Proof. exact cg_narrow_sound. Qed.
Theorem C08_cg_narrow_below :
  forall a b x, cgamma (cg_narrow a b) x -> cgamma a x.
Proof. exact cg_narrow_below. Qed.
Theorem C08_cg_leq_sound :
  forall a b, cg_leq a b = true -> forall x, cgamma a x -> cgamma b x.
Proof. exact cg_leq_sound. Qed.
Theorem C08_cg_leq_complete :
  forall a b, (forall x, cgamma a x -> cgamma b x) -> cg_leq a b = true.
Proof. exact cg_leq_complete. Qed.
Theorem C08_cg_leq_refl :
  forall a, cg_leq a a = true.
Proof. exact cg_leq_refl. Qed.
Theorem C08_cg_eq_sound :
  forall a b, cg_eq a b = true -> forall x, cgamma a x <-> cgamma b x.
Proof. exact cg_eq_sound. Qed.
Theorem C08_cg_bottom_empty :
  forall a x, cg_is_bot a = true -> ~ cgamma a x.
Proof. exact cgamma_is_bot. Qed.
Theorem C08_cg_top_full :
  forall a x, cg_is_top a = true -> cgamma a x.
Proof. exact cgamma_is_top. Qed.
Theorem C08_cg_singleton_exact :
  forall a n, cg_singleton a = Some n -> forall x, cgamma a x <-> x = n.
Proof. exact cg_singleton_spec. Qed.
Theorem C08_cg_normalize_exact :
  forall a b x, cgamma (cg_mk a b) x <-> (a | x - b).
Proof. exact cgamma_mk. Qed.
Theorem C08_cg_normal_form :
  forall a b, cwf (cg_mk a b).
Proof. exact cwf_mk. Qed.
Theorem C08_sg_const_sound :
  forall c, sgamma (sg_const c) c.
Proof. exact sg_const_sound. Qed.
Theorem C08_sg_add_sound :
  forall a b x y, sgamma a x -> sgamma b y -> sgamma (sg_add a b) (x + y).
Proof. exact sg_add_sound. Qed.
Theorem C08_sg_sub_sound :
  forall a b x y, sgamma a x -> sgamma b y -> sgamma (sg_sub a b) (x - y).
Proof. exact sg_sub_sound. Qed.
Theorem C08_sg_mul_sound :
  forall a b x y, sgamma a x -> sgamma b y -> sgamma (sg_mul a b) (x * y).
Proof. exact sg_mul_sound. Qed.
Theorem C08_sg_sdiv_sound :
  forall a b x y, sgamma a x -> sgamma b y -> y <> 0 -> sgamma (sg_div a b) (Z.quot x y).
Proof. exact sg_div_sound. Qed.
Theorem C08_sg_udiv_srem_urem_sound :
  forall a b x y (r : Z), sgamma a x -> sgamma b y -> sgamma (sg_default a b) r.
Proof. exact sg_default_sound. Qed.
Theorem C08_sg_and_sound :
  forall a b x y, sgamma a x -> sgamma b y -> sgamma (sg_and a b) (Z.land x y).
Proof. exact sg_and_sound. Qed.
Theorem C08_sg_or_sound :
  forall a b x y, sgamma a x -> sgamma b y -> sgamma (sg_or a b) (Z.lor x y).
Proof. exact sg_or_sound. Qed.
Theorem C08_sg_xor_sound :
  forall a b x y, sgamma a x -> sgamma b y -> sgamma (sg_xor a b) (Z.lxor x y).
Proof. exact sg_xor_sound. Qed.
Theorem C08_sg_shl_sound :
  forall a b x k, sgamma a x -> sgamma b k -> sgamma (sg_shift a b) (Z.shiftl x k).
Proof. exact sg_shl_sound. Qed.
Theorem C08_sg_ashr_sound :
  forall a b x k, sgamma a x -> sgamma b k -> sgamma (sg_shift a b) (Z.shiftr x k).
Proof. exact sg_ashr_sound. Qed.
Theorem C08_sg_lshr_sound :
  forall a b x k r, sgamma a x -> sgamma b k -> (k = 0 -> r = x) -> (0 <= x -> r = Z.shiftr x k) ->
  sgamma (sg_shift a b) r.
Proof. exact sg_lshr_sound. Qed.
Theorem C08_sg_join_sound :
  forall a b x, sgamma a x \/ sgamma b x -> sgamma (sg_join a b) x.
Proof. exact sg_join_sound. Qed.
Theorem C08_sg_join_least :
  forall a b c, sg_leq a c = true -> sg_leq b c = true -> sg_leq (sg_join a b) c = true.
Proof. exact sg_join_least. Qed.
Theorem C08_sg_meet_exact :
  forall a b x, sgamma (sg_meet a b) x <-> (sgamma a x /\ sgamma b x).
Proof. exact sg_meet_exact. Qed.
Theorem C08_sg_leq_sound :
  forall a b, sg_leq a b = true -> forall x, sgamma a x -> sgamma b x.
Proof. exact sg_leq_sound. Qed.
Theorem C08_sg_leq_complete :
  forall a b, (forall x, sgamma a x -> sgamma b x) -> sg_leq a b = true.
Proof. exact sg_leq_complete. Qed.
Theorem C08_sg_from_interval_sound :
  forall i x, gamma i x -> sgamma (sg_from_itv i) x.
Proof. exact sg_from_itv_sound. Qed.
Theorem C08_sg_to_interval_sound :
  forall s x, sgamma s x -> gamma (sg_to_itv s) x.
Proof. exact sg_to_itv_sound. Qed.
Theorem C08_sg_bottom_empty :
  forall s, sg_is_bot s = true <-> (forall x, ~ sgamma s x).
Proof. exact sg_is_bot_spec. Qed.
Theorem C08_sg_top_full :
  forall s x, sg_is_top s = true -> sgamma s x.
Proof. exact sg_is_top_sound. Qed.
Theorem C08_ct_add_sound :
  forall a b x y, ctgamma a x -> ctgamma b y -> ctgamma (ct_add a b) (x + y).
Proof. exact ct_add_sound. Qed.
Theorem C08_ct_sub_sound :
  forall a b x y, ctgamma a x -> ctgamma b y -> ctgamma (ct_sub a b) (x - y).
Proof. exact ct_sub_sound. Qed.
Theorem C08_ct_mul_sound :
  forall a b x y, ctgamma a x -> ctgamma b y -> ctgamma (ct_mul a b) (x * y).
Proof. exact ct_mul_sound. Qed.
Theorem C08_ct_sdiv_sound :
  forall a b x y, ctgamma a x -> ctgamma b y -> y <> 0 -> ctgamma (ct_sdiv a b) (Z.quot x y).
Proof. exact ct_sdiv_sound. Qed.
Theorem C08_ct_srem_sound :
  forall a b x y, ctgamma a x -> ctgamma b y -> y <> 0 -> ctgamma (ct_srem a b) (Z.rem x y).
Proof. exact ct_srem_sound. Qed.
Theorem C08_ct_udiv_sound :
  forall a b x y (r : Z), ctgamma a x -> ctgamma b y -> y <> 0 -> ctgamma (ct_udiv a b) r.
Proof. exact ct_udiv_sound. Qed.
Theorem C08_ct_urem_sound :
  forall a b x y (r : Z), ctgamma a x -> ctgamma b y -> y <> 0 -> ctgamma (ct_urem a b) r.
Proof. exact ct_urem_sound. Qed.
Theorem C08_ct_and_sound :
  forall a b x y, ctgamma a x -> ctgamma b y -> ctgamma (ct_and a b) (Z.land x y).
Proof. exact ct_and_sound. Qed.
Theorem C08_ct_or_sound :
  forall a b x y, ctgamma a x -> ctgamma b y -> ctgamma (ct_or a b) (Z.lor x y).
Proof. exact ct_or_sound. Qed.
Theorem C08_ct_xor_sound :
  forall a b x y, ctgamma a x -> ctgamma b y -> ctgamma (ct_xor a b) (Z.lxor x y).
Proof. exact ct_xor_sound. Qed.
Theorem C08_ct_shl_sound :
  forall a b x k, ctgamma a x -> ctgamma b k -> 0 <= k -> ctgamma (ct_shl a b) (Z.shiftl x k).
Proof. exact ct_shl_sound. Qed.
Theorem C08_ct_ashr_sound :
  forall a b x k, ctgamma a x -> ctgamma b k -> 0 <= k -> ctgamma (ct_ashr a b) (Z.shiftr x k).
Proof. exact ct_ashr_sound. Qed.
Theorem C08_ct_lshr_sound :
  forall a b x k, ctgamma a x -> ctgamma b k -> 0 <= k ->
  forall r, (0 <= x -> r = Z.shiftr x k) -> ctgamma (ct_lshr a b) r.
Proof. exact ct_lshr_sound. Qed.
Theorem C08_ct_join_sound :
  forall a b x, ctgamma a x \/ ctgamma b x -> ctgamma (ct_join a b) x.
Proof. exact ct_join_sound. Qed.
Theorem C08_ct_join_least :
  forall a b c, ct_leq a c = true -> ct_leq b c = true -> ct_leq (ct_join a b) c = true.
Proof. exact ct_join_least. Qed.
Theorem C08_ct_meet_exact :
  forall a b x, ctgamma (ct_meet a b) x <-> (ctgamma a x /\ ctgamma b x).
Proof. exact ct_meet_exact. Qed.
Theorem C08_ct_widen_sound :
  forall a b x, ctgamma a x \/ ctgamma b x -> ctgamma (ct_widen a b) x.
Proof. exact ct_widen_sound. Qed.
Theorem C08_ct_narrow_sound :
  forall a b x, ctgamma a x -> ctgamma b x -> ctgamma (ct_narrow a b) x.
Proof. exact ct_narrow_sound. Qed.
Theorem C08_ct_leq_sound :
  forall a b, ct_leq a b = true -> forall x, ctgamma a x -> ctgamma b x.
Proof. exact ct_leq_sound. Qed.
Theorem C08_ct_leq_complete :
  forall a b, (forall x, ctgamma a x -> ctgamma b x) -> ct_leq a b = true.
Proof. exact ct_leq_complete. Qed.
Theorem C08_ct_bottom_empty :
  forall c, ct_is_bot c = true <-> (forall x, ~ ctgamma c x).
Proof. exact ct_is_bot_spec. Qed.
Theorem C08_ct_top_full :
  forall c, ct_is_top c = true <-> (forall x, ctgamma c x).
Proof. exact ct_is_top_spec. Qed.
Theorem C08_bv_and_sound :
  forall x y a b, bgamma x a -> bgamma y b -> bgamma (bv_and x y) (a && b).
Proof. exact bv_and_sound. Qed.
Theorem C08_bv_or_sound :
  forall x y a b, bgamma x a -> bgamma y b -> bgamma (bv_or x y) (a || b).
Proof. exact bv_or_sound. Qed.
Theorem C08_bv_xor_sound :
  forall x y a b, bgamma x a -> bgamma y b -> bgamma (bv_xor x y) (xorb a b).
Proof. exact bv_xor_sound. Qed.
Theorem C08_bv_negate_sound :
  forall x a, bgamma x a -> bgamma (bv_negate x) (negb a).
Proof. exact bv_negate_sound. Qed.
Theorem C08_bv_join_sound :
  forall x y b, bgamma x b \/ bgamma y b -> bgamma (bv_join x y) b.
Proof. exact bv_join_sound. Qed.
Theorem C08_bv_join_least :
  forall x y z, bv_leq x z = true -> bv_leq y z = true -> bv_leq (bv_join x y) z = true.
Proof. exact bv_join_least. Qed.
Theorem C08_bv_meet_exact :
  forall x y b, bgamma (bv_meet x y) b <-> (bgamma x b /\ bgamma y b).
Proof. exact bv_meet_exact. Qed.
Theorem C08_bv_leq_sound :
  forall x y, bv_leq x y = true -> forall b, bgamma x b -> bgamma y b.
Proof. exact bv_leq_sound. Qed.
Theorem C08_bv_leq_complete :
  forall x y, (forall b, bgamma x b -> bgamma y b) -> bv_leq x y = true.
Proof. exact bv_leq_complete. Qed.
Theorem C08_bv_bottom_empty :
  forall x, bv_is_bot x = true <-> (forall b, ~ bgamma x b).
Proof. exact bv_is_bot_spec. Qed.
Theorem C08_bv_top_full :
  forall x, bv_is_top x = true <-> (forall b, bgamma x b).
Proof. exact bv_is_top_spec. Qed.
Theorem C08_sr_zero_sound :
  rgamma RZero vempty.
Proof. exact rgamma_zero. Qed.
Theorem C08_sr_increment_sound :
  forall x S v, rgamma x S -> rgamma (sr_incr x v) (vadd S v).
Proof. exact sr_incr_sound. Qed.
Theorem C08_sr_join_sound :
  forall x y S, rgamma x S \/ rgamma y S -> rgamma (sr_join x y) S.
Proof. exact sr_join_sound. Qed.
Theorem C08_sr_meet_sound :
  forall x y S, rgamma x S -> rgamma y S -> rgamma (sr_meet x y) S.
Proof. exact sr_meet_sound. Qed.
Theorem C08_sr_meet_below :
  forall x y S, rgamma (sr_meet x y) S -> rgamma x S /\ rgamma y S.
Proof. exact sr_meet_below. Qed.
Theorem C08_sr_widen_sound :
  forall x y S, rgamma x S \/ rgamma y S -> rgamma (sr_widen x y) S.
Proof. exact sr_widen_sound. Qed.
Theorem C08_sr_narrow_sound :
  forall x y S, rgamma x S -> rgamma y S -> rgamma (sr_narrow x y) S.
Proof. exact sr_narrow_sound. Qed.
Theorem C08_sr_leq_sound :
  forall x y, sr_leq x y = true -> forall S, rgamma x S -> rgamma y S.
Proof. exact sr_leq_sound. Qed.
Theorem C08_sr_leq_refl :
  forall x, sr_leq x x = true.
Proof. exact sr_leq_refl. Qed.
Theorem C08_sr_leq_bottom :
  forall x, sr_leq RBot x = true.
Proof. exact sr_leq_bot_l. Qed.
Theorem C08_sr_leq_top :
  forall x, sr_leq x RZeroOrMore = true.
Proof. exact sr_leq_top_r. Qed.
Theorem C08_ic_reduce_exact :
  forall i c x, icgamma (ic_reduce i c) x <-> (gamma i x /\ cgamma c x).
Proof. exact ic_reduce_exact. Qed.
Theorem C08_ic_add_sound :
  forall p q x y, icgamma p x -> icgamma q y -> icgamma (ic_add p q) (x + y).
Proof. exact ic_add_sound. Qed.
Theorem C08_ic_sub_sound :
  forall p q x y, icgamma p x -> icgamma q y -> icgamma (ic_sub p q) (x - y).
Proof. exact ic_sub_sound. Qed.
Theorem C08_ic_mul_sound :
  forall p q x y, icgamma p x -> icgamma q y -> icgamma (ic_mul p q) (x * y).
Proof. exact ic_mul_sound. Qed.
Theorem C08_ic_sdiv_sound :
  forall p q x y, icgamma p x -> icgamma q y -> y <> 0 -> icgamma (ic_div p q) (Z.quot x y).
Proof. exact ic_div_sound. Qed.
Theorem C08_ic_srem_sound :
  forall p q x y, icgamma p x -> icgamma q y -> y <> 0 -> icgamma (ic_srem p q) (Z.rem x y).
Proof. exact ic_srem_sound. Qed.
Theorem C08_ic_udiv_sound :
  forall p q x y (r : Z), icgamma p x -> icgamma q y -> icgamma (ic_udiv p q) r.
Proof. exact ic_udiv_sound. Qed.
Theorem C08_ic_urem_sound :
  forall p q x x' y, icgamma p x -> icgamma q y -> 0 < y -> 0 <= x' -> (x' = x \/ x < 0) ->
  icgamma (ic_urem p q) (Z.rem x' y).
Proof. exact ic_urem_sound. Qed.
Theorem C08_ic_and_sound :
  forall p q x y, icgamma p x -> icgamma q y -> icgamma (ic_and p q) (Z.land x y).
Proof. exact ic_and_sound. Qed.
Theorem C08_ic_or_sound :
  forall p q x y, icgamma p x -> icgamma q y -> icgamma (ic_or p q) (Z.lor x y).
Proof. exact ic_or_sound. Qed.
Theorem C08_ic_xor_sound :
  forall p q x y, icgamma p x -> icgamma q y -> icgamma (ic_xor p q) (Z.lxor x y).
Proof. exact ic_xor_sound. Qed.
Theorem C08_ic_shl_sound :
  forall p q x k, cwf (isnd q) -> icgamma p x -> icgamma q k -> 0 <= k -> icgamma (ic_shl p q) (Z.shiftl x k).
Proof. exact ic_shl_sound. Qed.
Theorem C08_ic_ashr_sound :
  forall p q x k, icgamma p x -> icgamma q k -> 0 <= k -> icgamma (ic_ashr p q) (Z.shiftr x k).
Proof. exact ic_ashr_sound. Qed.
Theorem C08_ic_lshr_sound :
  forall p q x k, icgamma p x -> icgamma q k -> 0 <= k ->
  forall r, (0 <= x -> r = Z.shiftr x k) -> icgamma (ic_lshr p q) r.
Proof. exact ic_lshr_sound. Qed.
Theorem C08_ic_cast_sound :
  forall p (r : Z), icgamma (ic_cast p) r.
Proof. exact ic_cast_sound. Qed.
Theorem C08_ic_join_sound :
  forall p q x, icgamma p x \/ icgamma q x -> icgamma (ic_join p q) x.
Proof. exact ic_join_sound. Qed.
Theorem C08_ic_meet_sound :
  forall p q x, icgamma p x -> icgamma q x -> icgamma (ic_meet p q) x.
Proof. exact ic_meet_sound. Qed.
Theorem C08_ic_reduce_keeps_normal_form :
  forall i c, cwf c -> cwf (isnd (ic_reduce i c)).
Proof. exact ic_reduce_cwf. Qed.
Theorem C08_di_of_interval_sound :
  forall i x, gamma i x -> dgamma (di_of_itv i) x.
Proof. exact di_of_itv_sound. Qed.
Theorem C08_di_of_interval_exact :
  forall i x, wf i -> dgamma (di_of_itv i) x -> gamma i x.
Proof. exact di_of_itv_exact. Qed.
Theorem C08_di_normalize_sound :
  forall l x, lgamma l x -> dgamma (di_of_list l) x.
Proof. exact di_of_list_sound. Qed.
Theorem C08_di_normalize_wf :
  forall l, dwf (di_of_list l).
Proof. exact di_of_list_wf. Qed.
Theorem C08_di_add_sound :
  forall a b x y, dgamma a x -> dgamma b y -> dgamma (di_add a b) (x + y).
Proof. exact di_add_sound. Qed.
Theorem C08_di_sub_sound :
  forall a b x y, dgamma a x -> dgamma b y -> dgamma (di_sub a b) (x - y).
Proof. exact di_sub_sound. Qed.
Theorem C08_di_neg_sound :
  forall a x, dgamma a x -> dgamma (di_neg a) (- x).
Proof. exact di_neg_sound. Qed.
Theorem C08_di_mul_sound :
  forall a b x y, dgamma a x -> dgamma b y -> dgamma (di_mul a b) (x * y).
Proof. exact di_mul_sound. Qed.
Theorem C08_di_sdiv_sound :
  forall a b x y, dgamma a x -> dgamma b y -> y <> 0 -> dgamma (di_div a b) (Z.quot x y).
Proof. exact di_div_sound. Qed.
Theorem C08_di_srem_sound :
  forall a b x y, dgamma a x -> dgamma b y -> y <> 0 -> dgamma (di_srem a b) (Z.rem x y).
Proof. exact di_srem_sound. Qed.
Theorem C08_di_udiv_sound :
  forall a b x y (r : Z), dgamma a x -> dgamma b y -> dgamma (di_udiv a b) r.
Proof. exact di_udiv_sound. Qed.
Theorem C08_di_urem_sound :
  forall a b x x' y, dgamma a x -> dgamma b y -> 0 < y -> 0 <= x' -> (x' = x \/ x < 0) ->
  dgamma (di_urem a b) (Z.rem x' y).
Proof. exact di_urem_sound. Qed.
Theorem C08_di_and_sound :
  forall a b x y, dgamma a x -> dgamma b y -> dgamma (di_and a b) (Z.land x y).
Proof. exact di_and_sound. Qed.
Theorem C08_di_or_sound :
  forall a b x y, dgamma a x -> dgamma b y -> dgamma (di_or a b) (Z.lor x y).
Proof. exact di_or_sound. Qed.
Theorem C08_di_xor_sound :
  forall a b x y, dgamma a x -> dgamma b y -> dgamma (di_xor a b) (Z.lxor x y).
Proof. exact di_xor_sound. Qed.
Theorem C08_di_shl_sound :
  forall a b x k, dgamma a x -> dgamma b k -> 0 <= k -> dgamma (di_shl a b) (Z.shiftl x k).
Proof. exact di_shl_sound. Qed.
Theorem C08_di_ashr_sound :
  forall a b x k, dgamma a x -> dgamma b k -> 0 <= k -> dgamma (di_ashr a b) (Z.shiftr x k).
Proof. exact di_ashr_sound. Qed.
Theorem C08_di_lshr_sound :
  forall a b x k, dgamma a x -> dgamma b k -> 0 <= k ->
  forall r, (0 <= x -> r = Z.shiftr x k) -> dgamma (di_lshr a b) r.
Proof. exact di_lshr_sound. Qed.
Theorem C08_di_lower_half_line_sound :
  forall a x w, dgamma a x -> w <= x -> dgamma (di_lower_half a) w.
Proof. exact di_lower_half_sound. Qed.
Theorem C08_di_upper_half_line_sound :
  forall a x w, dgamma a x -> x <= w -> dgamma (di_upper_half a) w.
Proof. exact di_upper_half_sound. Qed.
Theorem C08_di_join_sound :
  forall a b x, dgamma a x \/ dgamma b x -> dgamma (di_join a b) x.
Proof. exact di_join_sound. Qed.
Theorem C08_di_meet_sound :
  forall a b x, dgamma a x -> dgamma b x -> dgamma (di_meet a b) x.
Proof. exact di_meet_sound. Qed.
Theorem C08_di_widen_sound :
  forall a b x, dwf a -> dwf b -> dgamma a x \/ dgamma b x -> dgamma (di_widen a b) x.
Proof. exact di_widen_sound. Qed.
Theorem C08_di_narrow_sound :
  forall a b x, dgamma a x -> dgamma b x -> dgamma (di_narrow a b) x.
Proof. exact di_narrow_sound. Qed.
Theorem C08_di_leq_sound :
  forall a b, di_leq a b = true -> forall x, dgamma a x -> dgamma b x.
Proof. exact di_leq_sound. Qed.
Theorem C08_di_leq_refl :
  forall a, di_leq a a = true.
Proof. exact di_leq_refl. Qed.
Theorem C08_di_eq_sound :
  forall a b, di_eq a b = true -> forall x, dgamma a x <-> dgamma b x.
Proof. exact di_eq_sound. Qed.
Theorem C08_di_approx_sound :
  forall d x, dwf d -> dgamma d x -> gamma (di_approx d) x.
Proof. exact di_approx_sound. Qed.
Theorem C08_di_singleton_sound :
  forall d n x, dwf d -> di_singleton d = Some n -> dgamma d x -> x = n.
Proof. exact di_singleton_sound. Qed.
Theorem C08_di_trim_sound :
  forall a b c x, di_singleton b = Some c -> dgamma a x -> x <> c -> dgamma (di_trim a b) x.
Proof. exact di_trim_sound. Qed.
Theorem C08_di_operations_keep_wf :
  forall op sc a b, dwf (di_binop op sc a b).
Proof. exact di_binop_wf. Qed.
Theorem C08_di_join_keeps_wf :
  forall a b, dwf a -> dwf b -> dwf (di_join a b).
Proof. exact di_join_wf. Qed.
Theorem C08_di_meet_keeps_wf :
  forall a b, dwf a -> dwf b -> dwf (di_meet a b).
Proof. exact di_meet_wf. Qed.
Theorem C08_di_widen_keeps_wf :
  forall a b, dwf a -> dwf b -> dwf (di_widen a b).
Proof. exact di_widen_wf. Qed.

Print Assumptions C08_cg_add_sound.
Print Assumptions C08_cg_sub_sound.
Print Assumptions C08_cg_neg_sound.
Print Assumptions C08_cg_mul_sound.
Print Assumptions C08_cg_sdiv_sound.
Print Assumptions C08_cg_srem_sound.
Print Assumptions C08_cg_udiv_sound.
Print Assumptions C08_cg_urem_sound.
Print Assumptions C08_cg_and_sound.
Print Assumptions C08_cg_or_sound.
Print Assumptions C08_cg_xor_sound.
Print Assumptions C08_cg_shl_sound.
Print Assumptions C08_cg_ashr_sound.
Print Assumptions C08_cg_lshr_sound.
Print Assumptions C08_cg_join_sound.
Print Assumptions C08_cg_join_least.
Print Assumptions C08_cg_meet_exact.
Print Assumptions C08_cg_widen_sound.
Print Assumptions C08_cg_narrow_sound.
Print Assumptions C08_cg_narrow_below.
Print Assumptions C08_cg_leq_sound.
Print Assumptions C08_cg_leq_complete.
Print Assumptions C08_cg_leq_refl.
Print Assumptions C08_cg_eq_sound.
Print Assumptions C08_cg_bottom_empty.
Print Assumptions C08_cg_top_full.
Print Assumptions C08_cg_singleton_exact.
Print Assumptions C08_cg_normalize_exact.
Print Assumptions C08_cg_normal_form.
Print Assumptions C08_sg_const_sound.
Print Assumptions C08_sg_add_sound.
Print Assumptions C08_sg_sub_sound.
Print Assumptions C08_sg_mul_sound.
Print Assumptions C08_sg_sdiv_sound.
Print Assumptions C08_sg_udiv_srem_urem_sound.
Print Assumptions C08_sg_and_sound.
Print Assumptions C08_sg_or_sound.
Print Assumptions C08_sg_xor_sound.
Print Assumptions C08_sg_shl_sound.
Print Assumptions C08_sg_ashr_sound.
Print Assumptions C08_sg_lshr_sound.
Print Assumptions C08_sg_join_sound.
Print Assumptions C08_sg_join_least.
Print Assumptions C08_sg_meet_exact.
Print Assumptions C08_sg_leq_sound.
Print Assumptions C08_sg_leq_complete.
Print Assumptions C08_sg_from_interval_sound.
Print Assumptions C08_sg_to_interval_sound.
Print Assumptions C08_sg_bottom_empty.
Print Assumptions C08_sg_top_full.
Print Assumptions C08_ct_add_sound.
Print Assumptions C08_ct_sub_sound.
Print Assumptions C08_ct_mul_sound.
Print Assumptions C08_ct_sdiv_sound.
Print Assumptions C08_ct_srem_sound.
Print Assumptions C08_ct_udiv_sound.
Print Assumptions C08_ct_urem_sound.
Print Assumptions C08_ct_and_sound.
Print Assumptions C08_ct_or_sound.
Print Assumptions C08_ct_xor_sound.
Print Assumptions C08_ct_shl_sound.
Print Assumptions C08_ct_ashr_sound.
Print Assumptions C08_ct_lshr_sound.
Print Assumptions C08_ct_join_sound.
Print Assumptions C08_ct_join_least.
Print Assumptions C08_ct_meet_exact.
Print Assumptions C08_ct_widen_sound.
Print Assumptions C08_ct_narrow_sound.
Print Assumptions C08_ct_leq_sound.
Print Assumptions C08_ct_leq_complete.
Print Assumptions C08_ct_bottom_empty.
Print Assumptions C08_ct_top_full.
Print Assumptions C08_bv_and_sound.
Print Assumptions C08_bv_or_sound.
Print Assumptions C08_bv_xor_sound.
Print Assumptions C08_bv_negate_sound.
Print Assumptions C08_bv_join_sound.
Print Assumptions C08_bv_join_least.
Print Assumptions C08_bv_meet_exact.
Print Assumptions C08_bv_leq_sound.
Print Assumptions C08_bv_leq_complete.
Print Assumptions C08_bv_bottom_empty.
Print Assumptions C08_bv_top_full.
Print Assumptions C08_sr_zero_sound.
Print Assumptions C08_sr_increment_sound.
Print Assumptions C08_sr_join_sound.
Print Assumptions C08_sr_meet_sound.
Print Assumptions C08_sr_meet_below.
Print Assumptions C08_sr_widen_sound.
Print Assumptions C08_sr_narrow_sound.
Print Assumptions C08_sr_leq_sound.
Print Assumptions C08_sr_leq_refl.
Print Assumptions C08_sr_leq_bottom.
Print Assumptions C08_sr_leq_top.
Print Assumptions C08_ic_reduce_exact.
Print Assumptions C08_ic_add_sound.
Print Assumptions C08_ic_sub_sound.
Print Assumptions C08_ic_mul_sound.
Print Assumptions C08_ic_sdiv_sound.
Print Assumptions C08_ic_srem_sound.
Print Assumptions C08_ic_udiv_sound.
Print Assumptions C08_ic_urem_sound.
Print Assumptions C08_ic_and_sound.
Print Assumptions C08_ic_or_sound.
Print Assumptions C08_ic_xor_sound.
Print Assumptions C08_ic_shl_sound.
Print Assumptions C08_ic_ashr_sound.
Print Assumptions C08_ic_lshr_sound.
Print Assumptions C08_ic_cast_sound.
Print Assumptions C08_ic_join_sound.
Print Assumptions C08_ic_meet_sound.
Print Assumptions C08_ic_reduce_keeps_normal_form.
Print Assumptions C08_di_of_interval_sound.
Print Assumptions C08_di_of_interval_exact.
Print Assumptions C08_di_normalize_sound.
Print Assumptions C08_di_normalize_wf.
Print Assumptions C08_di_add_sound.
Print Assumptions C08_di_sub_sound.
Print Assumptions C08_di_neg_sound.
Print Assumptions C08_di_mul_sound.
Print Assumptions C08_di_sdiv_sound.
Print Assumptions C08_di_srem_sound.
Print Assumptions C08_di_udiv_sound.
Print Assumptions C08_di_urem_sound.
Print Assumptions C08_di_and_sound.
Print Assumptions C08_di_or_sound.
Print Assumptions C08_di_xor_sound.
Print Assumptions C08_di_shl_sound.
Print Assumptions C08_di_ashr_sound.
Print Assumptions C08_di_lshr_sound.
Print Assumptions C08_di_lower_half_line_sound.
Print Assumptions C08_di_upper_half_line_sound.
Print Assumptions C08_di_join_sound.
Print Assumptions C08_di_meet_sound.
Print Assumptions C08_di_widen_sound.
Print Assumptions C08_di_narrow_sound.
Print Assumptions C08_di_leq_sound.
Print Assumptions C08_di_leq_refl.
Print Assumptions C08_di_eq_sound.
Print Assumptions C08_di_approx_sound.
Print Assumptions C08_di_singleton_sound.
Print Assumptions C08_di_trim_sound.
Print Assumptions C08_di_operations_keep_wf.
Print Assumptions C08_di_join_keeps_wf.
Print Assumptions C08_di_meet_keeps_wf.
Print Assumptions C08_di_widen_keeps_wf.
