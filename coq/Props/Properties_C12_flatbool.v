(* Property C12, lifting clause, for the Coq mirror of flat_boolean_numerical_domain<interval_domain>:
   on straight-line numerical code the boolean lifting evolves exactly like the bare interval domain.
   Statements only. *)
From Coq Require Import ZArith NArith List Bool.
From CrabV Require Import Base.ZInf Scalar.Itv Scalar.ItvSound Ir.Syntax Dom.ItvEnv Dom.ItvEnvSound
     Dom.ItvSolver Dom.ItvSolverSound Dom.ItvDomain Dom.ItvDomainSound Dom.History Dom.HistorySound
     Dom.FlatBool Dom.FlatBoolSound.
Import ListNotations.
Local Open Scope Z_scope.

(* C12, lifting clause.  On numerical code (any history of the interval-domain language
   without casts that involve a Boolean, empty assume / project, meet and narrowing: lift_ok)
   the numerical component of the product is exactly the value the bare interval-domain
   model computes, bottom is reported alike, and at(v) is the same interval. *)
Theorem C12_flatbool_lifting_numerical : forall isb h n r,
  Forall lift_ok h ->
  let st := frget (frun isb (repeat fb_top n) (map lift h)) r in
  let e := rget (hrun (repeat e_top n) h) r in
  p_snd (f_prod st) = e /\ fb_is_bot st = e_is_bot e /\ forall v, fb_at st v = inorm (e_at e v).
Proof. exact lifting_numerical. Qed.

Print Assumptions C12_flatbool_lifting_numerical.
