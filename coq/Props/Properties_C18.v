(* Property C18 — liveness and assertion-dependence facts.  Statements only.

   Models: Ana/Liveness.v (liveness.hpp + killgen_fixpoint_iterator.hpp after fixes
   transforms-1/2: per-statement use/def as cfg.hpp's live_t, block kill/gen with the
   `unreachable` reset, outputs live at the exit block, least solution, dead_exit),
   Ana/Crawler.v (assertion_crawler.hpp, intra-procedural map assertion -> variables, with the
   control dependences of cdg.hpp).  Semantics: Ana/CfgSem.v (small-step, traces of
   branches / assume and assertion outcomes / outputs at exit).

   C18_liveness_*: if x is not in live-out(b) (in particular if dead_exit(b) reports it), then
   for every execution from the end of b there is an execution from the store in which x was
   changed with the SAME trace (branches taken, assume outcomes, assertion outcomes, outputs at
   the exit) ending at the same program point (or both finished / both failed); the sets of
   traces, of finished traces and of failing traces coincide.  Unbounded over CFGs (loops,
   `unreachable` anywhere, any function declaration), blocks, variables and executions.
   The solution is the least one (C18_liveness_least).

   C18_crawler_*: every assertion that a statement path from the entry of block l reaches is
   listed at l, and the value of its condition along the path is a function of the entry values
   of the listed variables (and of the havoc values): a variable whose entry value can change the
   condition's value is listed.  Proved for data dependences; the control-dependence additions
   of the model only enlarge the sets (covered by the same theorem) and their agreement with
   cdg.hpp is corresponded, not proved: C18_crawler_control_statement. *)
From Coq Require Import ZArith List Bool.
From CrabV Require Import Ir.Syntax Ana.CfgSem Ana.Liveness Ana.LivenessSound Ana.Crawler Ana.CrawlerSound.
Import ListNotations.

Theorem C18_liveness_is_least_solution : forall P m,
  liveness P = Some m ->
  is_solution P m /\ forall S, is_solution P S -> le_fun m S.
Proof. exact liveness_least_solution. Qed.
Print Assumptions C18_liveness_is_least_solution.

Theorem C18_liveness_noninterference : forall P m b x v s tr c1,
  liveness P = Some m -> ~ In x (live_get P m b) ->
  star P (at_end b s) tr c1 ->
  exists c2, star P (at_end b (upd s x v)) tr c2 /\ sim P m c1 c2.
Proof. exact liveness_noninterference. Qed.
Print Assumptions C18_liveness_noninterference.

Theorem C18_liveness_same_behaviours : forall P m b x v s tr,
  liveness P = Some m -> ~ In x (live_get P m b) ->
  ((exists c, star P (at_end b s) tr c) <-> (exists c, star P (at_end b (upd s x v)) tr c)) /\
  (star P (at_end b s) tr Done <-> star P (at_end b (upd s x v)) tr Done) /\
  (star P (at_end b s) tr Err <-> star P (at_end b (upd s x v)) tr Err).
Proof. exact liveness_same_traces. Qed.
Print Assumptions C18_liveness_same_behaviours.

Theorem C18_dead_exit_noninterference : forall P m b x v s tr c1,
  liveness P = Some m -> In x (dead_exit P m b) ->
  star P (at_end b s) tr c1 ->
  exists c2, star P (at_end b (upd s x v)) tr c2 /\ sim P m c1 c2.
Proof. exact dead_exit_noninterference. Qed.
Print Assumptions C18_dead_exit_noninterference.

Theorem C18_crawler_sound : forall P control nvars m l b pi c a,
  crawler P control nvars = Some m ->
  get_block P l = Some b ->
  spath P l (b_stmts b) (pi ++ [SAssert c a]) -> ~ In SUnreach pi ->
  exists V, lookup a (cin_of m l) = Some V /\ relevant V pi c.
Proof. exact crawler_sound. Qed.
Print Assumptions C18_crawler_sound.

Theorem C18_crawler_lists_flowing_variable : forall P control nvars m l b pi c a V x s v hv s1 s2,
  crawler P control nvars = Some m -> get_block P l = Some b ->
  spath P l (b_stmts b) (pi ++ [SAssert c a]) -> ~ In SUnreach pi ->
  lookup a (cin_of m l) = Some V ->
  run_path pi hv s = Some s1 -> run_path pi hv (upd s x v) = Some s2 ->
  eval_le (lc_exp c) s1 <> eval_le (lc_exp c) s2 -> In x V.
Proof. exact crawler_lists_flowing_variable. Qed.
Print Assumptions C18_crawler_lists_flowing_variable.

(* corresponded only: the control-dependence graph used by the model is the one cdg.hpp
   computes (post-dominance frontier of the blocks that reach the exit) *)
Definition C18_crawler_control_statement : Prop :=
  forall P n r, In r (cdg_get (cdg_of P) n) <->
    exists s, In s (succs P n) /\
      In r (runner_walk (pdoms P) n (ipdom (pdoms P) n) (S (length (c_blocks P))) (Some s)).

(* C18_crawler_control_statement is false as written: cdg.hpp's post_dominance returns at
   once when the CFG has no exit, so the control-dependence graph (of the code and of the
   model) is empty there, while the runner expression on the right-hand side is not
   (CFG 0 -> 1, 1 -> 1, no exit: the runner started at successor 1 of block 0 visits 1).
   With the has_exit guard the statement is an equivalence, for every n and r. *)
From CrabV Require Import Ana.CrawlerCdg.

Theorem C18_crawler_control_refuted : ~ C18_crawler_control_statement.
Proof. exact cdg_statement_refuted. Qed.
Print Assumptions C18_crawler_control_refuted.

(* the exact relationship: the graph is empty without exit, and otherwise it is what the
   runner loop of graph_algo_impl::dominance collects on the reversed graph *)
Theorem C18_crawler_control : forall P n r,
  In r (cdg_get (cdg_of P) n) <->
    c_exit P <> None /\
    exists s, In s (succs P n) /\
      In r (runner_walk (pdoms P) n (ipdom (pdoms P) n) (S (length (c_blocks P))) (Some s)).
Proof. exact cdg_of_runner. Qed.
Print Assumptions C18_crawler_control.

(* the statement itself, under the hypothesis it lacks *)
Theorem C18_crawler_control_partial : forall P n r,
  c_exit P <> None ->
  (In r (cdg_get (cdg_of P) n) <->
    exists s, In s (succs P n) /\
      In r (runner_walk (pdoms P) n (ipdom (pdoms P) n) (S (length (c_blocks P))) (Some s))).
Proof. exact cdg_of_runner_exit. Qed.
Print Assumptions C18_crawler_control_partial.

Theorem C18_crawler_control_no_exit : forall P n,
  c_exit P = None -> cdg_get (cdg_of P) n = [].
Proof. exact cdg_of_no_exit. Qed.
Print Assumptions C18_crawler_control_no_exit.

(* not vacuous: a diamond with an exit, whose branches are control dependent on its head *)
Example C18_crawler_control_example :
  c_exit diamond_cfg <> None /\
  cdg_of diamond_cfg = [(0%N, [1%N; 2%N]); (1%N, []); (2%N, []); (3%N, [])].
Proof. exact diamond_cdg. Qed.
