(* Property C16 — abstract values have value semantics and a representation-independent
   meaning.  In the model values are immutable mathematical objects; what the property
   demands of the C++ (copies do not alias, queries / normalize() / minimize() are
   observationally the identity, the generic wrappers are transparent) is therefore
   expressed as: the register machine updates exactly the target register (frame), and
   the same pure model must explain the implementation run directly, through
   abstract_domain and through the copy-on-write abstract_domain_ref, under histories full
   of copies, queries and normalisations — which is what the correspondence streams of
   this property check.  Statements only. *)
From Coq Require Import ZArith List Bool Arith Lia.
From CrabV Require Import Base.ZInf Scalar.Itv Ir.Syntax Dom.ItvEnv Dom.ItvDomain Dom.History
     Dom.HistorySound Dom.Cow.
Import ListNotations.

Definition target (o : hop) : reg :=
  match o with
  | HTop r | HBot r | HCopy r _ | HAssign r _ _ | HWeakAssign r _ _ | HArith r _ _ _ _
  | HBit r _ _ _ _ | HCast r _ _ _ _ _ _ | HAssume r _ | HSelect r _ _ _ _ | HForget r _
  | HProject r _ | HRename r _ _ | HExpand r _ _ | HJoin r _ _ | HMeet r _ _ | HWiden r _ _
  | HNarrow r _ _ | HWidenThr r _ _ _ => r
  end.

Lemma rget_rset_other rs r v r' : r' <> r -> rget (rset rs r v) r' = rget rs r'.
Proof.
  intros N. destruct (Nat.lt_ge_cases r (length rs)) as [L|G].
  - rewrite rget_rset by auto. destruct (Nat.eqb_spec r' r); congruence.
  - rewrite rset_oob by auto. reflexivity.
Qed.

(* an operation on one value never changes what any other value (copy or not) describes *)
Theorem C16_frame : forall rs o r', r' <> target o -> rget (hstep rs o) r' = rget rs r'.
Proof. intros rs o r' N. destruct o; simpl in *; apply rget_rset_other; exact N. Qed.

(* after a copy both values are equal, and a later operation on one leaves the other *)
Theorem C16_copy_then_mutate : forall rs r s o, (r < length rs)%nat -> s <> r -> target o = r ->
  rget (hstep (hstep rs (HCopy r s)) o) s = rget rs s /\
  rget (hstep rs (HCopy r s)) r = rget rs s.
Proof.
  intros rs r s o L N T. split.
  - rewrite C16_frame by congruence. simpl. apply rget_rset_other; auto.
  - simpl. rewrite rget_rset by auto. rewrite Nat.eqb_refl. reflexivity.
Qed.

(* the copy-on-write wrapper (abstract_domain_ref): handles sharing reference-counted
   cells, detach() before every mutating method, fresh cells from non-mutating ones.
   For EVERY sequence of copies, mutations and value-building operations over any number
   of handles and any underlying value type, what each handle observes is exactly what the
   value-semantics specification gives. *)
Theorem C16_cow_wrapper_is_value_semantics :
  forall (A : Type) (dflt : A) (os : list (cop A)) (st : heap A),
  wf A st -> ops_in_range A st os ->
  observe A (fold_left (cstep A) os st) = fold_left (sstep A dflt) os (observe A st).
Proof. intros A dflt os st. apply cow_is_value_semantics. Qed.

Print Assumptions C16_frame.
Print Assumptions C16_copy_then_mutate.
Print Assumptions C16_cow_wrapper_is_value_semantics.
