(* Property C04 — the inclusion test and the lattice operations agree with concretisation.
   Model: interval-domain values (Dom/ItvEnv.v), i.e. separate_domain<variable, interval>
   seen as total maps with default top (C19) plus a bottom flag.  Statements only. *)
From Coq Require Import ZArith List Bool.
From CrabV Require Import Base.ZInf Scalar.Itv Scalar.ItvSound Ir.Syntax Dom.ItvEnv Dom.ItvEnvSound.
Import ListNotations.

Theorem C04_leq_reflexive : forall a, e_leq a a = true.
Proof. exact e_leq_refl. Qed.
Theorem C04_leq_bottom_left : forall a, e_leq EBot a = true.
Proof. exact e_leq_bot_l. Qed.
Lemma ileq_top_any x : ileq x itop = true.
Proof.
  unfold ileq. destruct (is_bot x); auto. simpl. destruct (ub x); reflexivity.
Qed.
Theorem C04_leq_top_right : forall a, e_leq a e_top = true.
Proof.
  destruct a as [|m]; simpl; auto. apply forallb_forall. intros k _. simpl. apply ileq_top_any.
Qed.
(* whenever the test answers yes, every state of the left operand is a state of the right
   one — for values over different variable sets as well *)
Theorem C04_leq_sound : forall a b s, e_leq a b = true -> genv a s -> genv b s.
Proof. exact e_leq_sound. Qed.
Theorem C04_join_upper_bound : forall a b s, genv a s \/ genv b s -> genv (e_join a b) s.
Proof. exact e_join_sound. Qed.
Theorem C04_meet_lower_bound : forall a b s, genv a s -> genv b s -> genv (e_meet a b) s.
Proof. exact e_meet_sound. Qed.
Theorem C04_bottom_is_bottom : e_is_bot EBot = true /\ forall s, ~ genv EBot s.
Proof. split; [reflexivity|intros s H; exact H]. Qed.
Theorem C04_top_is_top : e_is_top e_top = true /\ e_is_bot e_top = false /\ forall s, genv e_top s.
Proof. split; [reflexivity|split; [reflexivity|exact genv_top]]. Qed.
Theorem C04_is_bottom_sound : forall e s, e_is_bot e = true -> ~ genv e s.
Proof. exact e_is_bot_sound. Qed.

(* non-vacuity: two values over different variable sets are incomparable *)
Example C04_different_variable_sets :
  let a := e_set e_top 1%N (iconst 0) in let b := e_set e_top 2%N (iconst 0) in
  e_leq a b = false /\ e_leq b a = false /\ e_leq a (e_join a b) = true.
Proof. vm_compute. auto. Qed.

Print Assumptions C04_leq_reflexive.
Print Assumptions C04_leq_bottom_left.
Print Assumptions C04_leq_top_right.
Print Assumptions C04_leq_sound.
Print Assumptions C04_join_upper_bound.
Print Assumptions C04_meet_lower_bound.
Print Assumptions C04_bottom_is_bottom.
Print Assumptions C04_top_is_top.
Print Assumptions C04_is_bottom_sound.
