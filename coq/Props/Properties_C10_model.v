(* Property C10, additions: the model of the bottom-up analyzer is sound without the checker
   (to be merged into Props/Properties_C10.v; replaces the Definition C10_model_statement). *)
From Coq Require Import ZArith NArith List Bool Arith Lia.
From CrabV Require Import Base.ZInf Scalar.Itv Ir.Syntax Ir.Cfg Dom.ItvEnv Dom.ItvEnvSound Dom.ItvDomain
     Fix.Wto Ana.Transformer Ana.InterSyntax Ana.InterSem Ana.InterTD Ana.InterTDSound Ana.InterBU Ana.InterBUSound
     Ana.InterBUModelSound.
Import ListNotations.

(* the model's own result is sound, directly (no checker): whenever bu_run returns without error
   flag (no fuel exhausted, every function processed: the call graph has no cycle), the summaries
   of the bottom-up phase hold for every input and the tables of the top-down phase contain every
   reachable state.  Any program, widening delay, descending iterations, fuel; the initial value
   must not constrain the internal names (the variables >= voff) *)
Theorem C10_model_sound :
  forall p delay desc efuel wtos init,
  let voff := prog_voff p in
  iprog_wfb p voff = true ->
  (forall f, f < length p -> build (fn_graph (get_fn p f)) 0 = Some (wtos f)) ->
  let r := bu_run p voff delay desc efuel wtos init in
  b_err r = false ->
  forall Init : store -> Prop,
  (forall s s', Init s -> (forall k, (k < voff)%N -> s' k = s k) -> genv init s') ->
  (forall f n s, IRPre p (cg_entries p) Init f n s -> genv (b_pre r f n) s) /\
  (forall f n s, IRPost p (cg_entries p) Init f n s -> genv (b_post r f n) s) /\
  (forall sm, In sm (bu_summaries p (b_sum r)) ->
     forall s0 s1, genv (s_pre sm) s0 -> exec_fun p (s_fn sm) s0 s1 -> genv (s_post sm) s1).
Proof. exact bu_model_sound. Qed.

(* any first internal name voff above the variables of the program, any list of entry functions
   without callers *)
Theorem C10_model_sound_any_entries :
  forall p voff, iprog_wfb p voff = true -> iprog_lowb p voff = true ->
  forall delay desc efuel wtos,
  (forall f, f < length p -> build (fn_graph (get_fn p f)) 0 = Some (wtos f)) ->
  forall entries init,
  (forall f, In f entries -> f < length p /\ cg_preds p f = []) ->
  let r := bu_run p voff delay desc efuel wtos init in
  b_err r = false ->
  forall Init : store -> Prop, (forall s, Init s -> genvL voff init s) ->
  (forall f n s, IRPre p entries Init f n s -> genv (b_pre r f n) s) /\
  (forall f n s, IRPost p entries Init f n s -> genv (b_post r f n) s) /\
  (forall sm, In sm (bu_summaries p (b_sum r)) ->
     forall s0 s1, genv (s_pre sm) s0 -> exec_fun p (s_fn sm) s0 s1 -> genv (s_post sm) s1).
Proof. exact bu_run_sound. Qed.

(* the summaries of the model hold whatever the inputs *)
Theorem C10_model_summary_any_input :
  forall p delay desc efuel wtos init,
  let voff := prog_voff p in
  iprog_wfb p voff = true ->
  (forall f, f < length p -> build (fn_graph (get_fn p f)) 0 = Some (wtos f)) ->
  let r := bu_run p voff delay desc efuel wtos init in
  b_err r = false ->
  forall f sum, f < length p -> b_sum r f = Some sum ->
  forall s0 s1, exec_fun p f s0 s1 -> genv sum s1.
Proof. exact bu_model_summary_any_input. Qed.

(* non-vacuity: main { a := 1; b := 10; q := f(b,a) }; f(a,b){ t := g(a); r := t - b }; g(x){ y := x + 1 }
   (three levels, names shared): the hypotheses of C10_model_sound hold; g is analysed in the
   calling context x = 10 and its tables give y = 11 at its exit *)
Example C10_model_sound_example :
  let p := [mkFunc [] [] [[IBase (SAssign 0%N (mkLE [] 1%Z)); IBase (SAssign 1%N (mkLE [] 10%Z));
                           ICall [3%N] 1 [1%N; 0%N]]] [] (Some 0);
            mkFunc [0%N; 1%N] [2%N] [[ICall [4%N] 2 [0%N]; IBase (SArith OpSub 2%N 4%N (OVar 1%N))]] [] (Some 0);
            mkFunc [0%N] [1%N] [[IBase (SArith OpAdd 1%N 0%N (OCst 1%Z))]] [] (Some 0)] in
  let voff := prog_voff p in
  exists w0 w1 w2,
    build (fn_graph (get_fn p 0)) 0 = Some w0 /\ build (fn_graph (get_fn p 1)) 0 = Some w1 /\
    build (fn_graph (get_fn p 2)) 0 = Some w2 /\
    let wtos := fun f => match f with 0 => w0 | 1 => w1 | _ => w2 end in
    let r := bu_run p voff 2 2 100 wtos e_top in
    iprog_wfb p voff = true /\
    (forall f, f < length p -> build (fn_graph (get_fn p f)) 0 = Some (wtos f)) /\
    b_err r = false /\ cg_entries p = [0] /\
    length (bu_summaries p (b_sum r)) = 2 /\
    e_at (b_pre r 2 0) 0%N = mkI (Fin 10%Z) (Fin 10%Z) /\
    e_at (b_post r 2 0) 1%N = mkI (Fin 11%Z) (Fin 11%Z) /\
    (forall f n s, IRPre p (cg_entries p) (fun _ => True) f n s -> genv (b_pre r f n) s).
Proof.
  cbv zeta. eexists. eexists. eexists.
  split; [vm_compute; reflexivity|]. split; [vm_compute; reflexivity|]. split; [vm_compute; reflexivity|].
  match goal with |- ?A /\ ?B /\ ?C /\ ?D =>
    assert (HA : A) by (vm_compute; reflexivity);
    assert (HB : B) by (intros f L; destruct f as [|[|[|f]]];
                        [vm_compute; reflexivity|vm_compute; reflexivity|vm_compute; reflexivity|cbn in L; lia]);
    assert (HC : C) by (vm_compute; reflexivity)
  end.
  split; [exact HA|]. split; [exact HB|]. split; [exact HC|].
  split; [vm_compute; reflexivity|]. split; [vm_compute; reflexivity|].
  split; [vm_compute; reflexivity|]. split; [vm_compute; reflexivity|].
  intros f n s R.
  refine (proj1 (C10_model_sound _ 2 2 100 _ e_top HA HB HC (fun _ => True) _) f n s R).
  intros; apply genv_top.
Qed.

Print Assumptions C10_model_sound.
Print Assumptions C10_model_sound_any_entries.
Print Assumptions C10_model_summary_any_input.
Print Assumptions C10_model_sound_example.
