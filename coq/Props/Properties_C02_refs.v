(* Property C02 for REFERENCE assertions (assert_ref).  Statements only.

   assert_property_checker::check(assert_ref_t&) (/repo/include/crab/checkers/assertion.hpp):
       invariant bottom                                  -> UNREACH
       inv1 = inv; inv1.ref_assume(cst.negate()); bottom -> SAFE          otherwise WARNING
   Model: Ana/RefCst.v = the reference_constraint class (/repo/include/crab/types/reference_constraints.hpp:
   fields, private constructors with their normalisation, the 14 factory functions, is_tautology,
   is_contradiction, is_unary, is_binary, negate() branch by branch) and the rule above, generic in the
   abstract domain.  Meaning: addresses are integers (all of Z: the theorems hold a fortiori for unsigned
   addresses), null = 0, `p REL q + k` as written in the header.
   wf c = structurally one of: none/none with offset 0 and kind EQ, DISEQ, LT, LEQ; p/none with offset 0; p/q.
   Every object of the public interface is wf (C02_refs_built_wf) and negate() stays inside
   (C02_refs_negate_wf, C02_refs_negate_built).  No form is inexact.
   Correspondence: stream refcst-negate of checks/C02_refcst.py (real factory functions + negate()). *)
From Coq Require Import ZArith List Bool.
From CrabV Require Import Ana.RefCst Ana.RefCstSound.
Import ListNotations.
Open Scope Z_scope.

(* negate() is the exact logical negation *)
Theorem C02_refs_negate_exact :
  forall rho c, wf c = true -> eval rho (negate c) = negb (eval rho c).
Proof. exact negate_exact. Qed.
Print Assumptions C02_refs_negate_exact.

(* negate() never reaches its CRAB_ERROR("unsupported case") on a well-formed constraint *)
Theorem C02_refs_negate_defined :
  forall c, wf c = true -> negate_opt c = Some (negate c).
Proof. exact negate_defined. Qed.
Print Assumptions C02_refs_negate_defined.

Theorem C02_refs_built_wf : forall c, built c -> wf c = true.
Proof. exact built_wf. Qed.
Print Assumptions C02_refs_built_wf.

Theorem C02_refs_negate_wf : forall c, wf c = true -> wf (negate c) = true.
Proof. exact negate_wf. Qed.
Print Assumptions C02_refs_negate_wf.

Theorem C02_refs_negate_built : forall c, built c -> built (negate c).
Proof. exact negate_built. Qed.
Print Assumptions C02_refs_negate_built.

(* on the objects of the public interface negate() is an involution (as data, not only as meaning) *)
Theorem C02_refs_negate_involutive : forall c, built c -> negate (negate c) = c.
Proof. exact negate_involutive. Qed.
Print Assumptions C02_refs_negate_involutive.

Theorem C02_refs_tautology_sound :
  forall rho c, wf c = true -> is_tautology c = true -> eval rho c = true.
Proof. exact tautology_sound. Qed.
Print Assumptions C02_refs_tautology_sound.

Theorem C02_refs_contradiction_sound :
  forall rho c, wf c = true -> is_contradiction c = true -> eval rho c = false.
Proof. exact contradiction_sound. Qed.
Print Assumptions C02_refs_contradiction_sound.

(* the verdicts, for any abstract domain with sound ref_assume and is_bottom *)
Theorem C02_refs_safe_sound :
  forall (A : Type) (gamma : A -> (var -> Z) -> Prop) (ref_assume : A -> refcst -> A) (is_bottom : A -> bool),
  (forall a c rho, gamma a rho -> eval rho c = true -> gamma (ref_assume a c) rho) ->
  (forall a, is_bottom a = true -> forall rho, ~ gamma a rho) ->
  forall a c, wf c = true ->
  check_ref is_bottom ref_assume a c = Safe -> forall rho, gamma a rho -> eval rho c = true.
Proof. exact check_ref_safe_sound. Qed.
Print Assumptions C02_refs_safe_sound.

Theorem C02_refs_unreach_sound :
  forall (A : Type) (gamma : A -> (var -> Z) -> Prop) (ref_assume : A -> refcst -> A) (is_bottom : A -> bool),
  (forall a, is_bottom a = true -> forall rho, ~ gamma a rho) ->
  forall a c,
  check_ref is_bottom ref_assume a c = Unreach -> forall rho, ~ gamma a rho.
Proof. exact check_ref_unreach_sound. Qed.
Print Assumptions C02_refs_unreach_sound.

(* the hypotheses are satisfiable: the finite-set-of-stores domain; q = p + 4 everywhere *)
Theorem C02_refs_example_instance :
  (forall a c, wf c = true -> check_ref sd_is_bottom sd_assume a c = Safe ->
               forall rho, sd_gamma a rho -> eval rho c = true) /\
  check_ref sd_is_bottom sd_assume q_is_p_plus_4 (mk_ge vq vp 6) = Warning /\
  check_ref sd_is_bottom sd_assume q_is_p_plus_4 (mk_ge vq vp 2) = Safe.
Proof. exact (conj sd_check_ref_safe_sound (conj ex_check_warning ex_check_safe)). Qed.
Print Assumptions C02_refs_example_instance.

(* the seeded slip (sign of the offset dropped for p >= q + k) is refuted, and makes the checker unsound *)
Theorem C02_refs_seeded_negation_refuted :
  exists rho c, wf c = true /\ eval rho (negate_wrong c) <> negb (eval rho c).
Proof. exact negate_wrong_seeded_negation_refuted. Qed.
Print Assumptions C02_refs_seeded_negation_refuted.

Theorem C02_refs_seeded_checker_unsound :
  check_ref_with negate_wrong sd_is_bottom sd_assume q_is_p_plus_4 (mk_ge vq vp 6) = Safe /\
  sd_gamma q_is_p_plus_4 (st 16 20) /\ eval (st 16 20) (mk_ge vq vp 6) = false.
Proof. exact negate_wrong_seeded_checker_unsound. Qed.
Print Assumptions C02_refs_seeded_checker_unsound.
