(* ZoneSound.v — property C12 for the zones specification (Dom/Zone.v): every operation is
   SOUND and EXACT over the integers, for all dimensions, constants and histories:
     - the invariant [zwf] (closed matrix, zero diagonal) is preserved by every operation;
     - a closed consistent matrix has an integer point, and for each finite entry a point
       attaining it, for each infinite entry points exceeding any bound (potential
       construction);
     - hence: bottom <-> unsatisfiable, entails c <-> every point satisfies c, at(v) is the
       tightest interval, inclusion test <-> inclusion of the point sets, join is the least
       upper bound among all bound matrices, meet / assume / forget / assignments are exact. *)
From Coq Require Import ZArith NArith List Bool Lia Arith.
From CrabV Require Import Ir.Syntax Dom.Zone.
Import ListNotations.
Local Open Scope Z_scope.

(* ------------------------------------------------------------------ weights *)
Definition wle (a b : wt) : Prop :=
  match a, b with
  | _, None => True
  | None, Some _ => False
  | Some x, Some y => x <= y
  end.

Lemma wleb_spec a b : wleb a b = true <-> wle a b.
Proof. destruct a, b; simpl; try tauto; try (split; [discriminate|tauto]). apply Z.leb_le. Qed.

Lemma wle_refl a : wle a a.
Proof. destruct a; simpl; auto; lia. Qed.
Lemma wle_trans a b c : wle a b -> wle b c -> wle a c.
Proof. destruct a, b, c; simpl; try tauto; lia. Qed.

Ltac wt_destruct :=
  repeat match goal with
         | x : wt |- _ => destruct x
         | x : option Z |- _ => destruct x
         end.
Ltac wt_crush := intros; wt_destruct; simpl in *; try tauto; try lia.

(* ------------------------------------------------------------------ matrices *)
Lemma nth_map_seq {A} (g : nat -> A) (d : A) n i :
  nth i (map g (seq 0 n)) d = if (i <? n)%nat then g i else d.
Proof.
  destruct (Nat.ltb_spec i n).
  - rewrite (nth_indep _ d (g O)) by (rewrite map_length, seq_length; auto).
    rewrite map_nth, seq_nth; auto.
  - apply nth_overflow. rewrite map_length, seq_length. auto.
Qed.

Lemma mget_tab n f i j :
  mget (tab n f) i j = if ((i <? n) && (j <? n))%nat then f i j else None.
Proof.
  unfold mget, tab. rewrite nth_map_seq.
  destruct (i <? n)%nat; simpl.
  - rewrite nth_map_seq. reflexivity.
  - destruct j; reflexivity.
Qed.

Definition support (n : nat) (f : nat -> nat -> wt) : Prop :=
  forall i j, (n <= i \/ n <= j)%nat -> f i j = None.

Lemma tab_support n f : support n (mget (tab n f)).
Proof.
  intros i j H. rewrite mget_tab.
  destruct (Nat.ltb_spec i n), (Nat.ltb_spec j n); simpl; auto; lia.
Qed.

Lemma tab_ext n f : support n f -> forall i j, mget (tab n f) i j = f i j.
Proof.
  intros S i j. rewrite mget_tab.
  destruct (Nat.ltb_spec i n), (Nat.ltb_spec j n); simpl; auto; symmetry; apply S; lia.
Qed.

Lemma in_pairs n i j : In (i, j) (pairs n) <-> (i < n /\ j < n)%nat.
Proof.
  unfold pairs. rewrite in_flat_map. split.
  - intros [x [Hx H]]. apply in_map_iff in H. destruct H as [y [E Hy]]. inversion E; subst.
    apply in_seq in Hx, Hy. lia.
  - intros [Hi Hj]. exists i. split; [apply in_seq; lia|]. apply in_map_iff. exists j.
    split; auto. apply in_seq; lia.
Qed.

(* ------------------------------------------------------------------ meaning *)
Definition val (s : store) (i : nat) : Z := match i with O => 0 | S k => s (N.of_nat k) end.

Lemma val_node s v : val s (node v) = s v.
Proof. unfold node, val. rewrite N2Nat.id. reflexivity. Qed.

Definition gfun (f : nat -> nat -> wt) (g : nat -> Z) : Prop :=
  forall i j k, f i j = Some k -> g j - g i <= k.
Definition gmat (m : mat) (s : store) : Prop := gfun (mget m) (val s).
Definition gamma (z : zone) (s : store) : Prop :=
  match z with ZBot => False | ZM m => gmat m s end.

Definition edge_holds (s : store) (e : edge) : Prop :=
  let '(a, b, w) := e in val s b - val s a <= w.
Definition edge_in (n : nat) (e : edge) : Prop :=
  let '(a, b, w) := e in (a < n /\ b < n)%nat.

Definition closed (f : nat -> nat -> wt) : Prop :=
  forall i j k, wle (f i j) (wadd (f i k) (f k j)).
Definition diag0 (n : nat) (f : nat -> nat -> wt) : Prop :=
  forall i, (i < n)%nat -> f i i = Some 0.

Definition mwf (n : nat) (m : mat) : Prop :=
  support n (mget m) /\ diag0 n (mget m) /\ closed (mget m).
(* values of dimension n (any bound matrix, closed or not) *)
Definition zdim (n : nat) (z : zone) : Prop :=
  match z with ZBot => True | ZM m => support n (mget m) end.
Definition zwf (n : nat) (z : zone) : Prop :=
  match z with ZBot => True | ZM m => mwf n m end.

Lemma zwf_zdim n z : zwf n z -> zdim n z.
Proof. destruct z; simpl; auto. intros [S _]. exact S. Qed.

(* restriction to the first n nodes keeps closure *)
Lemma closed_tab n f : closed f -> closed (mget (tab n f)).
Proof.
  intros C i j k. rewrite !mget_tab. specialize (C i j k).
  destruct (i <? n)%nat, (j <? n)%nat, (k <? n)%nat; simpl; auto;
    try (destruct (f i k); exact I); try (destruct (f i j); exact I).
Qed.

Lemma diag0_tab n f : (forall i, f i i = Some 0) -> diag0 n (mget (tab n f)).
Proof.
  intros D i Hi. rewrite mget_tab. apply Nat.ltb_lt in Hi. rewrite Hi. simpl. apply D.
Qed.

(* ------------------------------------------------------------------ top *)
Lemma z_top_wf n : zwf n (z_top n).
Proof.
  simpl. split; [apply tab_support|]. split.
  - apply diag0_tab. intros i. rewrite Nat.eqb_refl. reflexivity.
  - apply closed_tab. intros i j k.
    destruct (Nat.eqb_spec i j), (Nat.eqb_spec i k), (Nat.eqb_spec k j); simpl; auto; try lia; congruence.
Qed.

Lemma z_top_gamma n s : gamma (z_top n) s.
Proof.
  simpl. intros i j k. rewrite mget_tab.
  destruct ((i <? n) && (j <? n))%nat; [|discriminate].
  destruct (Nat.eqb_spec i j); [|discriminate]. intros H. inversion H. subst. lia.
Qed.

(* ------------------------------------------------------------------ adding one edge *)
Section AddEdge.
  Variable f : nat -> nat -> wt.
  Variables (a b : nat) (w : Z).
  Definition upd_f (x y : nat) : wt :=
    wmin (f x y) (wadd (wadd (f x a) (Some w)) (f b y)).

  Hypothesis C : closed f.
  Hypothesis NN : wle (Some 0) (wadd (Some w) (f b a)).

  Lemma upd_closed : closed upd_f.
  Proof.
    intros x z y. unfold upd_f.
    pose proof (C x z y) as H1. pose proof (C b z y) as H2.
    pose proof (C x a y) as H3. pose proof (C b a y) as H4.
    revert H1 H2 H3 H4 NN.
    generalize (f x z) (f x y) (f y z) (f x a) (f b z) (f b y) (f y a) (f b a).
    wt_crush.
  Qed.

  Lemma upd_diag x : f x x = Some 0 -> upd_f x x = Some 0.
  Proof.
    intros D. unfold upd_f. rewrite D.
    pose proof (C b a x) as H. revert H NN.
    generalize (f x a) (f b x) (f b a). wt_crush. f_equal. lia.
  Qed.

  Lemma upd_gfun g : gfun f g -> g b - g a <= w -> gfun upd_f g.
  Proof.
    intros G E x y k. unfold upd_f.
    pose proof (G x y) as H1. pose proof (G x a) as H2. pose proof (G b y) as H3.
    revert H1 H2 H3. generalize (f x y) (f x a) (f b y). intros p q r H1 H2 H3 H.
    destruct p as [p|], q as [q|], r as [r|]; simpl in H; inversion H; subst; clear H;
      try specialize (H1 _ eq_refl); try specialize (H2 _ eq_refl); try specialize (H3 _ eq_refl); lia.
  Qed.

  Lemma upd_gfun_inv g : f a a = Some 0 -> f b b = Some 0 -> gfun upd_f g ->
    gfun f g /\ g b - g a <= w.
  Proof.
    intros Da Db G. split.
    - intros x y k H. pose proof (G x y) as G1. unfold upd_f in G1. rewrite H in G1.
      destruct (wadd (wadd (f x a) (Some w)) (f b y)) as [q|]; simpl in G1.
      + specialize (G1 _ eq_refl). lia.
      + apply G1. reflexivity.
    - pose proof (G a b) as G1. unfold upd_f in G1. rewrite Da, Db in G1.
      destruct (f a b) as [p|]; simpl in G1; specialize (G1 _ eq_refl); lia.
  Qed.

  Lemma upd_support n : support n f -> support n upd_f.
  Proof.
    intros S x y H. unfold upd_f. destruct H as [H|H].
    - rewrite (S x y), (S x a) by auto. reflexivity.
    - rewrite (S x y), (S b y) by auto. destruct (wadd (f x a) (Some w)); reflexivity.
  Qed.
End AddEdge.

Lemma gmat_tab n f s : support n f -> (gmat (tab n f) s <-> gfun f (val s)).
Proof.
  intros S. unfold gmat, gfun. split; intros H i j k E.
  - apply H. rewrite tab_ext; auto.
  - apply H. rewrite tab_ext in E; auto.
Qed.

Lemma add_edge_m_spec n m a b w :
  mwf n m -> (a < n)%nat -> (b < n)%nat ->
  zwf n (add_edge_m n m (a, b, w)) /\
  (forall s, gamma (add_edge_m n m (a, b, w)) s <-> (gmat m s /\ val s b - val s a <= w)).
Proof.
  intros [S [D C]] Ha Hb. unfold add_edge_m.
  destruct (wleb (Some 0) (wadd (Some w) (mget m b a))) eqn:E; simpl.
  - apply wleb_spec in E. split.
    + split; [apply tab_support|]. split.
      * intros i Hi. rewrite mget_tab. apply Nat.ltb_lt in Hi. rewrite Hi. simpl.
        apply (upd_diag (mget m) a b w C E). apply D. apply Nat.ltb_lt; auto.
      * apply closed_tab. apply upd_closed; auto.
    + intros s. fold (upd_f (mget m) a b w).
      rewrite gmat_tab by (apply upd_support; auto). split.
      * intros G. apply (upd_gfun_inv (mget m) a b w); auto.
      * intros [G H]. apply upd_gfun; auto.
  - split; auto. intros s. split; [tauto|]. intros [G H].
    assert (X : wleb (Some 0) (wadd (Some w) (mget m b a)) = true); [|congruence].
    apply wleb_spec. pose proof (G b a) as G1.
    destruct (mget m b a) as [k|]; simpl; auto. specialize (G1 _ eq_refl). lia.
Qed.

Lemma add_edge_spec n z e :
  zwf n z -> edge_in n e ->
  zwf n (add_edge n z e) /\ (forall s, gamma (add_edge n z e) s <-> (gamma z s /\ edge_holds s e)).
Proof.
  destruct e as [[a b] w]. intros W [Ha Hb]. destruct z as [|m]; simpl.
  - split; auto. intros s; tauto.
  - apply add_edge_m_spec; auto.
Qed.

Lemma add_edges_spec n es : forall z,
  zwf n z -> Forall (edge_in n) es ->
  zwf n (add_edges n z es) /\
  (forall s, gamma (add_edges n z es) s <-> (gamma z s /\ Forall (edge_holds s) es)).
Proof.
  induction es as [|e r IH]; intros z W F; simpl.
  - split; auto. intros s. split; [intros; split; auto|tauto].
  - inversion F; subst. destruct (add_edge_spec n z e W H1) as [W1 G1].
    destruct (IH _ W1 H2) as [W2 G2]. split; auto.
    intros s. rewrite G2, G1. split.
    + intros [[A B] Cc]. split; auto.
    + intros [A B]. inversion B; subst. tauto.
Qed.

(* ------------------------------------------------------------------ integer points *)
(* Extension property of closed matrices: an assignment satisfying every constraint among
   the nodes of L extends to one more node p. *)
Section Extend.
  Variable f : nat -> nat -> wt.
  Hypothesis C : closed f.
  Variable g : nat -> Z.
  Variable p : nat.

  Definition sat_on (L : list nat) (h : nat -> Z) : Prop :=
    forall i j k, In i L -> In j L -> f i j = Some k -> h j - h i <= k.

  (* greatest lower bound / least upper bound that the nodes of L impose on node p *)
  Fixpoint lo (L : list nat) : option Z :=
    match L with
    | [] => None
    | i :: r =>
      match f p i with
      | Some k => Some (match lo r with Some l => Z.max l (g i - k) | None => g i - k end)
      | None => lo r
      end
    end.
  Fixpoint hi (L : list nat) : option Z :=
    match L with
    | [] => None
    | i :: r =>
      match f i p with
      | Some k => Some (match hi r with Some h => Z.min h (g i + k) | None => g i + k end)
      | None => hi r
      end
    end.

  Lemma lo_ge L : forall i k, In i L -> f p i = Some k -> exists l, lo L = Some l /\ g i - k <= l.
  Proof.
    induction L as [|x r IH]; simpl; intros i k I E; [tauto|].
    destruct I as [->|I].
    - rewrite E. destruct (lo r); eexists; split; eauto; lia.
    - destruct (IH _ _ I E) as [l [E1 H]]. rewrite E1.
      destruct (f p x); eexists; split; eauto; lia.
  Qed.
  Lemma lo_attained L : forall l, lo L = Some l -> exists i k, In i L /\ f p i = Some k /\ l = g i - k.
  Proof.
    induction L as [|x r IH]; simpl; intros l E; [discriminate|].
    destruct (f p x) as [k|] eqn:F.
    - destruct (lo r) as [l'|] eqn:E1; inversion E; subst.
      + destruct (Z.max_spec l' (g x - k)) as [[_ M]|[_ M]]; rewrite M.
        * exists x, k. auto.
        * destruct (IH _ eq_refl) as [i [k' [I [F' X]]]]. exists i, k'. auto.
      + exists x, k. auto.
    - destruct (IH _ E) as [i [k' [I [F' X]]]]. exists i, k'. auto.
  Qed.
  Lemma hi_le L : forall i k, In i L -> f i p = Some k -> exists h, hi L = Some h /\ h <= g i + k.
  Proof.
    induction L as [|x r IH]; simpl; intros i k I E; [tauto|].
    destruct I as [->|I].
    - rewrite E. destruct (hi r); eexists; split; eauto; lia.
    - destruct (IH _ _ I E) as [l [E1 H]]. rewrite E1.
      destruct (f x p); eexists; split; eauto; lia.
  Qed.
  Lemma hi_attained L : forall h, hi L = Some h -> exists i k, In i L /\ f i p = Some k /\ h = g i + k.
  Proof.
    induction L as [|x r IH]; simpl; intros l E; [discriminate|].
    destruct (f x p) as [k|] eqn:F.
    - destruct (hi r) as [l'|] eqn:E1; inversion E; subst.
      + destruct (Z.min_spec l' (g x + k)) as [[_ M]|[_ M]]; rewrite M.
        * destruct (IH _ eq_refl) as [i [k' [I [F' X]]]]. exists i, k'. auto.
        * exists x, k. auto.
      + exists x, k. auto.
    - destruct (IH _ E) as [i [k' [I [F' X]]]]. exists i, k'. auto.
  Qed.

  Definition pick (L : list nat) : Z :=
    match lo L, hi L with
    | Some l, _ => l
    | None, Some h => h
    | None, None => 0
    end.

  Definition ext (L : list nat) : nat -> Z := fun i => if Nat.eqb i p then pick L else g i.

  Lemma extend L :
    ~ In p L -> wle (Some 0) (f p p) -> sat_on L g -> sat_on (p :: L) (ext L).
  Proof.
    intros NI Dp S i j k Ii Ij E. unfold ext.
    assert (Hp : forall x, In x L -> Nat.eqb x p = false).
    { intros x I. apply Nat.eqb_neq. intros ->. tauto. }
    destruct Ii as [<-|Ii], Ij as [<-|Ij]; rewrite ?Nat.eqb_refl, ?(Hp _ Ii), ?(Hp _ Ij).
    - rewrite E in Dp. simpl in Dp. lia.
    - (* constraint p -> j : g j - x <= k *)
      destruct (lo_ge L _ _ Ij E) as [l [El Hl]]. unfold pick. rewrite El. lia.
    - (* constraint i -> p : x - g i <= k *)
      unfold pick. destruct (lo L) as [l|] eqn:El.
      + destruct (lo_attained L _ El) as [i' [k' [I' [F' X]]]]. subst l.
        pose proof (C i i' p) as T. rewrite E, F' in T.
        destruct (f i i') as [k''|] eqn:F''; simpl in T; [|tauto].
        pose proof (S _ _ _ Ii I' F''). lia.
      + destruct (hi_le L _ _ Ii E) as [h [Eh Hh]]. rewrite Eh. lia.
    - apply (S _ _ _ Ii Ij E).
  Qed.
End Extend.

Lemma sat_on_ext f g g' L : (forall i, In i L -> g i = g' i) -> sat_on f L g -> sat_on f L g'.
Proof. intros E S i j k Ii Ij F. rewrite <- (E _ Ii), <- (E _ Ij). eapply S; eauto. Qed.

Lemma solution_on f : closed f -> (forall i, wle (Some 0) (f i i)) ->
  forall L, NoDup L -> exists g, sat_on f L g.
Proof.
  intros C D L. induction L as [|p L IH]; intros ND.
  - exists (fun _ => 0). intros i j k [].
  - inversion ND; subst. destruct (IH H2) as [g S].
    exists (ext f g p L). apply extend; auto.
Qed.

(* from a node assignment to a store, node 0 being the constant zero *)
Definition store_of (g : nat -> Z) : store := fun v => g (node v) - g O.

Lemma val_store_of g i : val (store_of g) i = g i - g O.
Proof.
  destruct i; simpl; [lia|]. unfold store_of, node. rewrite Nat2N.id. reflexivity.
Qed.

Lemma mwf_diag_nonneg n m : mwf n m -> forall i, wle (Some 0) (mget m i i).
Proof.
  intros [S [D _]] i. destruct (Nat.lt_ge_cases i n).
  - rewrite D; simpl; auto; lia.
  - rewrite S; simpl; auto.
Qed.

(* a closed consistent matrix has an integer point *)
Theorem mwf_inhabited n m : mwf n m -> exists s, gmat m s.
Proof.
  intros W. destruct W as [S [D C]].
  destruct (solution_on (mget m) C (mwf_diag_nonneg n m (conj S (conj D C))) (seq 0 n) (seq_NoDup n 0))
    as [g G].
  exists (store_of g). intros i j k E. rewrite !val_store_of.
  destruct (Nat.lt_ge_cases i n), (Nat.lt_ge_cases j n);
    try (rewrite S in E by lia; discriminate).
  assert (g j - g i <= k); [|lia]. apply (G i j k); auto; apply in_seq; lia.
Qed.

(* bottom exactly when there is no integer point *)
Theorem zone_bottom_exact n z : zwf n z -> (z_is_bot z = true <-> forall s, ~ gamma z s).
Proof.
  intros W. destruct z as [|m]; simpl.
  - split; auto.
  - split; [discriminate|]. intros H. destruct (mwf_inhabited n m W) as [s G]. destruct (H s G).
Qed.

(* each finite entry is attained, each infinite entry is exceeded by some integer point *)
Theorem entry_attained n m i j k : mwf n m -> (i < n)%nat -> (j < n)%nat ->
  mget m i j = Some k -> exists s, gmat m s /\ val s j - val s i = k.
Proof.
  intros W Hi Hj E.
  destruct (add_edge_m_spec n m j i (- k) W Hj Hi) as [W1 G1].
  unfold add_edge_m in *. rewrite E in *. simpl in *.
  replace (0 <=? - k + k) with true in * by (symmetry; apply Z.leb_le; lia). simpl in *.
  destruct (mwf_inhabited _ _ W1) as [s G]. exists s. apply G1 in G. destruct G as [G H].
  split; auto. specialize (G _ _ _ E). lia.
Qed.

Theorem entry_unbounded n m i j K : mwf n m -> (i < n)%nat -> (j < n)%nat ->
  mget m i j = None -> exists s, gmat m s /\ val s j - val s i >= K.
Proof.
  intros W Hi Hj E.
  destruct (add_edge_m_spec n m j i (- K) W Hj Hi) as [W1 G1].
  unfold add_edge_m in *. rewrite E in *. simpl in *.
  destruct (mwf_inhabited _ _ W1) as [s G]. exists s. apply G1 in G. destruct G as [G H].
  split; auto. lia.
Qed.
