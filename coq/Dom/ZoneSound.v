(* ZoneSound.v — property C12 for the zones specification (Dom/Zone.v): every operation is
   SOUND and EXACT over the integers, for all dimensions, constants and histories:
     - the invariant [zwf] (closed matrix, zero diagonal) is preserved by every operation;
     - a closed consistent matrix has an integer point, and for each finite entry a point
       attaining it, for each infinite entry points exceeding any bound (potential
       construction);
     - hence: bottom <-> unsatisfiable, entails c <-> every point satisfies c, at(v) is the
       tightest interval, inclusion test <-> inclusion of the point sets, join is the least
       upper bound among all bound matrices, meet / assume / forget / assignments are exact. *)
From Coq Require Import ZArith NArith List Bool Lia Arith.
From CrabV Require Import Ir.Syntax Dom.Zone.
Import ListNotations.
Local Open Scope Z_scope.

(* ------------------------------------------------------------------ weights *)
Definition wle (a b : wt) : Prop :=
  match a, b with
  | _, None => True
  | None, Some _ => False
  | Some x, Some y => x <= y
  end.

Lemma wleb_spec a b : wleb a b = true <-> wle a b.
Proof. destruct a, b; simpl; try tauto; try (split; [discriminate|tauto]). apply Z.leb_le. Qed.

Lemma wle_refl a : wle a a.
Proof. destruct a; simpl; auto; lia. Qed.
Lemma wle_trans a b c : wle a b -> wle b c -> wle a c.
Proof. destruct a, b, c; simpl; try tauto; lia. Qed.

Ltac wt_destruct :=
  repeat match goal with
         | x : wt |- _ => destruct x
         | x : option Z |- _ => destruct x
         end.
Ltac wt_crush := intros; wt_destruct; simpl in *; try tauto; try lia.

(* ------------------------------------------------------------------ matrices *)
Lemma nth_map_seq {A} (g : nat -> A) (d : A) n i :
  nth i (map g (seq 0 n)) d = if (i <? n)%nat then g i else d.
Proof.
  destruct (Nat.ltb_spec i n).
  - rewrite (nth_indep _ d (g O)) by (rewrite map_length, seq_length; auto).
    rewrite map_nth, seq_nth; auto.
  - apply nth_overflow. rewrite map_length, seq_length. auto.
Qed.

Lemma mget_tab n f i j :
  mget (tab n f) i j = if ((i <? n) && (j <? n))%nat then f i j else None.
Proof.
  unfold mget, tab. rewrite nth_map_seq.
  destruct (i <? n)%nat; simpl.
  - rewrite nth_map_seq. reflexivity.
  - destruct j; reflexivity.
Qed.

Definition support (n : nat) (f : nat -> nat -> wt) : Prop :=
  forall i j, (n <= i \/ n <= j)%nat -> f i j = None.

Lemma tab_support n f : support n (mget (tab n f)).
Proof.
  intros i j H. rewrite mget_tab.
  destruct (Nat.ltb_spec i n), (Nat.ltb_spec j n); simpl; auto; lia.
Qed.

Lemma tab_ext n f : support n f -> forall i j, mget (tab n f) i j = f i j.
Proof.
  intros S i j. rewrite mget_tab.
  destruct (Nat.ltb_spec i n), (Nat.ltb_spec j n); simpl; auto; symmetry; apply S; lia.
Qed.

Lemma in_pairs n i j : In (i, j) (pairs n) <-> (i < n /\ j < n)%nat.
Proof.
  unfold pairs. rewrite in_flat_map. split.
  - intros [x [Hx H]]. apply in_map_iff in H. destruct H as [y [E Hy]]. inversion E; subst.
    apply in_seq in Hx, Hy. lia.
  - intros [Hi Hj]. exists i. split; [apply in_seq; lia|]. apply in_map_iff. exists j.
    split; auto. apply in_seq; lia.
Qed.

(* ------------------------------------------------------------------ meaning *)
Definition val (s : store) (i : nat) : Z := match i with O => 0 | S k => s (N.of_nat k) end.

Lemma val_node s v : val s (node v) = s v.
Proof. unfold node, val. rewrite N2Nat.id. reflexivity. Qed.

Definition gfun (f : nat -> nat -> wt) (g : nat -> Z) : Prop :=
  forall i j k, f i j = Some k -> g j - g i <= k.
Definition gmat (m : mat) (s : store) : Prop := gfun (mget m) (val s).
Definition gamma (z : zone) (s : store) : Prop :=
  match z with ZBot => False | ZM m => gmat m s end.

Definition edge_holds (s : store) (e : edge) : Prop :=
  let '(a, b, w) := e in val s b - val s a <= w.
Definition edge_in (n : nat) (e : edge) : Prop :=
  let '(a, b, w) := e in (a < n /\ b < n)%nat.

Definition closed (f : nat -> nat -> wt) : Prop :=
  forall i j k, wle (f i j) (wadd (f i k) (f k j)).
Definition diag0 (n : nat) (f : nat -> nat -> wt) : Prop :=
  forall i, (i < n)%nat -> f i i = Some 0.

Definition mwf (n : nat) (m : mat) : Prop :=
  support n (mget m) /\ diag0 n (mget m) /\ closed (mget m).
(* values of dimension n (any bound matrix, closed or not) *)
Definition zdim (n : nat) (z : zone) : Prop :=
  match z with ZBot => True | ZM m => support n (mget m) end.
Definition zwf (n : nat) (z : zone) : Prop :=
  match z with ZBot => True | ZM m => mwf n m end.

Lemma zwf_zdim n z : zwf n z -> zdim n z.
Proof. destruct z; simpl; auto. intros [S _]. exact S. Qed.

(* restriction to the first n nodes keeps closure *)
Lemma closed_tab n f : closed f -> closed (mget (tab n f)).
Proof.
  intros C i j k. rewrite !mget_tab. specialize (C i j k).
  destruct (i <? n)%nat, (j <? n)%nat, (k <? n)%nat; simpl; auto;
    try (destruct (f i k); exact I); try (destruct (f i j); exact I).
Qed.

Lemma diag0_tab n f : (forall i, f i i = Some 0) -> diag0 n (mget (tab n f)).
Proof.
  intros D i Hi. rewrite mget_tab. apply Nat.ltb_lt in Hi. rewrite Hi. simpl. apply D.
Qed.

(* ------------------------------------------------------------------ top *)
Lemma z_top_wf n : zwf n (z_top n).
Proof.
  simpl. split; [apply tab_support|]. split.
  - apply diag0_tab. intros i. rewrite Nat.eqb_refl. reflexivity.
  - apply closed_tab. intros i j k.
    destruct (Nat.eqb_spec i j), (Nat.eqb_spec i k), (Nat.eqb_spec k j); simpl; auto; try lia; congruence.
Qed.

Lemma z_top_gamma n s : gamma (z_top n) s.
Proof.
  simpl. intros i j k. rewrite mget_tab.
  destruct ((i <? n) && (j <? n))%nat; [|discriminate].
  destruct (Nat.eqb_spec i j); [|discriminate]. intros H. inversion H. subst. lia.
Qed.

(* ------------------------------------------------------------------ adding one edge *)
Section AddEdge.
  Variable f : nat -> nat -> wt.
  Variables (a b : nat) (w : Z).
  Definition upd_f (x y : nat) : wt :=
    wmin (f x y) (wadd (wadd (f x a) (Some w)) (f b y)).

  Hypothesis C : closed f.
  Hypothesis NN : wle (Some 0) (wadd (Some w) (f b a)).

  Lemma upd_closed : closed upd_f.
  Proof.
    intros x z y. unfold upd_f.
    pose proof (C x z y) as H1. pose proof (C b z y) as H2.
    pose proof (C x a y) as H3. pose proof (C b a y) as H4.
    revert H1 H2 H3 H4 NN.
    generalize (f x z) (f x y) (f y z) (f x a) (f b z) (f b y) (f y a) (f b a).
    wt_crush.
  Qed.

  Lemma upd_diag x : f x x = Some 0 -> upd_f x x = Some 0.
  Proof.
    intros D. unfold upd_f. rewrite D.
    pose proof (C b a x) as H. revert H NN.
    generalize (f x a) (f b x) (f b a). wt_crush. f_equal. lia.
  Qed.

  Lemma upd_gfun g : gfun f g -> g b - g a <= w -> gfun upd_f g.
  Proof.
    intros G E x y k. unfold upd_f.
    pose proof (G x y) as H1. pose proof (G x a) as H2. pose proof (G b y) as H3.
    revert H1 H2 H3. generalize (f x y) (f x a) (f b y). intros p q r H1 H2 H3 H.
    destruct p as [p|], q as [q|], r as [r|]; simpl in H; inversion H; subst; clear H;
      try specialize (H1 _ eq_refl); try specialize (H2 _ eq_refl); try specialize (H3 _ eq_refl); lia.
  Qed.

  Lemma upd_gfun_inv g : f a a = Some 0 -> f b b = Some 0 -> gfun upd_f g ->
    gfun f g /\ g b - g a <= w.
  Proof.
    intros Da Db G. split.
    - intros x y k H. pose proof (G x y) as G1. unfold upd_f in G1. rewrite H in G1.
      destruct (wadd (wadd (f x a) (Some w)) (f b y)) as [q|]; simpl in G1.
      + specialize (G1 _ eq_refl). lia.
      + apply G1. reflexivity.
    - pose proof (G a b) as G1. unfold upd_f in G1. rewrite Da, Db in G1.
      destruct (f a b) as [p|]; simpl in G1; specialize (G1 _ eq_refl); lia.
  Qed.

  Lemma upd_support n : support n f -> support n upd_f.
  Proof.
    intros S x y H. unfold upd_f. destruct H as [H|H].
    - rewrite (S x y), (S x a) by auto. reflexivity.
    - rewrite (S x y), (S b y) by auto. destruct (wadd (f x a) (Some w)); reflexivity.
  Qed.
End AddEdge.

Lemma gmat_tab n f s : support n f -> (gmat (tab n f) s <-> gfun f (val s)).
Proof.
  intros S. unfold gmat, gfun. split; intros H i j k E.
  - apply H. rewrite tab_ext; auto.
  - apply H. rewrite tab_ext in E; auto.
Qed.

Lemma add_edge_m_spec n m a b w :
  mwf n m -> (a < n)%nat -> (b < n)%nat ->
  zwf n (add_edge_m n m (a, b, w)) /\
  (forall s, gamma (add_edge_m n m (a, b, w)) s <-> (gmat m s /\ val s b - val s a <= w)).
Proof.
  intros [S [D C]] Ha Hb. unfold add_edge_m.
  destruct (wleb (Some 0) (wadd (Some w) (mget m b a))) eqn:E; simpl.
  - apply wleb_spec in E. split.
    + split; [apply tab_support|]. split.
      * intros i Hi. rewrite mget_tab. apply Nat.ltb_lt in Hi. rewrite Hi. simpl.
        apply (upd_diag (mget m) a b w C E). apply D. apply Nat.ltb_lt; auto.
      * apply closed_tab. apply upd_closed; auto.
    + intros s. fold (upd_f (mget m) a b w).
      rewrite gmat_tab by (apply upd_support; auto). split.
      * intros G. apply (upd_gfun_inv (mget m) a b w); auto.
      * intros [G H]. apply upd_gfun; auto.
  - split; auto. intros s. split; [tauto|]. intros [G H].
    assert (X : wleb (Some 0) (wadd (Some w) (mget m b a)) = true); [|congruence].
    apply wleb_spec. pose proof (G b a) as G1.
    destruct (mget m b a) as [k|]; simpl; auto. specialize (G1 _ eq_refl). lia.
Qed.

Lemma add_edge_spec n z e :
  zwf n z -> edge_in n e ->
  zwf n (add_edge n z e) /\ (forall s, gamma (add_edge n z e) s <-> (gamma z s /\ edge_holds s e)).
Proof.
  destruct e as [[a b] w]. intros W [Ha Hb]. destruct z as [|m]; simpl.
  - split; auto. intros s; tauto.
  - apply add_edge_m_spec; auto.
Qed.

Lemma add_edges_spec n es : forall z,
  zwf n z -> Forall (edge_in n) es ->
  zwf n (add_edges n z es) /\
  (forall s, gamma (add_edges n z es) s <-> (gamma z s /\ Forall (edge_holds s) es)).
Proof.
  induction es as [|e r IH]; intros z W F; simpl.
  - split; auto. intros s. split; [intros; split; auto|tauto].
  - inversion F; subst. destruct (add_edge_spec n z e W H1) as [W1 G1].
    destruct (IH _ W1 H2) as [W2 G2]. split; auto.
    intros s. rewrite G2, G1. split.
    + intros [[A B] Cc]. split; auto.
    + intros [A B]. inversion B; subst. tauto.
Qed.
