(* ZoneSound.v — property C12 for the zones specification (Dom/Zone.v): every operation is
   SOUND and EXACT over the integers, for all dimensions, constants and histories:
     - the invariant [zwf] (closed matrix, zero diagonal) is preserved by every operation;
     - a closed consistent matrix has an integer point, and for each finite entry a point
       attaining it, for each infinite entry points exceeding any bound (potential
       construction);
     - hence: bottom <-> unsatisfiable, entails c <-> every point satisfies c, at(v) is the
       tightest interval, inclusion test <-> inclusion of the point sets, join is the least
       upper bound among all bound matrices, meet / assume / forget / assignments are exact. *)
From Coq Require Import ZArith NArith List Bool Lia Arith.
From CrabV Require Import Ir.Syntax Dom.Zone.
Import ListNotations.
Local Open Scope Z_scope.

Arguments tab : simpl never.
Arguments mget : simpl never.
Arguments pairs : simpl never.
Arguments node : simpl never.

(* ------------------------------------------------------------------ weights *)
Definition wle (a b : wt) : Prop :=
  match a, b with
  | _, None => True
  | None, Some _ => False
  | Some x, Some y => x <= y
  end.

Lemma wleb_spec a b : wleb a b = true <-> wle a b.
Proof. destruct a, b; simpl; try tauto; try (split; [discriminate|tauto]). apply Z.leb_le. Qed.

Lemma wle_refl a : wle a a.
Proof. destruct a; simpl; auto; lia. Qed.
Lemma wle_trans a b c : wle a b -> wle b c -> wle a c.
Proof. destruct a, b, c; simpl; try tauto; lia. Qed.

Ltac wt_destruct :=
  repeat match goal with
         | x : wt |- _ => destruct x
         | x : option Z |- _ => destruct x
         end.
Ltac wt_crush := intros; wt_destruct; simpl in *; try tauto; try lia.

(* ------------------------------------------------------------------ matrices *)
Lemma nth_map_seq {A} (g : nat -> A) (d : A) n i :
  nth i (map g (seq 0 n)) d = if (i <? n)%nat then g i else d.
Proof.
  destruct (Nat.ltb_spec i n).
  - rewrite (nth_indep _ d (g O)) by (rewrite map_length, seq_length; auto).
    rewrite map_nth, seq_nth; auto.
  - apply nth_overflow. rewrite map_length, seq_length. auto.
Qed.

Lemma mget_tab n f i j :
  mget (tab n f) i j = if ((i <? n) && (j <? n))%nat then f i j else None.
Proof.
  unfold mget, tab. rewrite nth_map_seq.
  destruct (i <? n)%nat; simpl.
  - rewrite nth_map_seq. reflexivity.
  - destruct j; reflexivity.
Qed.

Definition support (n : nat) (f : nat -> nat -> wt) : Prop :=
  forall i j, (n <= i \/ n <= j)%nat -> f i j = None.

Lemma tab_support n f : support n (mget (tab n f)).
Proof.
  intros i j H. rewrite mget_tab.
  destruct (Nat.ltb_spec i n), (Nat.ltb_spec j n); simpl; auto; lia.
Qed.

Lemma tab_ext n f : support n f -> forall i j, mget (tab n f) i j = f i j.
Proof.
  intros S i j. rewrite mget_tab.
  destruct (Nat.ltb_spec i n), (Nat.ltb_spec j n); simpl; auto; symmetry; apply S; lia.
Qed.

Lemma in_pairs n i j : In (i, j) (pairs n) <-> (i < n /\ j < n)%nat.
Proof.
  unfold pairs. rewrite in_flat_map. split.
  - intros [x [Hx H]]. apply in_map_iff in H. destruct H as [y [E Hy]]. inversion E; subst.
    apply in_seq in Hx, Hy. lia.
  - intros [Hi Hj]. exists i. split; [apply in_seq; lia|]. apply in_map_iff. exists j.
    split; auto. apply in_seq; lia.
Qed.

(* ------------------------------------------------------------------ meaning *)
Definition val (s : store) (i : nat) : Z := match i with O => 0 | S k => s (N.of_nat k) end.

Lemma val_node s v : val s (node v) = s v.
Proof. unfold node, val. rewrite N2Nat.id. reflexivity. Qed.

Definition gfun (f : nat -> nat -> wt) (g : nat -> Z) : Prop :=
  forall i j k, f i j = Some k -> g j - g i <= k.
Definition gmat (m : mat) (s : store) : Prop := gfun (mget m) (val s).
Definition gamma (z : zone) (s : store) : Prop :=
  match z with ZBot => False | ZM m => gmat m s end.

Definition edge_holds (s : store) (e : edge) : Prop :=
  let '(a, b, w) := e in val s b - val s a <= w.
Definition edge_in (n : nat) (e : edge) : Prop :=
  let '(a, b, w) := e in (a < n /\ b < n)%nat.

Definition closed (f : nat -> nat -> wt) : Prop :=
  forall i j k, wle (f i j) (wadd (f i k) (f k j)).
Definition diag0 (n : nat) (f : nat -> nat -> wt) : Prop :=
  forall i, (i < n)%nat -> f i i = Some 0.

Definition mwf (n : nat) (m : mat) : Prop :=
  support n (mget m) /\ diag0 n (mget m) /\ closed (mget m).
(* values of dimension n (any bound matrix, closed or not) *)
Definition zdim (n : nat) (z : zone) : Prop :=
  match z with ZBot => True | ZM m => support n (mget m) end.
Definition zwf (n : nat) (z : zone) : Prop :=
  match z with ZBot => True | ZM m => mwf n m end.

Lemma zwf_zdim n z : zwf n z -> zdim n z.
Proof. destruct z; simpl; auto. intros [S _]. exact S. Qed.

(* restriction to the first n nodes keeps closure *)
Lemma closed_tab n f : closed f -> closed (mget (tab n f)).
Proof.
  intros C i j k. rewrite !mget_tab. specialize (C i j k).
  destruct (i <? n)%nat, (j <? n)%nat, (k <? n)%nat; simpl; auto;
    try (destruct (f i k); exact I); try (destruct (f i j); exact I).
Qed.

Lemma diag0_tab n f : (forall i, f i i = Some 0) -> diag0 n (mget (tab n f)).
Proof.
  intros D i Hi. rewrite mget_tab. apply Nat.ltb_lt in Hi. rewrite Hi. simpl. apply D.
Qed.

(* ------------------------------------------------------------------ top *)
Lemma z_top_wf n : zwf n (z_top n).
Proof.
  simpl. split; [apply tab_support|]. split.
  - apply diag0_tab. intros i. rewrite Nat.eqb_refl. reflexivity.
  - apply closed_tab. intros i j k.
    destruct (Nat.eqb_spec i j), (Nat.eqb_spec i k), (Nat.eqb_spec k j); simpl; auto; try lia; congruence.
Qed.

Lemma z_top_gamma n s : gamma (z_top n) s.
Proof.
  simpl. intros i j k. rewrite mget_tab.
  destruct ((i <? n) && (j <? n))%nat; [|discriminate].
  destruct (Nat.eqb_spec i j); [|discriminate]. intros H. inversion H. subst. lia.
Qed.

(* ------------------------------------------------------------------ adding one edge *)
Section AddEdge.
  Variable f : nat -> nat -> wt.
  Variables (a b : nat) (w : Z).
  Definition upd_f (x y : nat) : wt :=
    wmin (f x y) (wadd (wadd (f x a) (Some w)) (f b y)).

  Hypothesis C : closed f.
  Hypothesis NN : wle (Some 0) (wadd (Some w) (f b a)).

  Lemma upd_closed : closed upd_f.
  Proof.
    intros x z y. unfold upd_f.
    pose proof (C x z y) as H1. pose proof (C b z y) as H2.
    pose proof (C x a y) as H3. pose proof (C b a y) as H4.
    revert H1 H2 H3 H4 NN.
    generalize (f x z) (f x y) (f y z) (f x a) (f b z) (f b y) (f y a) (f b a).
    wt_crush.
  Qed.

  Lemma upd_diag x : f x x = Some 0 -> upd_f x x = Some 0.
  Proof.
    intros D. unfold upd_f. rewrite D.
    pose proof (C b a x) as H. revert H NN.
    generalize (f x a) (f b x) (f b a). wt_crush. f_equal. lia.
  Qed.

  Lemma upd_gfun g : gfun f g -> g b - g a <= w -> gfun upd_f g.
  Proof.
    intros G E x y k. unfold upd_f.
    pose proof (G x y) as H1. pose proof (G x a) as H2. pose proof (G b y) as H3.
    revert H1 H2 H3. generalize (f x y) (f x a) (f b y). intros p q r H1 H2 H3 H.
    destruct p as [p|], q as [q|], r as [r|]; simpl in H; inversion H; subst; clear H;
      try specialize (H1 _ eq_refl); try specialize (H2 _ eq_refl); try specialize (H3 _ eq_refl); lia.
  Qed.

  Lemma upd_gfun_inv g : f a a = Some 0 -> f b b = Some 0 -> gfun upd_f g ->
    gfun f g /\ g b - g a <= w.
  Proof.
    intros Da Db G. split.
    - intros x y k H. pose proof (G x y) as G1. unfold upd_f in G1. rewrite H in G1.
      destruct (wadd (wadd (f x a) (Some w)) (f b y)) as [q|]; simpl in G1.
      + specialize (G1 _ eq_refl). lia.
      + apply G1. reflexivity.
    - pose proof (G a b) as G1. unfold upd_f in G1. rewrite Da, Db in G1.
      destruct (f a b) as [p|]; simpl in G1; specialize (G1 _ eq_refl); lia.
  Qed.

  Lemma upd_support n : support n f -> support n upd_f.
  Proof.
    intros S x y H. unfold upd_f. destruct H as [H|H].
    - rewrite (S x y), (S x a) by auto. reflexivity.
    - rewrite (S x y), (S b y) by auto. destruct (wadd (f x a) (Some w)); reflexivity.
  Qed.
End AddEdge.

Lemma gmat_tab n f s : support n f -> (gmat (tab n f) s <-> gfun f (val s)).
Proof.
  intros S. unfold gmat, gfun. split; intros H i j k E.
  - apply H. rewrite tab_ext; auto.
  - apply H. rewrite tab_ext in E; auto.
Qed.

Lemma add_edge_m_spec n m a b w :
  mwf n m -> (a < n)%nat -> (b < n)%nat ->
  zwf n (add_edge_m n m (a, b, w)) /\
  (forall s, gamma (add_edge_m n m (a, b, w)) s <-> (gmat m s /\ val s b - val s a <= w)).
Proof.
  intros [S [D C]] Ha Hb. unfold add_edge_m.
  destruct (wleb (Some 0) (wadd (Some w) (mget m b a))) eqn:E; simpl.
  - apply wleb_spec in E. split.
    + split; [apply tab_support|]. split.
      * intros i Hi. rewrite mget_tab. apply Nat.ltb_lt in Hi. rewrite Hi. simpl.
        apply (upd_diag (mget m) a b w C E). apply D. apply Nat.ltb_lt; auto.
      * apply closed_tab. apply upd_closed; auto.
    + intros s. fold (upd_f (mget m) a b w).
      rewrite gmat_tab by (apply upd_support; auto). split.
      * intros G. apply (upd_gfun_inv (mget m) a b w); auto.
      * intros [G H]. apply upd_gfun; auto.
  - split; auto. intros s. split; [tauto|]. intros [G H].
    assert (X : wleb (Some 0) (wadd (Some w) (mget m b a)) = true); [|congruence].
    apply wleb_spec. pose proof (G b a) as G1.
    destruct (mget m b a) as [k|]; simpl; auto. specialize (G1 _ eq_refl). lia.
Qed.

Lemma add_edge_spec n z e :
  zwf n z -> edge_in n e ->
  zwf n (add_edge n z e) /\ (forall s, gamma (add_edge n z e) s <-> (gamma z s /\ edge_holds s e)).
Proof.
  destruct e as [[a b] w]. intros W [Ha Hb]. destruct z as [|m]; simpl.
  - split; auto. intros s; tauto.
  - apply add_edge_m_spec; auto.
Qed.

Lemma add_edges_spec n es : forall z,
  zwf n z -> Forall (edge_in n) es ->
  zwf n (add_edges n z es) /\
  (forall s, gamma (add_edges n z es) s <-> (gamma z s /\ Forall (edge_holds s) es)).
Proof.
  induction es as [|e r IH]; intros z W F; simpl.
  - split; auto. intros s. split; [intros; split; auto|tauto].
  - inversion F; subst. destruct (add_edge_spec n z e W H1) as [W1 G1].
    destruct (IH _ W1 H2) as [W2 G2]. split; auto.
    intros s. rewrite G2, G1. split.
    + intros [[A B] Cc]. split; auto.
    + intros [A B]. inversion B; subst. tauto.
Qed.

(* ------------------------------------------------------------------ integer points *)
(* Extension property of closed matrices: an assignment satisfying every constraint among
   the nodes of L extends to one more node p. *)
Section Extend.
  Variable f : nat -> nat -> wt.
  Hypothesis C : closed f.
  Variable g : nat -> Z.
  Variable p : nat.

  Definition sat_on (L : list nat) (h : nat -> Z) : Prop :=
    forall i j k, In i L -> In j L -> f i j = Some k -> h j - h i <= k.

  (* greatest lower bound / least upper bound that the nodes of L impose on node p *)
  Fixpoint lo (L : list nat) : option Z :=
    match L with
    | [] => None
    | i :: r =>
      match f p i with
      | Some k => Some (match lo r with Some l => Z.max l (g i - k) | None => g i - k end)
      | None => lo r
      end
    end.
  Fixpoint hi (L : list nat) : option Z :=
    match L with
    | [] => None
    | i :: r =>
      match f i p with
      | Some k => Some (match hi r with Some h => Z.min h (g i + k) | None => g i + k end)
      | None => hi r
      end
    end.

  Lemma lo_ge L : forall i k, In i L -> f p i = Some k -> exists l, lo L = Some l /\ g i - k <= l.
  Proof.
    induction L as [|x r IH]; simpl; intros i k I E; [tauto|].
    destruct I as [->|I].
    - rewrite E. destruct (lo r); eexists; split; eauto; lia.
    - destruct (IH _ _ I E) as [l [E1 H]]. rewrite E1.
      destruct (f p x); eexists; split; eauto; lia.
  Qed.
  Lemma lo_attained L : forall l, lo L = Some l -> exists i k, In i L /\ f p i = Some k /\ l = g i - k.
  Proof.
    induction L as [|x r IH]; simpl; intros l E; [discriminate|].
    destruct (f p x) as [k|] eqn:F.
    - destruct (lo r) as [l'|] eqn:E1; inversion E; subst.
      + destruct (Z.max_spec l' (g x - k)) as [[_ M]|[_ M]]; rewrite M.
        * exists x, k. auto.
        * destruct (IH _ eq_refl) as [i [k' [I [F' X]]]]. exists i, k'. auto.
      + exists x, k. auto.
    - destruct (IH _ E) as [i [k' [I [F' X]]]]. exists i, k'. auto.
  Qed.
  Lemma hi_le L : forall i k, In i L -> f i p = Some k -> exists h, hi L = Some h /\ h <= g i + k.
  Proof.
    induction L as [|x r IH]; simpl; intros i k I E; [tauto|].
    destruct I as [->|I].
    - rewrite E. destruct (hi r); eexists; split; eauto; lia.
    - destruct (IH _ _ I E) as [l [E1 H]]. rewrite E1.
      destruct (f x p); eexists; split; eauto; lia.
  Qed.
  Lemma hi_attained L : forall h, hi L = Some h -> exists i k, In i L /\ f i p = Some k /\ h = g i + k.
  Proof.
    induction L as [|x r IH]; simpl; intros l E; [discriminate|].
    destruct (f x p) as [k|] eqn:F.
    - destruct (hi r) as [l'|] eqn:E1; inversion E; subst.
      + destruct (Z.min_spec l' (g x + k)) as [[_ M]|[_ M]]; rewrite M.
        * destruct (IH _ eq_refl) as [i [k' [I [F' X]]]]. exists i, k'. auto.
        * exists x, k. auto.
      + exists x, k. auto.
    - destruct (IH _ E) as [i [k' [I [F' X]]]]. exists i, k'. auto.
  Qed.

  Definition pick (L : list nat) : Z :=
    match lo L, hi L with
    | Some l, _ => l
    | None, Some h => h
    | None, None => 0
    end.

  Definition ext (L : list nat) : nat -> Z := fun i => if Nat.eqb i p then pick L else g i.

  Lemma extend L :
    ~ In p L -> wle (Some 0) (f p p) -> sat_on L g -> sat_on (p :: L) (ext L).
  Proof.
    intros NI Dp S i j k Ii Ij E. unfold ext.
    assert (Hp : forall x, In x L -> Nat.eqb x p = false).
    { intros x I. apply Nat.eqb_neq. intros ->. tauto. }
    destruct Ii as [<-|Ii], Ij as [<-|Ij]; rewrite ?Nat.eqb_refl, ?(Hp _ Ii), ?(Hp _ Ij).
    - rewrite E in Dp. simpl in Dp. lia.
    - (* constraint p -> j : g j - x <= k *)
      destruct (lo_ge L _ _ Ij E) as [l [El Hl]]. unfold pick. rewrite El. lia.
    - (* constraint i -> p : x - g i <= k *)
      unfold pick. destruct (lo L) as [l|] eqn:El.
      + destruct (lo_attained L _ El) as [i' [k' [I' [F' X]]]]. subst l.
        pose proof (C i i' p) as T. rewrite E, F' in T.
        destruct (f i i') as [k''|] eqn:F''; simpl in T; [|tauto].
        pose proof (S _ _ _ Ii I' F''). lia.
      + destruct (hi_le L _ _ Ii E) as [h [Eh Hh]]. rewrite Eh. lia.
    - apply (S _ _ _ Ii Ij E).
  Qed.
End Extend.

Lemma sat_on_ext f g g' L : (forall i, In i L -> g i = g' i) -> sat_on f L g -> sat_on f L g'.
Proof. intros E S i j k Ii Ij F. rewrite <- (E _ Ii), <- (E _ Ij). eapply S; eauto. Qed.

Lemma solution_on f : closed f -> (forall i, wle (Some 0) (f i i)) ->
  forall L, NoDup L -> exists g, sat_on f L g.
Proof.
  intros C D L. induction L as [|p L IH]; intros ND.
  - exists (fun _ => 0). intros i j k [].
  - inversion ND; subst. destruct (IH H2) as [g S].
    exists (ext f g p L). apply extend; auto.
Qed.

(* from a node assignment to a store, node 0 being the constant zero *)
Definition store_of (g : nat -> Z) : store := fun v => g (node v) - g O.

Lemma val_store_of g i : val (store_of g) i = g i - g O.
Proof.
  destruct i; simpl; [lia|]. unfold store_of, node. rewrite Nat2N.id. reflexivity.
Qed.

Lemma mwf_diag_nonneg n m : mwf n m -> forall i, wle (Some 0) (mget m i i).
Proof.
  intros [S [D _]] i. destruct (Nat.lt_ge_cases i n).
  - rewrite D; simpl; auto; lia.
  - rewrite S; simpl; auto.
Qed.

(* a closed consistent matrix has an integer point *)
Theorem mwf_inhabited n m : mwf n m -> exists s, gmat m s.
Proof.
  intros W. destruct W as [S [D C]].
  destruct (solution_on (mget m) C (mwf_diag_nonneg n m (conj S (conj D C))) (seq 0 n) (seq_NoDup n 0))
    as [g G].
  exists (store_of g). intros i j k E. rewrite !val_store_of.
  destruct (Nat.lt_ge_cases i n), (Nat.lt_ge_cases j n);
    try (rewrite S in E by lia; discriminate).
  assert (g j - g i <= k); [|lia]. apply (G i j k); auto; apply in_seq; lia.
Qed.

(* bottom exactly when there is no integer point *)
Theorem zone_bottom_exact n z : zwf n z -> (z_is_bot z = true <-> forall s, ~ gamma z s).
Proof.
  intros W. destruct z as [|m]; simpl.
  - split; auto.
  - split; [discriminate|]. intros H. destruct (mwf_inhabited n m W) as [s G]. destruct (H s G).
Qed.

(* each finite entry is attained, each infinite entry is exceeded by some integer point *)
Theorem entry_attained n m i j k : mwf n m -> (i < n)%nat -> (j < n)%nat ->
  mget m i j = Some k -> exists s, gmat m s /\ val s j - val s i = k.
Proof.
  intros W Hi Hj E.
  destruct (add_edge_m_spec n m j i (- k) W Hj Hi) as [W1 G1].
  unfold add_edge_m in *. rewrite E in *. simpl in *.
  replace (0 <=? - k + k) with true in * by (symmetry; apply Z.leb_le; lia). simpl in *.
  destruct (mwf_inhabited _ _ W1) as [s G]. exists s. apply G1 in G. destruct G as [G H].
  split; auto. specialize (G _ _ _ E). lia.
Qed.

Theorem entry_unbounded n m i j K : mwf n m -> (i < n)%nat -> (j < n)%nat ->
  mget m i j = None -> exists s, gmat m s /\ val s j - val s i >= K.
Proof.
  intros W Hi Hj E.
  destruct (add_edge_m_spec n m j i (- K) W Hj Hi) as [W1 G1].
  unfold add_edge_m in *. rewrite E in *. simpl in *.
  destruct (mwf_inhabited _ _ W1) as [s G]. exists s. apply G1 in G. destruct G as [G H].
  split; auto. lia.
Qed.

(* ------------------------------------------------------------------ the language *)
Lemma zone_nodes_spec ts p q s :
  zone_nodes ts = Some (p, q) -> eval_terms ts s = val s p - val s q.
Proof.
  unfold zone_nodes. destruct ts as [|[c x] [|[d y] [|]]]; try discriminate.
  - intros H. inversion H. simpl. lia.
  - destruct (Z.eqb_spec c 1); [|destruct (Z.eqb_spec c (-1)); [|discriminate]];
      intros H; inversion H; subst; cbn [eval_terms]; rewrite val_node; cbn [val]; lia.
  - destruct (Z.eqb_spec c 1), (Z.eqb_spec d (-1)); cbn [andb];
      try (intros H; inversion H; subst; cbn [eval_terms]; rewrite !val_node; lia);
      destruct (Z.eqb_spec c (-1)), (Z.eqb_spec d 1); cbn [andb]; try discriminate;
      intros H; inversion H; subst; cbn [eval_terms]; rewrite !val_node; lia.
Qed.

Lemma zone_edges_spec c es s :
  zone_edges c = Some es -> (sat c s <-> Forall (edge_holds s) es).
Proof.
  unfold zone_edges, sat, eval_le.
  destruct (zone_nodes (le_terms (lc_exp c))) as [[p q]|] eqn:E; [|discriminate].
  rewrite (zone_nodes_spec _ _ _ s E).
  destruct (lc_kind c); intros H; inversion H; subst; clear H.
  - split.
    + intros X. repeat constructor; simpl; lia.
    + intros X. inversion X as [|? ? A B]; subst. inversion B as [|? ? A' B']; subst.
      simpl in A, A'. lia.
  - split.
    + intros X. repeat constructor; simpl; lia.
    + intros X. inversion X as [|? ? A B]; subst. simpl in A. lia.
  - split.
    + intros X. repeat constructor; simpl; lia.
    + intros X. inversion X as [|? ? A B]; subst. simpl in A. lia.
Qed.

(* a constraint of the language over the variables of the matrix *)
Definition z_ok (n : nat) (c : lincst) : Prop :=
  exists es, zone_edges c = Some es /\ Forall (edge_in n) es.

Theorem z_add_spec n c z :
  z_ok n c -> zwf n z ->
  zwf n (z_add n c z) /\ (forall s, gamma (z_add n c z) s <-> (gamma z s /\ sat c s)).
Proof.
  intros [es [E F]] W. unfold z_add. rewrite E.
  destruct (add_edges_spec n es z W F) as [W1 G1]. split; auto.
  intros s. rewrite G1. rewrite (zone_edges_spec c es s E). tauto.
Qed.

Theorem z_assume_spec n cs : forall z,
  Forall (z_ok n) cs -> zwf n z ->
  zwf n (z_assume n cs z) /\
  (forall s, gamma (z_assume n cs z) s <-> (gamma z s /\ Forall (fun c => sat c s) cs)).
Proof.
  unfold z_assume. induction cs as [|c r IH]; intros z F W; simpl.
  - split; auto. intros s. split; [intros; split; auto|tauto].
  - inversion F; subst. destruct (z_add_spec n c z H1 W) as [W1 G1].
    destruct (IH _ H2 W1) as [W2 G2]. split; auto.
    intros s. rewrite G2, G1. split.
    + intros [[A B] Cc]. split; auto.
    + intros [A B]. inversion B; subst. tauto.
Qed.

(* entails answers yes exactly when every integer point satisfies the constraint *)
Theorem z_entails_exact n c z :
  zwf n z -> z_ok n c -> (z_entails c z = true <-> forall s, gamma z s -> sat c s).
Proof.
  intros W [es [E F]]. destruct z as [|m]; simpl.
  - split; auto. intros _ s [].
  - rewrite E. rewrite forallb_forall. split.
    + intros H s G. apply (zone_edges_spec c es s E). apply Forall_forall.
      intros [[a b] w] I. specialize (H _ I). simpl in H. apply wleb_spec in H.
      simpl. pose proof (G a b) as G1. destruct (mget m a b) as [k|]; simpl in H; [|tauto].
      specialize (G1 _ eq_refl). lia.
    + intros H [[a b] w] I. apply wleb_spec.
      rewrite Forall_forall in F. destruct (F _ I) as [Ha Hb].
      destruct (mget m a b) as [k|] eqn:M; simpl.
      * destruct (entry_attained n m a b k W Ha Hb M) as [s [G X]].
        pose proof (proj1 (zone_edges_spec c es s E) (H s G)) as Y.
        rewrite Forall_forall in Y. specialize (Y _ I). simpl in Y. lia.
      * destruct (entry_unbounded n m a b (w + 1) W Ha Hb M) as [s [G X]].
        pose proof (proj1 (zone_edges_spec c es s E) (H s G)) as Y.
        rewrite Forall_forall in Y. specialize (Y _ I). simpl in Y. lia.
Qed.

(* at(v) is the tightest interval *)
Theorem z_upper_exact n m v : mwf n m -> (node v < n)%nat -> (0 < n)%nat ->
  match z_upper (ZM m) v with
  | Some u => (forall s, gmat m s -> s v <= u) /\ exists s, gmat m s /\ s v = u
  | None => forall K, exists s, gmat m s /\ s v >= K
  end.
Proof.
  intros W Hv H0. simpl. destruct (mget m O (node v)) as [u|] eqn:E.
  - split.
    + intros s G. specialize (G _ _ _ E). rewrite val_node in G. simpl in G. lia.
    + destruct (entry_attained n m O (node v) u W H0 Hv E) as [s [G X]].
      exists s. split; auto. rewrite val_node in X. simpl in X. lia.
  - intros K. destruct (entry_unbounded n m O (node v) K W H0 Hv E) as [s [G X]].
    exists s. split; auto. rewrite val_node in X. simpl in X. lia.
Qed.

Theorem z_lower_exact n m v : mwf n m -> (node v < n)%nat -> (0 < n)%nat ->
  match z_lower (ZM m) v with
  | Some l => (forall s, gmat m s -> l <= s v) /\ exists s, gmat m s /\ s v = l
  | None => forall K, exists s, gmat m s /\ s v <= K
  end.
Proof.
  intros W Hv H0. simpl. destruct (mget m (node v) O) as [u|] eqn:E.
  - split.
    + intros s G. specialize (G _ _ _ E). rewrite val_node in G. simpl in G. lia.
    + destruct (entry_attained n m (node v) O u W Hv H0 E) as [s [G X]].
      exists s. split; auto. rewrite val_node in X. simpl in X. lia.
  - intros K. destruct (entry_unbounded n m (node v) O (- K) W Hv H0 E) as [s [G X]].
    exists s. split; auto. rewrite val_node in X. simpl in X. lia.
Qed.

(* ------------------------------------------------------------------ order, join *)
(* the entries of a closed matrix are below those of any matrix that contains its points *)
Lemma entry_le n a c : mwf n a -> support n (mget c) ->
  (forall s, gmat a s -> gmat c s) -> forall i j, wle (mget a i j) (mget c i j).
Proof.
  intros W S H i j. destruct (mget c i j) as [k|] eqn:E; [|destruct (mget a i j); exact I].
  assert (Hi : (i < n)%nat). { destruct (Nat.lt_ge_cases i n); auto. rewrite S in E by lia. discriminate. }
  assert (Hj : (j < n)%nat). { destruct (Nat.lt_ge_cases j n); auto. rewrite S in E by lia. discriminate. }
  destruct (mget a i j) as [ka|] eqn:A; simpl.
  - destruct (entry_attained n a i j ka W Hi Hj A) as [s [G X]].
    specialize (H s G _ _ _ E). lia.
  - destruct (entry_unbounded n a i j (k + 1) W Hi Hj A) as [s [G X]].
    specialize (H s G _ _ _ E). lia.
Qed.

Theorem z_leq_exact n a b : zwf n a -> zdim n b ->
  (z_leq n a b = true <-> forall s, gamma a s -> gamma b s).
Proof.
  intros Wa Db. destruct a as [|x], b as [|y]; simpl.
  - split; auto.
  - split; auto. intros _ s [].
  - split; [discriminate|]. intros H. destruct (mwf_inhabited n x Wa) as [s G]. destruct (H s G).
  - rewrite forallb_forall. split.
    + intros H s G i j k E.
      assert (I : In (i, j) (pairs n)).
      { apply in_pairs. destruct (Nat.lt_ge_cases i n), (Nat.lt_ge_cases j n); auto;
          rewrite Db in E by lia; discriminate. }
      specialize (H _ I). simpl in H. apply wleb_spec in H. rewrite E in H.
      pose proof (G i j) as G1. destruct (mget x i j); simpl in H; [|tauto].
      specialize (G1 _ eq_refl). lia.
    + intros H [i j] _. simpl. apply wleb_spec. apply (entry_le n x y); auto.
Qed.

Lemma wmax_closed f g : closed f -> closed g -> closed (fun i j => wmax (f i j) (g i j)).
Proof.
  intros Cf Cg i j k. pose proof (Cf i j k). pose proof (Cg i j k).
  revert H H0. generalize (f i j) (f i k) (f k j) (g i j) (g i k) (g k j). wt_crush.
Qed.

Theorem z_join_wf n a b : zwf n a -> zwf n b -> zwf n (z_join n a b).
Proof.
  destruct a as [|x], b as [|y]; simpl; auto.
  intros [Sx [Dx Cx]] [Sy [Dy Cy]]. split; [apply tab_support|]. split.
  - intros i Hi. rewrite mget_tab. pose proof Hi as Hi'. apply Nat.ltb_lt in Hi'. rewrite Hi'. simpl.
    rewrite Dx, Dy; auto.
  - apply closed_tab. apply wmax_closed; auto.
Qed.

Theorem z_join_upper_l n a b s : gamma a s -> gamma (z_join n a b) s.
Proof.
  destruct a as [|x], b as [|y]; simpl; auto; try tauto.
  intros G i j k. rewrite mget_tab. destruct ((i <? n) && (j <? n))%nat; [|discriminate].
  pose proof (G i j) as G1. destruct (mget x i j), (mget y i j); simpl; try discriminate.
  intros H. inversion H. specialize (G1 _ eq_refl). lia.
Qed.
Theorem z_join_upper_r n a b s : gamma b s -> gamma (z_join n a b) s.
Proof.
  destruct a as [|x], b as [|y]; simpl; auto; try tauto.
  intros G i j k. rewrite mget_tab. destruct ((i <? n) && (j <? n))%nat; [|discriminate].
  pose proof (G i j) as G1. destruct (mget x i j), (mget y i j); simpl; try discriminate.
  intros H. inversion H. specialize (G1 _ eq_refl). lia.
Qed.

(* the join is below every value of the dimension (closed or not) that is above both *)
Theorem z_join_least n a b c : zwf n a -> zwf n b -> zdim n c ->
  (forall s, gamma a s -> gamma c s) -> (forall s, gamma b s -> gamma c s) ->
  forall s, gamma (z_join n a b) s -> gamma c s.
Proof.
  intros Wa Wb Dc Ha Hb s. destruct a as [|x], b as [|y]; simpl; auto; try tauto.
  destruct c as [|z].
  - destruct (mwf_inhabited n x Wa) as [s0 G0]. destruct (Ha s0 G0).
  - intros G i j k E. simpl in *.
    pose proof (entry_le n x z Wa Dc Ha i j) as L1. pose proof (entry_le n y z Wb Dc Hb i j) as L2.
    rewrite E in L1, L2. pose proof (G i j) as G1. rewrite mget_tab in G1.
    assert (Hij : ((i <? n) && (j <? n))%nat = true).
    { destruct (Nat.ltb_spec i n), (Nat.ltb_spec j n); auto; rewrite Dc in E by lia; discriminate. }
    rewrite Hij in G1. destruct (mget x i j), (mget y i j); simpl in *; try tauto.
    specialize (G1 _ eq_refl). lia.
Qed.

(* ------------------------------------------------------------------ meet *)
Lemma meet_fold n y : forall ps acc,
  (forall p, In p ps -> (fst p < n /\ snd p < n)%nat) -> zwf n acc ->
  let r := fold_left (fun acc p => match mget y (fst p) (snd p) with
                                   | Some k => add_edge n acc (fst p, snd p, k)
                                   | None => acc end) ps acc in
  zwf n r /\
  (forall s, gamma r s <-> (gamma acc s /\
     forall p k, In p ps -> mget y (fst p) (snd p) = Some k -> val s (snd p) - val s (fst p) <= k)).
Proof.
  induction ps as [|p ps IH]; intros acc R W; simpl.
  - split; auto. intros s. split; [intros; split; auto; intros ? ? []|tauto].
  - destruct (mget y (fst p) (snd p)) as [k|] eqn:E.
    + destruct (add_edge_spec n acc (fst p, snd p, k) W) as [W1 G1].
      { simpl. apply R. left; auto. }
      destruct (IH _ (fun q I => R q (or_intror I)) W1) as [W2 G2]. split; auto.
      intros s. rewrite G2, G1. simpl. split.
      * intros [[A B] Cc]. split; auto. intros q k' [<-|I] F; [|eauto]. rewrite E in F. inversion F; subst; auto.
      * intros [A B]. split; [split; auto|]. intros q k' I F. apply (B q k'); auto.
    + destruct (IH _ (fun q I => R q (or_intror I)) W) as [W2 G2]. split; auto.
      intros s. rewrite G2. split.
      * intros [A B]. split; auto. intros q k' [<-|I] F; [congruence|eauto].
      * intros [A B]. split; auto.
Qed.

Theorem z_meet_spec n a b : zwf n a -> zwf n b ->
  zwf n (z_meet n a b) /\ (forall s, gamma (z_meet n a b) s <-> (gamma a s /\ gamma b s)).
Proof.
  intros Wa Wb. destruct a as [|x], b as [|y]; simpl; try (split; [exact I|intros s; tauto]).
  destruct (meet_fold n y (pairs n) (ZM x)) as [W G]; auto.
  { intros [i j] I. apply in_pairs in I. auto. }
  split; auto. intros s. rewrite G. simpl. split.
  - intros [A B]. split; auto. intros i j k E.
    assert (I : In (i, j) (pairs n)).
    { apply in_pairs. destruct Wb as [Sb _].
      destruct (Nat.lt_ge_cases i n), (Nat.lt_ge_cases j n); auto; rewrite Sb in E by lia; discriminate. }
    apply (B (i, j) k I E).
  - intros [A B]. split; auto.
Qed.

(* ------------------------------------------------------------------ forget *)
Definition store_eq_off (vs : list var) (s s' : store) : Prop := forall k, ~ In k vs -> s' k = s k.

Lemma val_upd s v x i : val (upd s v x) i = if Nat.eqb i (node v) then x else val s i.
Proof.
  destruct i; simpl.
  - reflexivity.
  - unfold upd, node. destruct (N.eqb_spec (N.of_nat i) v).
    + subst. rewrite Nat2N.id, Nat.eqb_refl. reflexivity.
    + destruct (Nat.eqb_spec i (N.to_nat v)); auto. subst. rewrite N2Nat.id in n. congruence.
Qed.

Definition forget_f (f : nat -> nat -> wt) (p : nat) (i j : nat) : wt :=
  if Nat.eqb i j then f i j else if Nat.eqb i p || Nat.eqb j p then None else f i j.

Lemma forget_closed f p : closed f -> closed (forget_f f p).
Proof.
  intros C i j k. unfold forget_f.
  pose proof (C i j k) as H. pose proof (C i i k) as H1.
  destruct (Nat.eqb_spec i j), (Nat.eqb_spec i k), (Nat.eqb_spec k j),
           (Nat.eqb_spec i p), (Nat.eqb_spec j p), (Nat.eqb_spec k p);
    subst; simpl; auto; try congruence;
    try (destruct (f j j); exact I); try (destruct (f i k); exact I); try (destruct (f i j); exact I);
    try (destruct (f p p); exact I); try (destruct (f k k); exact I).
Qed.

Theorem z_forget1_wf n z v : zwf n z -> zwf n (z_forget1 n z v).
Proof.
  unfold z_forget1, forget_m. destruct z as [|m]; simpl; auto. intros [S [D C]]. split; [apply tab_support|]. split.
  - intros i Hi. rewrite mget_tab. pose proof Hi as Hi'. apply Nat.ltb_lt in Hi'. rewrite Hi'. simpl.
    rewrite Nat.eqb_refl. auto.
  - apply closed_tab. apply (forget_closed (mget m) (node v) C).
Qed.

Theorem z_forget1_exact n z v s' : zwf n z -> (node v < n)%nat ->
  (gamma (z_forget1 n z v) s' <-> exists s, gamma z s /\ store_eq_off [v] s s').
Proof.
  intros W Hv. unfold z_forget1, forget_m. destruct z as [|m]; simpl.
  - split; [tauto|]. intros [s [[] _]].
  - destruct W as [S [D C]]. split.
    + (* every point of the projection comes from a point of the value *)
      intros G. set (p := node v).
      set (L := filter (fun i => negb (Nat.eqb i p)) (seq 0 n)).
      assert (NI : ~ In p L). { unfold L. rewrite filter_In. rewrite Nat.eqb_refl. simpl. intros [_ X]; discriminate. }
      assert (SL : sat_on (mget m) L (val s')).
      { intros i j k Ii Ij E. unfold L in Ii, Ij. rewrite filter_In in Ii, Ij.
        destruct Ii as [Ii Ni], Ij as [Ij Nj]. apply in_seq in Ii, Ij.
        apply (G i j k). rewrite mget_tab.
        replace ((i <? n)%nat) with true by (symmetry; apply Nat.ltb_lt; lia).
        replace ((j <? n)%nat) with true by (symmetry; apply Nat.ltb_lt; lia). simpl.
        fold p. apply negb_true_iff in Ni, Nj. rewrite Ni, Nj. simpl.
        destruct (Nat.eqb i j); auto. }
      pose proof (extend (mget m) C (val s') p L NI (mwf_diag_nonneg n m (conj S (conj D C)) p) SL) as X.
      exists (upd s' v (pick (mget m) (val s') p L)). split.
      * intros i j k E. rewrite !val_upd. fold p.
        destruct (Nat.lt_ge_cases i n), (Nat.lt_ge_cases j n); try (rewrite S in E by lia; discriminate).
        apply (X i j k); auto.
        -- destruct (Nat.eqb_spec i p); [left; auto|right]. unfold L. rewrite filter_In. split; [apply in_seq; lia|].
           apply negb_true_iff. apply Nat.eqb_neq; auto.
        -- destruct (Nat.eqb_spec j p); [left; auto|right]. unfold L. rewrite filter_In. split; [apply in_seq; lia|].
           apply negb_true_iff. apply Nat.eqb_neq; auto.
      * intros k Hk. unfold upd. destruct (N.eqb_spec k v); auto. subst. simpl in Hk. tauto.
    + intros [s [G E]] i j k. rewrite mget_tab.
      destruct ((i <? n) && (j <? n))%nat; [|discriminate].
      assert (V : forall q, q <> node v -> val s' q = val s q).
      { intros [|q] Hq; simpl; auto. apply E. simpl. intros [X|[]]. apply Hq. unfold node. rewrite X, Nat2N.id. auto. }
      destruct (Nat.eqb_spec i j).
      * subst. intros F. specialize (G _ _ _ F). lia.
      * destruct (Nat.eqb_spec i (node v)), (Nat.eqb_spec j (node v)); simpl; try discriminate.
        intros F. rewrite !V by auto. apply (G _ _ _ F).
Qed.

Theorem z_forget_wf n vs : forall z, zwf n z -> zwf n (z_forget n vs z).
Proof.
  unfold z_forget. induction vs as [|v r IH]; intros z W; simpl; auto.
  apply IH. apply z_forget1_wf; auto.
Qed.

Theorem z_forget_exact n vs : forall z s', zwf n z -> Forall (fun v => (node v < n)%nat) vs ->
  (gamma (z_forget n vs z) s' <-> exists s, gamma z s /\ store_eq_off vs s s').
Proof.
  unfold z_forget. induction vs as [|v r IH]; intros z s' W F; simpl.
  - split.
    + intros G. exists s'. split; auto. intros k _. auto.
    + intros [s [G E]]. destruct z as [|m]; simpl in *; auto.
      intros i j k X. assert (V : forall q, val s' q = val s q) by (intros [|q]; simpl; auto).
      rewrite !V. eauto.
  - inversion F; subst. rewrite (IH _ _ (z_forget1_wf n z v W) H2). split.
    + intros [s1 [G1 E1]]. apply (z_forget1_exact n z v s1 W H1) in G1. destruct G1 as [s [G E]].
      exists s. split; auto. intros k Hk. simpl in Hk. rewrite E1 by tauto. apply E. simpl. tauto.
    + intros [s [G E]].
      (* forget v first: s1 agrees with s except on v where it takes s' v *)
      exists (upd s v (s' v)). split.
      * apply (z_forget1_exact n z v _ W H1). exists s. split; auto.
        intros k Hk. unfold upd. destruct (N.eqb_spec k v); auto. subst. simpl in Hk. tauto.
      * intros k Hk. unfold upd. destruct (N.eqb_spec k v); [subst; auto|]. apply E. simpl.
        intros [X|X]; [congruence|tauto].
Qed.

(* ------------------------------------------------------------------ top test *)
Theorem z_is_top_exact n z : zwf n z -> (z_is_top n z = true <-> forall s, gamma z s).
Proof.
  intros W. destruct z as [|m]; simpl.
  - split; [discriminate|]. intros H. destruct (H (fun _ => 0)).
  - rewrite forallb_forall. split.
    + intros H s i j k E.
      destruct W as [S [D C]].
      assert (I : In (i, j) (pairs n)).
      { apply in_pairs. destruct (Nat.lt_ge_cases i n), (Nat.lt_ge_cases j n); auto; rewrite S in E by lia; discriminate. }
      specialize (H _ I). simpl in H. rewrite E in H. rewrite orb_false_r in H.
      apply Nat.eqb_eq in H. subst. apply in_pairs in I. rewrite D in E by tauto. inversion E. lia.
    + intros H [i j] I. simpl. destruct (Nat.eqb_spec i j); auto. simpl.
      pose proof (z_top_wf n) as Wt. simpl in Wt.
      pose proof (entry_le n _ m Wt (proj1 W) (fun s _ => H s) i j) as L.
      rewrite mget_tab in L. apply in_pairs in I. destruct I as [Hi Hj].
      apply Nat.ltb_lt in Hi, Hj. rewrite Hi, Hj in L. simpl in L.
      apply Nat.eqb_neq in n0. rewrite n0 in L. destruct (mget m i j); simpl in L; tauto.
Qed.

(* ------------------------------------------------------------------ assignments *)
Definition store_eq (s s' : store) : Prop := forall k, s k = s' k.

Lemma gamma_ext z s s' : store_eq s s' -> gamma z s -> gamma z s'.
Proof.
  intros E. destruct z as [|m]; simpl; auto. intros G i j k F.
  assert (V : forall q, val s' q = val s q) by (intros [|q]; simpl; auto).
  rewrite !V. eauto.
Qed.

Lemma shift_closed f (d : nat -> Z) :
  closed f -> closed (fun i j => wadd (f i j) (Some (d j - d i))).
Proof.
  intros C i j k. pose proof (C i j k) as H. revert H.
  generalize (f i j) (f i k) (f k j). wt_crush.
Qed.

Lemma shift_spec n m p k s : support n (mget m) ->
  (gmat (shift_m n m p k) s <->
   gfun (mget m) (fun i => if Nat.eqb i p then val s i - k else val s i)).
Proof.
  intros S. unfold shift_m. rewrite gmat_tab.
  - unfold gfun. split; intros H i j w E.
    + specialize (H i j (w + ((if Nat.eqb j p then k else 0) - (if Nat.eqb i p then k else 0)))).
      rewrite E in H. simpl in H. specialize (H eq_refl).
      destruct (Nat.eqb i p), (Nat.eqb j p); lia.
    + destruct (mget m i j) as [w'|] eqn:F; simpl in E; inversion E; subst.
      specialize (H i j w' F). destruct (Nat.eqb i p), (Nat.eqb j p); lia.
  - intros i j H. rewrite S; auto.
Qed.

Definition za_ok (n : nat) (x : var) (e : linexp) : Prop :=
  (node x < n)%nat /\ (0 < n)%nat /\
  (le_terms e = [] \/ exists y, le_terms e = [(1, y)] /\ (node y < n)%nat).

Theorem z_assign_wf n x e z : za_ok n x e -> zwf n z -> zwf n (z_assign n x e z).
Proof.
  intros [Hx [H0 F]] W. unfold z_assign. destruct F as [F|[y [F Hy]]]; rewrite F.
  - apply add_edges_spec; [apply z_forget1_wf; auto|]. repeat constructor; simpl; auto.
  - rewrite Z.eqb_refl. destruct (N.eqb_spec x y).
    + destruct z as [|m]; simpl; auto. destruct W as [S [D C]].
      split; [apply tab_support|]. split.
      * intros i Hi. unfold shift_m. rewrite mget_tab. pose proof Hi as Hi'. apply Nat.ltb_lt in Hi'.
        rewrite Hi'. simpl. rewrite D by auto. simpl. f_equal. lia.
      * apply closed_tab. apply (shift_closed (mget m) (fun i => if Nat.eqb i (node x) then le_cst e else 0) C).
    + apply add_edges_spec; [apply z_forget1_wf; auto|]. repeat constructor; simpl; auto.
Qed.

Lemma Forall_two {A} (P : A -> Prop) a b : Forall P [a; b] <-> (P a /\ P b).
Proof.
  split.
  - intros H. inversion H as [|? ? X Y]; subst. inversion Y; subst. auto.
  - intros [X Y]. repeat constructor; auto.
Qed.
Lemma edge_holds_0x s x w : edge_holds s (O, node x, w) <-> s x <= w.
Proof. unfold edge_holds. rewrite val_node. cbn [val]. lia. Qed.
Lemma edge_holds_x0 s x w : edge_holds s (node x, O, w) <-> - s x <= w.
Proof. unfold edge_holds. rewrite val_node. cbn [val]. lia. Qed.
Lemma edge_holds_xy s x y w : edge_holds s (node y, node x, w) <-> s x - s y <= w.
Proof. unfold edge_holds. rewrite !val_node. lia. Qed.

(* x := e is exact: the points of the result are the updates of the points of the value *)
Theorem z_assign_exact n x e z s' : za_ok n x e -> zwf n z ->
  (gamma (z_assign n x e z) s' <->
   exists s, gamma z s /\ store_eq s' (upd s x (eval_le e s))).
Proof.
  intros [Hx [H0 F]] W. unfold z_assign, eval_le. destruct F as [F|[y [F Hy]]]; rewrite F.
  - (* x := k *)
    destruct (add_edges_spec n [(O, node x, le_cst e); (node x, O, - le_cst e)] (z_forget1 n z x)
                (z_forget1_wf n z x W)) as [_ G].
    { repeat constructor; simpl; auto. }
    rewrite G. rewrite (z_forget1_exact n z x s' W Hx). cbn [eval_terms].
    rewrite Forall_two, edge_holds_0x, edge_holds_x0. split.
    + intros [[s [Gs E]] [A A']]. exists s. split; auto. intros k. unfold upd.
      destruct (N.eqb_spec k x).
      * subst. lia.
      * apply E. simpl. intros [X|[]]; congruence.
    + intros [s [Gs E]]. split.
      * exists s. split; auto. intros k Hk. rewrite E. unfold upd.
        destruct (N.eqb_spec k x); auto. subst. simpl in Hk. tauto.
      * pose proof (E x) as Ex. rewrite upd_same in Ex. lia.
  - rewrite Z.eqb_refl. cbn [eval_terms]. destruct (N.eqb_spec x y).
    + (* x := x + k *)
      subst y. destruct z as [|m]; cbn [gamma].
      * split; [tauto|]. intros [s [[] _]].
      * rewrite shift_spec by apply W. split.
        -- intros G. exists (upd s' x (s' x - le_cst e)). split.
           ++ intros i j k E. rewrite !val_upd. specialize (G i j k E). cbv beta in G.
              destruct (Nat.eqb_spec i (node x)), (Nat.eqb_spec j (node x)); subst; rewrite ?val_node in G; lia.
           ++ intros k. unfold upd. destruct (N.eqb_spec k x); subst; rewrite ?N.eqb_refl; lia.
        -- intros [s [G E]] i j k Fm. specialize (G i j k Fm).
           assert (V : forall q, q <> node x -> val s' q = val s q).
           { intros [|q] Hq; cbn [val]; auto. rewrite E. unfold upd. destruct (N.eqb_spec (N.of_nat q) x); auto.
             exfalso. apply Hq. unfold node. rewrite <- e0, Nat2N.id. auto. }
           assert (Vx : val s' (node x) = val s (node x) + le_cst e).
           { rewrite !val_node. rewrite E, upd_same. lia. }
           destruct (Nat.eqb_spec i (node x)), (Nat.eqb_spec j (node x)); subst; rewrite ?Vx, ?V by auto; lia.
    + (* x := y + k, y <> x *)
      destruct (add_edges_spec n [(node y, node x, le_cst e); (node x, node y, - le_cst e)] (z_forget1 n z x)
                  (z_forget1_wf n z x W)) as [_ G].
      { repeat constructor; simpl; auto. }
      rewrite G. rewrite (z_forget1_exact n z x s' W Hx).
      rewrite Forall_two, !edge_holds_xy. split.
      * intros [[s [Gs E]] [A A']]. exists s. split; auto. intros k. unfold upd.
        destruct (N.eqb_spec k x).
        -- subst. rewrite <- (E y) by (simpl; intros [X|[]]; congruence). lia.
        -- apply E. simpl. intros [X|[]]; congruence.
      * intros [s [Gs E]]. split.
        -- exists s. split; auto. intros k Hk. rewrite E. unfold upd.
           destruct (N.eqb_spec k x); auto. subst. simpl in Hk. tauto.
        -- pose proof (E x) as Ex. rewrite upd_same in Ex.
           pose proof (E y) as Ey. rewrite upd_other in Ey by congruence. lia.
Qed.

(* ------------------------------------------------------------------ histories (generic) *)
Section Histories.
  Context {A : Type} (D : gdom A) (wf : A -> Prop) (gam : A -> store -> Prop).
  Variables (okc : lincst -> Prop) (oka : var -> linexp -> Prop) (okv : var -> Prop).

  (* side conditions of an operation: constraints / assignments of the language over the
     variables of the value *)
  Definition gop_ok (o : gop) : Prop :=
    match o with
    | GAssume _ cs => Forall okc cs
    | GAssign _ x e => oka x e
    | GForget _ vs => Forall okv vs
    | _ => True
    end.

  Definition gtarget (o : gop) : nat :=
    match o with
    | GTop r | GBot r | GCopy r _ | GAssume r _ | GAssign r _ _ | GForget r _
    | GJoin r _ _ | GMeet r _ _ => r
    end.

  (* EXACT domains: what each operation must compute, up to the set of integer points *)
  Record exact_dom : Prop := {
    ed_top_wf : wf (g_top D);
    ed_top : forall s, gam (g_top D) s;
    ed_bot_wf : wf (g_bot D);
    ed_bot : forall s, ~ gam (g_bot D) s;
    ed_assume : forall cs z, Forall okc cs -> wf z ->
      wf (g_assume D cs z) /\
      forall s, gam (g_assume D cs z) s <-> (gam z s /\ Forall (fun c => sat c s) cs);
    ed_assign : forall x e z, oka x e -> wf z ->
      wf (g_assign D x e z) /\
      forall s', gam (g_assign D x e z) s' <-> exists s, gam z s /\ store_eq s' (upd s x (eval_le e s));
    ed_forget : forall vs z, Forall okv vs -> wf z ->
      wf (g_forget D vs z) /\
      forall s', gam (g_forget D vs z) s' <-> exists s, gam z s /\ store_eq_off vs s s';
    ed_join : forall a b, wf a -> wf b ->
      wf (g_join D a b) /\
      (forall s, gam a s \/ gam b s -> gam (g_join D a b) s) /\
      (forall c, wf c -> (forall s, gam a s -> gam c s) -> (forall s, gam b s -> gam c s) ->
                 forall s, gam (g_join D a b) s -> gam c s);
    ed_meet : forall a b, wf a -> wf b ->
      wf (g_meet D a b) /\ forall s, gam (g_meet D a b) s <-> (gam a s /\ gam b s)
  }.

  Lemma gget_wf rs r : wf (g_top D) -> Forall wf rs -> wf (gget D rs r).
  Proof.
    intros T F. unfold gget. revert r. induction F; intros [|r]; simpl; auto.
  Qed.
  Lemma gset_wf rs r v : Forall wf rs -> wf v -> Forall wf (gset rs r v).
  Proof.
    intros F W. revert r. induction F; intros [|r]; simpl; auto.
  Qed.
  Lemma gget_gset rs r v : (r < length rs)%nat -> gget D (gset rs r v) r = v.
  Proof.
    unfold gget. revert r. induction rs as [|h t IH]; intros [|r] H; simpl in *; try lia; auto.
    apply IH. lia.
  Qed.

  Hypothesis E : exact_dom.

  Theorem gstep_wf rs o : Forall wf rs -> gop_ok o -> Forall wf (gstep D rs o).
  Proof.
    intros F O. pose proof (ed_top_wf E) as T.
    destruct o; simpl in *; apply gset_wf; auto;
      try (apply gget_wf; auto).
    - apply (ed_bot_wf E).
    - apply (ed_assume E); auto. apply gget_wf; auto.
    - apply (ed_assign E); auto. apply gget_wf; auto.
    - apply (ed_forget E); auto. apply gget_wf; auto.
    - apply (ed_join E); apply gget_wf; auto.
    - apply (ed_meet E); apply gget_wf; auto.
  Qed.

  (* the invariant holds after ANY history *)
  Theorem grun_wf h : forall rs, Forall wf rs -> Forall gop_ok h -> Forall wf (grun D rs h).
  Proof.
    unfold grun. induction h as [|o h IH]; intros rs F O; simpl; auto.
    inversion O; subst. apply IH; auto. apply gstep_wf; auto.
  Qed.

  (* what the value written by one step means, in terms of the values read *)
  Definition step_spec (rs : list A) (o : gop) (v : A) : Prop :=
    match o with
    | GTop _ => forall s, gam v s
    | GBot _ => forall s, ~ gam v s
    | GCopy _ q => v = gget D rs q
    | GAssume r cs => forall s, gam v s <-> (gam (gget D rs r) s /\ Forall (fun c => sat c s) cs)
    | GAssign r x e => forall s', gam v s' <->
                                  exists s, gam (gget D rs r) s /\ store_eq s' (upd s x (eval_le e s))
    | GForget r vs => forall s', gam v s' <-> exists s, gam (gget D rs r) s /\ store_eq_off vs s s'
    | GJoin _ p q =>
      (forall s, gam (gget D rs p) s \/ gam (gget D rs q) s -> gam v s) /\
      (forall c, wf c -> (forall s, gam (gget D rs p) s -> gam c s) ->
                 (forall s, gam (gget D rs q) s -> gam c s) -> forall s, gam v s -> gam c s)
    | GMeet _ p q => forall s, gam v s <-> (gam (gget D rs p) s /\ gam (gget D rs q) s)
    end.

  Theorem gstep_exact rs o : Forall wf rs -> gop_ok o -> (gtarget o < length rs)%nat ->
    step_spec rs o (gget D (gstep D rs o) (gtarget o)).
  Proof.
    intros F O L. pose proof (ed_top_wf E) as T.
    destruct o; simpl in *; rewrite gget_gset by auto.
    - apply (ed_top E).
    - apply (ed_bot E).
    - reflexivity.
    - apply (ed_assume E); auto. apply gget_wf; auto.
    - apply (ed_assign E); auto. apply gget_wf; auto.
    - apply (ed_forget E); auto. apply gget_wf; auto.
    - apply (ed_join E); apply gget_wf; auto.
    - apply (ed_meet E); apply gget_wf; auto.
  Qed.
End Histories.

(* SOUND domains and the concrete collecting semantics of histories *)
Section SoundHistories.
  Context {A : Type} (D : gdom A) (gam : A -> store -> Prop).
  Variable (okc : lincst -> Prop).

  Record sound_dom : Prop := {
    sd_top : forall s, gam (g_top D) s;
    sd_assume : forall cs z s, Forall okc cs -> gam z s -> Forall (fun c => sat c s) cs ->
                               gam (g_assume D cs z) s;
    sd_assign : forall x e z s s', gam z s -> store_eq s' (upd s x (eval_le e s)) ->
                                   gam (g_assign D x e z) s';
    sd_forget : forall vs z s s', gam z s -> store_eq_off vs s s' -> gam (g_forget D vs z) s';
    sd_join : forall a b s, gam a s \/ gam b s -> gam (g_join D a b) s;
    sd_meet : forall a b s, gam a s -> gam b s -> gam (g_meet D a b) s
  }.

  Definition cset := store -> Prop.
  Definition cget (cs : list cset) (r : nat) : cset := nth r cs (fun _ => True).
  Fixpoint csetr (cs : list cset) (r : nat) (v : cset) : list cset :=
    match cs, r with
    | [], _ => []
    | _ :: t, O => v :: t
    | h :: t, S r' => h :: csetr t r' v
    end.
  Definition cstepg (cs : list cset) (o : gop) : list cset :=
    match o with
    | GTop r => csetr cs r (fun _ => True)
    | GBot r => csetr cs r (fun _ => False)
    | GCopy r q => csetr cs r (cget cs q)
    | GAssume r cl => csetr cs r (fun s => cget cs r s /\ Forall (fun c => sat c s) cl)
    | GAssign r x e => csetr cs r (fun s' => exists s, cget cs r s /\ store_eq s' (upd s x (eval_le e s)))
    | GForget r vs => csetr cs r (fun s' => exists s, cget cs r s /\ store_eq_off vs s s')
    | GJoin r p q => csetr cs r (fun s => cget cs p s \/ cget cs q s)
    | GMeet r p q => csetr cs r (fun s => cget cs p s /\ cget cs q s)
    end.

  Definition grel (rs : list A) (cs : list cset) : Prop :=
    length rs = length cs /\ forall r s, cget cs r s -> gam (gget D rs r) s.

  Definition gop_okc (o : gop) : Prop :=
    match o with GAssume _ cl => Forall okc cl | _ => True end.

  Hypothesis S : sound_dom.

  Lemma cget_csetr cs r c q :
    cget (csetr cs r c) q = if (Nat.eqb q r && (r <? length cs)%nat) then c else cget cs q.
  Proof.
    unfold cget. revert r q. induction cs as [|h t IH]; intros [|r] [|q]; simpl; auto;
      try (destruct (Nat.eqb q r); reflexivity).
    rewrite IH. destruct (Nat.eqb q r); simpl; auto.
  Qed.
  Lemma gget_gset_gen rs r v q :
    gget D (gset rs r v) q = if (Nat.eqb q r && (r <? length rs)%nat) then v else gget D rs q.
  Proof.
    unfold gget. revert r q. induction rs as [|h t IH]; intros [|r] [|q]; simpl; auto;
      try (destruct (Nat.eqb q r); reflexivity).
    rewrite IH. destruct (Nat.eqb q r); simpl; auto.
  Qed.
  Lemma length_csetr cs r c : length (csetr cs r c) = length cs.
  Proof. revert r. induction cs; intros [|r]; simpl; auto. Qed.
  Lemma length_gset (rs : list A) r v : length (gset rs r v) = length rs.
  Proof. revert r. induction rs; intros [|r]; simpl; auto. Qed.

  Lemma grel_set rs cs r v (c : cset) :
    grel rs cs -> (forall s, c s -> gam v s) -> grel (gset rs r v) (csetr cs r c).
  Proof.
    intros [L R] H. split.
    - rewrite length_csetr, length_gset. auto.
    - intros q s. rewrite cget_csetr, gget_gset_gen, L.
      destruct (Nat.eqb q r && (r <? length cs)%nat); auto.
  Qed.

  Theorem gstep_sound rs cs o : grel rs cs -> gop_okc o -> grel (gstep D rs o) (cstepg cs o).
  Proof.
    intros R O. pose proof (proj2 R) as G.
    destruct o as [r|r|r q|r cl|r x e|r vs|r p q|r p q]; simpl in *; apply grel_set; auto.
    - intros s _. apply (sd_top S).
    - intros s [].
    - intros s [X Y]. apply (sd_assume S); auto.
    - intros s' [s [X Y]]. eapply (sd_assign S); eauto.
    - intros s' [s [X Y]]. eapply (sd_forget S); eauto.
    - intros s [X|X]; apply (sd_join S); auto.
    - intros s [X Y]. apply (sd_meet S); auto.
  Qed.

  (* after ANY history every register describes every store the concrete operations reach *)
  Theorem grun_sound h : forall rs cs, grel rs cs -> Forall gop_okc h ->
    grel (grun D rs h) (fold_left cstepg h cs).
  Proof.
    unfold grun. induction h as [|o h IH]; intros rs cs R O; simpl; auto.
    inversion O; subst. apply IH; auto. apply gstep_sound; auto.
  Qed.
End SoundHistories.

(* ------------------------------------------------------------------ zones are exact *)
Theorem zone_exact_dom n : (0 < n)%nat ->
  exact_dom (zone_dom n) (zwf n) gamma (z_ok n) (za_ok n) (fun v => (node v < n)%nat).
Proof.
  intros H0. constructor; simpl.
  - apply z_top_wf.
  - apply z_top_gamma.
  - exact I.
  - intros s [].
  - intros cs z F W. apply z_assume_spec; auto.
  - intros x e z O W. split; [apply z_assign_wf; auto|]. intros s'. apply z_assign_exact; auto.
  - intros vs z F W. split; [apply z_forget_wf; auto|]. intros s'. apply z_forget_exact; auto.
  - intros a b Wa Wb. split; [apply z_join_wf; auto|]. split.
    + intros s [X|X]; [apply z_join_upper_l|apply z_join_upper_r]; auto.
    + intros c Wc. apply z_join_least; auto. apply zwf_zdim; auto.
  - intros a b Wa Wb. apply z_meet_spec; auto.
Qed.

(* non-vacuity: a value that is neither top nor bottom, with a tight derived bound *)
Example zone_example :
  let z := z_assume 3 [mkLC INEQ (mkLE [(1, 0%N); (-1, 1%N)] (-3)); mkLC INEQ (mkLE [(1, 1%N)] (-10))] (z_top 3) in
  zwf 3 z /\ z_is_bot z = false /\ z_is_top 3 z = false /\ z_upper z 0%N = Some 13 /\
  z_entails (mkLC INEQ (mkLE [(1, 0%N)] (-13))) z = true /\
  z_entails (mkLC INEQ (mkLE [(1, 0%N)] (-12))) z = false.
Proof.
  split.
  - apply z_assume_spec; [|apply z_top_wf].
    repeat constructor; eexists; (split; [reflexivity|]); repeat constructor; simpl; lia.
  - vm_compute. repeat split; reflexivity.
Qed.

(* the first sentence of the property, literally: assume any conjunction from top *)
Theorem zone_conjunction_exact n cs : Forall (z_ok n) cs ->
  let z := z_assume n cs (z_top n) in
  (z_is_bot z = true <-> forall s, ~ Forall (fun c => sat c s) cs) /\
  (forall c, z_ok n c ->
     (z_entails c z = true <-> forall s, Forall (fun c => sat c s) cs -> sat c s)).
Proof.
  intros F z. destruct (z_assume_spec n cs (z_top n) F (z_top_wf n)) as [W G]. fold z in W, G.
  split.
  - rewrite (zone_bottom_exact n z W). split.
    + intros H s X. apply (H s). apply G. split; [apply z_top_gamma|auto].
    + intros H s X. apply G in X. apply (H s). tauto.
  - intros c Oc. rewrite (z_entails_exact n c z W Oc). split; intros H s X.
    + apply H. apply G. split; [apply z_top_gamma|auto].
    + apply H. apply G in X. tauto.
Qed.

Theorem zone_history_invariant n : (0 < n)%nat -> forall h rs,
  Forall (zwf n) rs ->
  Forall (gop_ok (z_ok n) (za_ok n) (fun v => (node v < n)%nat)) h ->
  Forall (zwf n) (grun (zone_dom n) rs h).
Proof. intros H. exact (grun_wf (zone_dom n) (zwf n) gamma _ _ _ (zone_exact_dom n H)). Qed.

Theorem zone_step_exact n : (0 < n)%nat -> forall rs o,
  Forall (zwf n) rs -> gop_ok (z_ok n) (za_ok n) (fun v => (node v < n)%nat) o ->
  (gtarget o < length rs)%nat ->
  step_spec (zone_dom n) (zwf n) gamma rs o (gget (zone_dom n) (gstep (zone_dom n) rs o) (gtarget o)).
Proof. intros H. exact (gstep_exact (zone_dom n) (zwf n) gamma _ _ _ (zone_exact_dom n H)). Qed.

(* ------------------------------------------------------------------ the same facts for arbitrary node valuations *)
(* (used by the octagon proofs, where the valuation of the nodes is not [val s]) *)
Definition ggam (g : nat -> Z) (z : zone) : Prop :=
  match z with ZBot => False | ZM m => gfun (mget m) g end.

Lemma gfun_tab n f g : support n f -> (gfun (mget (tab n f)) g <-> gfun f g).
Proof.
  intros S. unfold gfun. split; intros H i j k E.
  - apply H. rewrite tab_ext; auto.
  - apply H. rewrite tab_ext in E; auto.
Qed.

Lemma add_edge_m_spec_g n m a b w :
  mwf n m -> (a < n)%nat -> (b < n)%nat ->
  zwf n (add_edge_m n m (a, b, w)) /\
  (forall g, ggam g (add_edge_m n m (a, b, w)) <-> (gfun (mget m) g /\ g b - g a <= w)).
Proof.
  intros W Ha Hb. split; [apply (add_edge_m_spec n m a b w W Ha Hb)|].
  destruct W as [S [D C]]. unfold add_edge_m.
  destruct (wleb (Some 0) (wadd (Some w) (mget m b a))) eqn:E; simpl.
  - apply wleb_spec in E. intros g. fold (upd_f (mget m) a b w).
    rewrite gfun_tab by (apply upd_support; auto). split.
    + intros G. apply (upd_gfun_inv (mget m) a b w); auto.
    + intros [G H]. apply upd_gfun; auto.
  - intros g. split; [tauto|]. intros [G H].
    assert (X : wleb (Some 0) (wadd (Some w) (mget m b a)) = true); [|congruence].
    apply wleb_spec. pose proof (G b a) as G1.
    destruct (mget m b a) as [k|]; simpl; auto. specialize (G1 _ eq_refl). lia.
Qed.

Lemma add_edges_spec_g n es : forall z,
  zwf n z -> Forall (edge_in n) es ->
  zwf n (add_edges n z es) /\
  (forall g, ggam g (add_edges n z es) <->
             (ggam g z /\ Forall (fun e => let '(a, b, w) := e in g b - g a <= w) es)).
Proof.
  induction es as [|[[a b] w] r IH]; intros z W F; simpl.
  - split; auto. intros g. split; [intros; split; auto|tauto].
  - inversion F as [|? ? Hab F']; subst. destruct Hab as [Ha Hb].
    assert (X : zwf n (add_edge n z (a, b, w)) /\
                forall g, ggam g (add_edge n z (a, b, w)) <-> (ggam g z /\ g b - g a <= w)).
    { destruct z as [|m]; simpl; [split; auto; intros; tauto|]. apply add_edge_m_spec_g; auto. }
    destruct X as [W1 G1]. destruct (IH _ W1 F') as [W2 G2]. split; auto.
    intros g. rewrite G2, G1. split.
    + intros [[A B] Cc]. split; auto.
    + intros [A B]. inversion B; subst. tauto.
Qed.

Theorem mwf_inhabited_g n m : mwf n m -> exists g, gfun (mget m) g.
Proof.
  intros W. destruct W as [S [D C]].
  destruct (solution_on (mget m) C (mwf_diag_nonneg n m (conj S (conj D C))) (seq 0 n) (seq_NoDup n 0))
    as [g G].
  exists g. intros i j k E.
  destruct (Nat.lt_ge_cases i n), (Nat.lt_ge_cases j n);
    try (rewrite S in E by lia; discriminate).
  apply (G i j k); auto; apply in_seq; lia.
Qed.

Theorem entry_attained_g n m i j k : mwf n m -> (i < n)%nat -> (j < n)%nat ->
  mget m i j = Some k -> exists g, gfun (mget m) g /\ g j - g i = k.
Proof.
  intros W Hi Hj E.
  destruct (add_edge_m_spec_g n m j i (- k) W Hj Hi) as [W1 G1].
  unfold add_edge_m in *. rewrite E in *. simpl in *.
  replace (0 <=? - k + k) with true in * by (symmetry; apply Z.leb_le; lia). simpl in *.
  destruct (mwf_inhabited_g _ _ W1) as [g G]. exists g. apply (G1 g) in G. destruct G as [G H].
  split; auto. specialize (G _ _ _ E). lia.
Qed.

Theorem entry_unbounded_g n m i j K : mwf n m -> (i < n)%nat -> (j < n)%nat ->
  mget m i j = None -> exists g, gfun (mget m) g /\ g j - g i >= K.
Proof.
  intros W Hi Hj E.
  destruct (add_edge_m_spec_g n m j i (- K) W Hj Hi) as [W1 G1].
  unfold add_edge_m in *. rewrite E in *. simpl in *.
  destruct (mwf_inhabited_g _ _ W1) as [g G]. exists g. apply (G1 g) in G. destruct G as [G H].
  split; auto. lia.
Qed.

Lemma entry_le_g n a c : mwf n a -> support n (mget c) ->
  (forall g, gfun (mget a) g -> gfun (mget c) g) -> forall i j, wle (mget a i j) (mget c i j).
Proof.
  intros W S H i j. destruct (mget c i j) as [k|] eqn:E; [|destruct (mget a i j); exact I].
  assert (Hi : (i < n)%nat). { destruct (Nat.lt_ge_cases i n); auto. rewrite S in E by lia. discriminate. }
  assert (Hj : (j < n)%nat). { destruct (Nat.lt_ge_cases j n); auto. rewrite S in E by lia. discriminate. }
  destruct (mget a i j) as [ka|] eqn:A; simpl.
  - destruct (entry_attained_g n a i j ka W Hi Hj A) as [g [G X]].
    specialize (H g G _ _ _ E). lia.
  - destruct (entry_unbounded_g n a i j (k + 1) W Hi Hj A) as [g [G X]].
    specialize (H g G _ _ _ E). lia.
Qed.

(* closed matrices with the same solutions are equal entry by entry *)
Lemma mwf_unique n a c : mwf n a -> mwf n c ->
  (forall g, gfun (mget a) g <-> gfun (mget c) g) -> forall i j, mget a i j = mget c i j.
Proof.
  intros Wa Wc H i j.
  pose proof (entry_le_g n a c Wa (proj1 Wc) (fun g => proj1 (H g)) i j) as L1.
  pose proof (entry_le_g n c a Wc (proj1 Wa) (fun g => proj2 (H g)) i j) as L2.
  destruct (mget a i j), (mget c i j); simpl in *; try tauto. f_equal. lia.
Qed.
